//! C06 — read transactions see one consistent committed state.
//!
//! One REAL reader (`QueryServer::read` + searches) and one REAL committing writer
//! (`QueryServerWriteTransaction::commit`) run on two OS threads against one file-backed
//! server with a connection pool of two.  The `verif-hooks` pause points
//! (kanidmd_lib::verif_hooks::c06) call a thread-local callback between the snapshot
//! acquisitions of the reader and between the publication steps of the writer; the callback
//! blocks on a scheduler, so the harness enforces one chosen interleaving ("segment
//! schedule") per case.  The reader then reports which committed state each thing it sees
//! belongs to (entry A, entry B, repeated; change-id cell, RUV, domain display name, an
//! access decision).  The Coq model (KV.C06.Model) predicts that vector for the schedule.
use kanidm_proto::internal::{Filter as ProtoFilter, FsType};
use kanidmd_lib::be::{Backend, BackendConfig};
use kanidmd_lib::entry::{Entry, EntryInit, EntryNew};
use kanidmd_lib::prelude::*;
use kanidmd_lib::schema::Schema;
use kanidmd_lib::verif_hooks::{c06 as hk, c09};
use kvh::*;
use std::sync::{Arc, Condvar, Mutex};

const R_IDS: [u32; 9] = [1, 2, 3, 4, 5, 6, 7, 8, 9];
// pause ids in the order the writer reaches them since /repo 953436b (backend commit first)
const W_IDS: [u32; 14] = [101, 102, 103, 108, 109, 110, 111, 112, 113, 114, 104, 105, 106, 107];

// ------------------------------------------------------------------ scheduler
struct SchedState {
    toks: Vec<bool>, // true = reader's turn
    pos: usize,
    done: [bool; 2],
    broken: bool,
}
struct Sched {
    m: Mutex<SchedState>,
    cv: Condvar,
}
impl Sched {
    fn new(toks: Vec<bool>) -> Arc<Self> {
        Arc::new(Sched { m: Mutex::new(SchedState { toks, pos: 0, done: [false, false], broken: false }), cv: Condvar::new() })
    }
    /// Thread `me` finished its previous step (unless `first`) and wants to run its next one.
    fn boundary(&self, me: bool, first: bool) {
        let mut g = self.m.lock().expect("sched");
        if !first {
            g.pos += 1;
            self.cv.notify_all();
        }
        loop {
            let other_done = g.done[(!me) as usize];
            if g.pos >= g.toks.len() || g.toks[g.pos] == me || other_done || g.broken {
                if other_done && g.pos < g.toks.len() && g.toks[g.pos] != me {
                    g.broken = true; // the other thread stopped with tokens left: shape mismatch
                }
                break;
            }
            let (ng, to) = self.cv.wait_timeout(g, Duration::from_secs(20)).expect("sched wait");
            g = ng;
            if to.timed_out() {
                g.broken = true;
                self.cv.notify_all();
                break;
            }
        }
    }
    fn finish(&self, me: bool) {
        let mut g = self.m.lock().expect("sched");
        g.pos += 1;
        g.done[me as usize] = true;
        self.cv.notify_all();
    }
}

fn install(sched: &Arc<Sched>, me: bool, trace: &Arc<Mutex<Vec<u32>>>) {
    let s = sched.clone();
    let t = trace.clone();
    let mut first = true;
    hk::set_pause(Some(Box::new(move |id| {
        t.lock().expect("trace").push(id);
        s.boundary(me, first);
        first = false;
    })));
}

// ------------------------------------------------------------------ server
fn open_server(path: &std::path::Path, ct: Duration) -> QueryServer {
    let schema_outer = Schema::new().expect("schema");
    let idxmeta = {
        let schema_txn = schema_outer.write();
        schema_txn.reload_idxmeta()
    };
    // connection pool of TWO: one reader and the writer hold a connection at the same time
    let cfg = BackendConfig::new(Some(path), 2, FsType::Generic, Some(2048));
    let be = Backend::new(cfg, idxmeta, false).expect("be");
    QueryServer::new(be, schema_outer, "example.com".to_string(), ct).expect("qs")
}

const BASEU: u128 = 0xc06c_0600_0000_0000_0000_0000_0000_0000u128;
fn key_uuid(k: u64) -> Uuid {
    Uuid::from_u128(BASEU + 0x10 * (k as u128 + 1))
}
fn uc() -> Uuid {
    Uuid::from_u128(BASEU + 0x100)
}
fn u_reader() -> Uuid {
    Uuid::from_u128(BASEU + 0x200)
}
fn u_readers() -> Uuid {
    Uuid::from_u128(BASEU + 0x300)
}
fn u_acp() -> Uuid {
    Uuid::from_u128(BASEU + 0x400)
}

fn rel(seen: Option<u64>, old: u64) -> u64 {
    match seen {
        Some(v) if v == old => 0,
        Some(v) if v == old + 1 => 1,
        _ => 2,
    }
}

fn parse_ver(s: &str, prefix: &str) -> Option<u64> {
    s.strip_prefix(prefix).and_then(|x| x.parse::<u64>().ok())
}

fn entry_ver(e: &Entry<kanidmd_lib::entry::EntrySealed, kanidmd_lib::entry::EntryCommitted>) -> Option<u64> {
    e.get_ava_set(Attribute::Description)
        .and_then(|vs| vs.to_proto_string_single())
        .and_then(|s| parse_ver(&s, "v"))
}

struct RunOut {
    tr_r: Vec<u32>,
    tr_w: Vec<u32>,
    eobs: Vec<u64>,
    cobs: Vec<(u64, u64)>,
    broken: bool,
    commit_ok: bool,
}

/// One case: prepare the caches, then run reader and writer under the schedule.
fn run_case(qs: &QueryServer, ident: &Identity, old: u64, warm: &[u64], queries: &[u64], toks: &[bool]) -> RunOut {
    let rt = tokio::runtime::Builder::new_current_thread().enable_all().build().expect("rt");
    // 1. empty the shared caches, then warm the chosen keys (and always the ACP probe entry C)
    rt.block_on(qs.clear_cache()).expect("clear_cache");
    let old_trim = {
        let mut rd = rt.block_on(qs.read()).expect("read");
        for k in warm {
            rd.internal_search_uuid(key_uuid(*k)).expect("warm");
        }
        rd.internal_search_uuid(uc()).expect("warm c");
        // the access check also resolves the probe's filters: do it once here as well
        let f = kanidmd_lib::filter!(f_eq(Attribute::Uuid, PartialValue::Uuid(uc())));
        rd.impersonate_search_ext(f.clone(), f, ident).expect("warm acp probe");
        c09::trim_cid_read(&rd)
    };
    qs.try_quiesce();

    let sched = Sched::new(toks.to_vec());
    let tr_r = Arc::new(Mutex::new(vec![]));
    let tr_w = Arc::new(Mutex::new(vec![]));
    let new = old + 1;

    let ident_r = ident.clone();
    let (sched_r, tr_r_t) = (sched.clone(), tr_r.clone());
    let (robs, wres) = std::thread::scope(|sc| {
        let rh = sc.spawn(move || {
            let ident = &ident_r;
            let (sched, tr_r) = (sched_r, tr_r_t);
            let rt = tokio::runtime::Builder::new_current_thread().enable_all().build().expect("rt");
            install(&sched, true, &tr_r);
            let rd = rt.block_on(qs.read());
            hk::set_pause(None);
            let mut rd = match rd {
                Ok(r) => r,
                Err(e) => {
                    sched.finish(true);
                    return Err(format!("read: {e:?}"));
                }
            };
            let had_pauses = !tr_r.lock().expect("trace").is_empty();
            let mut eobs = vec![];
            for (i, k) in queries.iter().enumerate() {
                sched.boundary(true, i == 0 && !had_pauses);
                let v = rd.internal_search_uuid(key_uuid(*k)).ok().and_then(|e| entry_ver(&e));
                eobs.push(rel(v, old));
            }
            sched.finish(true);
            // cells, answered from the snapshots the transaction already holds
            let trim = c09::trim_cid_read(&rd);
            let (ruv, _) = c09::ruv_dump_read(&mut rd);
            let dn = parse_ver(rd.get_domain_display_name(), "c06dom");
            let f = kanidmd_lib::filter!(f_eq(Attribute::Uuid, PartialValue::Uuid(uc())));
            let vis = rd
                .impersonate_search_ext(f.clone(), f, ident)
                .map(|v| v.first().map(|e| e.get_ava_set(Attribute::Description).is_some()))
                .ok()
                .flatten();
            drop(rd);
            Ok((eobs, trim, ruv, dn, vis))
        });
        let wh = sc.spawn(|| {
            let rt = tokio::runtime::Builder::new_current_thread().enable_all().build().expect("rt");
            let mut wr = rt.block_on(qs.write(duration_from_epoch_now())).expect("write");
            let cid = wr.verif_cid();
            let wtrim = c09::trim_cid_write(&wr);
            for k in [0u64, 1] {
                wr.internal_modify_uuid(
                    key_uuid(k),
                    &ModifyList::new_purge_and_set(Attribute::Description, Value::new_utf8s(&format!("v{new}"))),
                )
                .expect("modify entry");
            }
            wr.internal_modify_uuid(
                UUID_DOMAIN_INFO,
                &ModifyList::new_purge_and_set(Attribute::DomainDisplayName, Value::new_utf8s(&format!("c06dom{new}"))),
            )
            .expect("modify domain");
            let ml = if new % 2 == 1 {
                ModifyList::new_append(Attribute::AcpSearchAttr, Value::new_iutf8("description"))
            } else {
                ModifyList::new_remove(Attribute::AcpSearchAttr, PartialValue::new_iutf8("description"))
            };
            wr.internal_modify_uuid(u_acp(), &ml).expect("modify acp");
            install(&sched, false, &tr_w);
            let res = wr.commit();
            hk::set_pause(None);
            sched.finish(false);
            (cid, wtrim, res.is_ok())
        });
        (rh.join().expect("reader thread"), wh.join().expect("writer thread"))
    });
    let (wcid, wtrim, commit_ok) = wres;
    let broken = sched.m.lock().expect("sched").broken;
    let tr_r = tr_r.lock().expect("trace").clone();
    let tr_w = tr_w.lock().expect("trace").clone();
    match robs {
        Ok((eobs, trim, ruv, dn, vis)) => {
            let l_cid = if trim == wtrim { 1 } else if trim == old_trim { 0 } else { 2 };
            let l_ruv = if ruv.iter().any(|(c, _)| *c == wcid) { 1 } else { 0 };
            let l_dn = rel(dn, old);
            let l_acp = match vis {
                Some(v) if v == (new % 2 == 1) => 1,
                Some(_) => 0,
                None => 2,
            };
            RunOut { tr_r, tr_w, eobs, cobs: vec![(1, l_cid), (8, l_ruv), (9, l_dn), (12, l_acp)], broken, commit_ok }
        }
        Err(e) => {
            eprintln!("reader failed: {e}");
            RunOut { tr_r, tr_w, eobs: vec![], cobs: vec![], broken: true, commit_ok }
        }
    }
}

fn main() {
    let args = parse_args();
    let mut rng = Rng::new(args.seed);
    let mut sink = Sink::new(&args, "KV.C06.Model", 120);
    sink.rule = "one real reader (QueryServer::read + searches of the two changed entries, some repeated) and one real \
writer commit (changes entries A and B, the domain display name and a search access control profile) on a file-backed server, \
pool 2, two OS threads; the interleaving is ENFORCED at the verif-hooks pause points. Schedules: (1) the exhaustive grid \
R^i W^j R^rest W^rest over all reader positions i and writer positions j for warm={A}; (2) the same grid on a coarser step for the \
other warm sets; (3) random complete merges. non-trivial = reader and writer segments really interleave (neither runs to completion first)"
        .into();
    let dir = args.out.join("scratch");
    let _ = std::fs::remove_dir_all(&dir);
    std::fs::create_dir_all(&dir).expect("scratch");
    let path = dir.join("c06.db");
    let rt = tokio::runtime::Builder::new_current_thread().enable_all().build().expect("rt");
    let qs = open_server(&path, duration_from_epoch_now());
    rt.block_on(qs.initialise_helper(duration_from_epoch_now(), DOMAIN_TGT_LEVEL)).expect("init");

    // ---- population: A, B (changed by every writer), C (access probe), reader person + group + profile
    {
        let mut wr = rt.block_on(qs.write(duration_from_epoch_now())).expect("write");
        let mut es: Vec<Entry<EntryInit, EntryNew>> = vec![];
        for (k, n) in [(0u64, "c06a"), (1, "c06b")] {
            es.push(kanidmd_lib::entry_init!(
                (Attribute::Class, EntryClass::Object.to_value()),
                (Attribute::Class, EntryClass::Group.to_value()),
                (Attribute::Name, Value::new_iname(n)),
                (Attribute::Uuid, Value::Uuid(key_uuid(k))),
                (Attribute::Description, Value::new_utf8s("v0"))
            ));
        }
        es.push(kanidmd_lib::entry_init!(
            (Attribute::Class, EntryClass::Object.to_value()),
            (Attribute::Class, EntryClass::Group.to_value()),
            (Attribute::Name, Value::new_iname("c06c")),
            (Attribute::Uuid, Value::Uuid(uc())),
            (Attribute::Description, Value::new_utf8s("probe"))
        ));
        es.push(kanidmd_lib::entry_init!(
            (Attribute::Class, EntryClass::Object.to_value()),
            (Attribute::Class, EntryClass::Account.to_value()),
            (Attribute::Class, EntryClass::Person.to_value()),
            (Attribute::Name, Value::new_iname("c06reader")),
            (Attribute::Uuid, Value::Uuid(u_reader())),
            (Attribute::DisplayName, Value::new_utf8s("c06reader"))
        ));
        es.push(kanidmd_lib::entry_init!(
            (Attribute::Class, EntryClass::Object.to_value()),
            (Attribute::Class, EntryClass::Group.to_value()),
            (Attribute::Name, Value::new_iname("c06readers")),
            (Attribute::Uuid, Value::Uuid(u_readers())),
            (Attribute::Member, Value::Refer(u_reader()))
        ));
        let mut acp: Entry<EntryInit, EntryNew> = kanidmd_lib::entry_init!(
            (Attribute::Class, EntryClass::Object.to_value()),
            (Attribute::Class, EntryClass::AccessControlProfile.to_value()),
            (Attribute::Class, EntryClass::AccessControlSearch.to_value()),
            (Attribute::Class, EntryClass::AccessControlReceiverGroup.to_value()),
            (Attribute::Class, EntryClass::AccessControlTargetScope.to_value()),
            (Attribute::Name, Value::new_iname("c06acp")),
            (Attribute::Uuid, Value::Uuid(u_acp())),
            (Attribute::Description, Value::new_utf8s("c06 probe profile")),
            (Attribute::AcpReceiverGroup, Value::Refer(u_readers())),
            (Attribute::AcpTargetScope, Value::new_json_filter(ProtoFilter::Eq("name".to_string(), "c06c".to_string())))
        );
        for a in ["class", "name", "uuid"] {
            acp.add_ava(Attribute::AcpSearchAttr, Value::new_iutf8(a));
        }
        es.push(acp);
        wr.internal_create(es).expect("create population");
        wr.internal_modify_uuid(
            UUID_DOMAIN_INFO,
            &ModifyList::new_purge_and_set(Attribute::DomainDisplayName, Value::new_utf8s("c06dom0")),
        )
        .expect("domain display");
        wr.commit().expect("commit");
    }
    let ident = {
        let mut rd = rt.block_on(qs.read()).expect("read");
        let e = rd.internal_search_uuid(u_reader()).expect("reader entry");
        Identity::from_impersonate_entry_readwrite(e)
    };

    // ---- schedules
    let nq_max = 4usize;
    let mut plans: Vec<(Vec<u64>, Vec<u64>, Vec<bool>, &'static str)> = vec![];
    let grid = |i: usize, j: usize, nr: usize, nw: usize| -> Vec<bool> {
        let mut t = vec![];
        t.extend(std::iter::repeat(true).take(i));
        t.extend(std::iter::repeat(false).take(j));
        t.extend(std::iter::repeat(true).take(nr - i));
        t.extend(std::iter::repeat(false).take(nw - j));
        t
    };
    let nw = W_IDS.len();
    // (1) exhaustive grid, warm = {A}, queries A B A B
    {
        let q = vec![0u64, 1, 0, 1];
        let nr = R_IDS.len() + q.len();
        for i in 0..=nr {
            for j in 0..=nw {
                plans.push((vec![0], q.clone(), grid(i, j, nr, nw), "grid_warmA"));
            }
        }
    }
    // (2) coarser grids for the other warm sets / query orders
    let variants: Vec<(Vec<u64>, Vec<u64>)> = vec![
        (vec![], vec![0, 1, 0, 1]),
        (vec![1], vec![0, 1, 1, 0]),
        (vec![0, 1], vec![1, 0, 1, 0]),
        (vec![1], vec![1, 0]),
    ];
    let step = if args.thorough { 1 } else { 3 };
    for (vi, (warm, q)) in variants.iter().enumerate() {
        let nr = R_IDS.len() + q.len();
        let mut i = vi % step;
        while i <= nr {
            let mut j = (i + vi) % step;
            while j <= nw {
                plans.push((warm.clone(), q.clone(), grid(i, j, nr, nw), "grid_other"));
                j += step;
            }
            i += step;
        }
    }
    // (3) random complete merges
    let n_rand = if args.thorough { 1500 } else { 150 };
    for _ in 0..n_rand {
        let mut warm = vec![];
        for k in 0..2u64 {
            if rng.chance(1, 2) {
                warm.push(k);
            }
        }
        let nq = rng.range(1, nq_max as u64) as usize;
        let q: Vec<u64> = (0..nq).map(|_| rng.below(2)).collect();
        let nr = R_IDS.len() + nq;
        let mut t: Vec<bool> = std::iter::repeat(true).take(nr).chain(std::iter::repeat(false).take(nw)).collect();
        if rng.chance(1, 2) {
            rng.shuffle(&mut t);
        } else {
            // few context switches: blocks of random length
            let mut r = nr;
            let mut w = nw;
            t.clear();
            let mut who = rng.chance(1, 2);
            while r + w > 0 {
                let left = if who { r } else { w };
                if left > 0 {
                    let n = rng.range(1, left.min(6) as u64) as usize;
                    t.extend(std::iter::repeat(who).take(n));
                    if who {
                        r -= n
                    } else {
                        w -= n
                    }
                }
                who = !who;
            }
        }
        plans.push((warm, q, t, "random"));
    }

    // ---- run
    let mut ver: u64 = 0;
    let mut mixed = 0u64;
    for (warm, q, toks, kind) in &plans {
        let out = run_case(&qs, &ident, ver, warm, q, toks);
        assert!(out.commit_ok, "writer commit failed");
        ver += 1;
        let lead_r = toks.iter().take_while(|b| **b).count();
        let lead_w = toks.iter().take_while(|b| !**b).count();
        let nr = R_IDS.len() + q.len();
        let interleaved = lead_r < nr && lead_w < nw && !(lead_r == 0 && lead_w == 0);
        let labels: Vec<u64> = out.eobs.iter().copied().chain(out.cobs.iter().map(|p| p.1)).collect();
        let uniform = labels.windows(2).all(|w| w[0] == w[1]);
        if !uniform {
            mixed += 1;
        }
        let tr_r = if out.broken { vec![0] } else { out.tr_r.iter().map(|x| *x as u64).collect::<Vec<_>>() };
        let tr_w: Vec<u64> = out.tr_w.iter().map(|x| *x as u64).collect();
        let stxt: String = toks.iter().map(|b| if *b { 'R' } else { 'W' }).collect();
        sink.case(
            capp(
                "CSched",
                &[
                    clist(warm, |k| cn(*k)),
                    clist(q, |k| cn(*k)),
                    clist(toks, |b| cbool(*b)),
                    clist(&tr_r, |x| cn(*x)),
                    clist(&tr_w, |x| cn(*x)),
                    clist(&out.eobs, |x| cn(*x)),
                    clist(&out.cobs, |p| cpair(&cn(p.0), &cn(p.1))),
                ],
            ),
            format!(
                "{kind} warm={warm:?} queries={q:?} sched={stxt} -> entries={:?} cells(cid,ruv,dinfo,acp)={:?}{}{}",
                out.eobs,
                out.cobs.iter().map(|p| p.1).collect::<Vec<_>>(),
                if uniform { "" } else { " MIXED" },
                if out.broken { " BROKEN-SCHEDULE" } else { "" }
            ),
            interleaved,
        );
        sink.bump(kind);
        if !uniform {
            sink.bump("mixed_view_observed");
        }
    }
    eprintln!("c06: {} cases, {} with a mixed view", plans.len(), mixed);
    drop(ident);
    drop(qs);
    let _ = std::fs::remove_dir_all(&dir);
    sink.finish();
}
