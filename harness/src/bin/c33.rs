//! C33 — write privilege is bounded in time and by login type.
//!
//! One in-memory server. Case kinds:
//!  * `CSess` real flow: a real login (anonymous / password / generated password, privileged or not)
//!    through `IdmServerAuthTransaction::auth`, the queued session record written through
//!    `process_delayedaction`, then random operations at random times: present a token
//!    (`validate_client_auth_info_to_ident` -> AccessScope / SessionExpired), re-authenticate with a
//!    token's identity (`reauth_init` + password step), or call `issue_uat` directly with a Reauth
//!    intent (hook) — every issued token joins the pool and is used later.
//!  * `CSess` hook flow: the login itself is `AuthSession::issue_uat` (hook) with ANY AuthType
//!    (security key, passkey, attested passkey, OAuth2 trust, ... which need authenticators the
//!    harness does not have), signed exactly as `validate_creds` does; then uses / raw re-issues.
//!  * `CApi` API tokens (read-only / read-write, with and without expiry), `CLdap` LDAP binds,
//!    `CCert` client certificate (identity path and certificate -> UAT -> identity path).
//! All times are harness chosen and printed relative to a whole-second base after server start.
#![allow(clippy::too_many_arguments)]
use kanidm_proto::v1::{AuthCredential, AuthIssueSession, AuthMech, AuthStep};
use kanidmd_lib::entry::{Entry, EntryInit, EntryNew};
use kanidmd_lib::idm::authentication::{AuthState, ReauthRequest};
use kanidmd_lib::idm::delayed::{AuthSessionRecord, DelayedAction};
use kanidmd_lib::idm::event::{AuthEvent, LdapAuthEvent, UnixPasswordChangeEvent};
use kanidmd_lib::idm::ldap::LdapSession;
use kanidmd_lib::idm::server::{IdmServer, IdmServerDelayed, IdmServerTransaction};
use kanidmd_lib::idm::serviceaccount::GenerateApiTokenEvent;
use kanidmd_lib::prelude::*;
use kanidmd_lib::testkit::{setup_idm_test, TestConfiguration};
use kanidmd_lib::value::{AuthType, SessionScope};
use kanidmd_lib::verif_hooks::c27 as hook27;
use kanidmd_lib::verif_hooks::c28 as hook28;
use kanidmd_lib::verif_hooks::c33 as hook;
use kvh::*;
use std::collections::BTreeSet;

const G: u64 = 1_000_000_000;
const PW: &str = "c33-correct-horse-battery-staple";

const CERT: &str = r#"-----BEGIN CERTIFICATE-----
MIICeDCCAh6gAwIBAgIBAjAKBggqhkjOPQQDAjCBhDELMAkGA1UEBhMCQVUxDDAK
BgNVBAgMA1FMRDEPMA0GA1UECgwGS2FuaWRtMRwwGgYDVQQDDBNLYW5pZG0gR2Vu
ZXJhdGVkIENBMTgwNgYDVQQLDC9EZXZlbG9wbWVudCBhbmQgRXZhbHVhdGlvbiAt
IE5PVCBGT1IgUFJPRFVDVElPTjAeFw0yNTA3MjkwMzMxMDNaFw0yNTA4MDMwMzMx
MDNaMHoxCzAJBgNVBAYTAkFVMQwwCgYDVQQIDANRTEQxDzANBgNVBAoMBkthbmlk
bTESMBAGA1UEAwwJbG9jYWxob3N0MTgwNgYDVQQLDC9EZXZlbG9wbWVudCBhbmQg
RXZhbHVhdGlvbiAtIE5PVCBGT1IgUFJPRFVDVElPTjBZMBMGByqGSM49AgEGCCqG
SM49AwEHA0IABPFkpVzFH+feItm9JFFm/noge+BlZLpdGWOuSUvfoivAzCgPr7Kr
nGd8kUzIyJermePzu2SVQLaEt/7GY8Ha+2ujgYkwgYYwCQYDVR0TBAIwADAOBgNV
HQ8BAf8EBAMCBaAwEwYDVR0lBAwwCgYIKwYBBQUHAwEwHQYDVR0OBBYEFOjucEtX
mj/wQ7npVaMOyDtLU6dUMB8GA1UdIwQYMBaAFNo5o+5ea0sNMlW/75VgGJCv2AcJ
MBQGA1UdEQQNMAuCCWxvY2FsaG9zdDAKBggqhkjOPQQDAgNIADBFAiEA1TACf4eS
g07LRiKhlMgA+6xxztxiZCuV6LakRp7FZdECIFp0rFSiFJdkLEO9IyqYc+zPW770
ta41VMU3u9UQfHxF
-----END CERTIFICATE-----
"#;

fn d(ns: u64) -> Duration {
    Duration::from_nanos(ns)
}
fn cai() -> ClientAuthInfo {
    ClientAuthInfo::new(Source::Internal, None, None, None)
}

// ------------------------------------------------------------------ token decoding
#[derive(Clone, Copy, Debug, PartialEq)]
enum Purp {
    Ro,
    Rw(Option<u64>),
}
#[derive(Clone, Debug)]
struct TokF {
    sid: Uuid,
    issued: u64,
    expiry: Option<u64>,
    purpose: Purp,
}
fn b64url(s: &str) -> Vec<u8> {
    let mut out = vec![];
    let (mut acc, mut bits) = (0u32, 0u32);
    for c in s.bytes() {
        let v = match c {
            b'A'..=b'Z' => c - b'A',
            b'a'..=b'z' => c - b'a' + 26,
            b'0'..=b'9' => c - b'0' + 52,
            b'-' | b'+' => 62,
            b'_' | b'/' => 63,
            _ => continue,
        } as u32;
        acc = (acc << 6) | v;
        bits += 6;
        if bits >= 8 {
            bits -= 8;
            out.push((acc >> bits) as u8);
            acc &= (1 << bits) - 1;
        }
    }
    out
}
fn secs(v: &serde_json::Value) -> Option<u64> {
    v.as_i64().map(|s| if s < 0 { 0 } else { s as u64 * G })
}
/// the claims of a signed user auth token as the bearer reads them (JSON, whole seconds)
fn decode(compact: &str) -> TokF {
    let payload = compact.split('.').nth(1).expect("jws payload");
    let v: serde_json::Value = serde_json::from_slice(&b64url(payload)).expect("uat json");
    let sid = Uuid::parse_str(v["session_id"].as_str().expect("session_id")).expect("uuid");
    let issued = secs(&v["issued_at"]).expect("issued_at");
    let expiry = v.get("expiry").and_then(secs);
    let purpose = match &v["purpose"] {
        serde_json::Value::String(s) if s == "readonly" => Purp::Ro,
        serde_json::Value::Object(m) => {
            let rw = m.get("readwrite").expect("readwrite");
            Purp::Rw(rw.get("expiry").and_then(secs))
        }
        other => panic!("purpose {:?}", other),
    };
    TokF { sid, issued, expiry, purpose }
}

// ------------------------------------------------------------------ Coq printing
struct Pr {
    base: u64,
}
impl Pr {
    fn t(&self, t: u64) -> String {
        assert!(t >= self.base, "time before base");
        cn(t - self.base)
    }
    fn ot(&self, t: &Option<u64>) -> String {
        copt(t, |x| self.t(*x))
    }
    fn uat(&self, f: &TokF) -> String {
        let p = match f.purpose {
            Purp::Ro => "PReadOnly".to_string(),
            Purp::Rw(e) => format!("(PReadWrite {})", self.ot(&e)),
        };
        format!("(mkuat {} {} {})", self.t(f.issued), self.ot(&f.expiry), p)
    }
    fn uat_txt(&self, f: &TokF) -> String {
        let r = |x: u64| format!("{:.9}", (x - self.base) as f64 / G as f64);
        format!(
            "{{iat={} exp={} {}}}",
            r(f.issued),
            f.expiry.map(r).unwrap_or_else(|| "-".into()),
            match f.purpose {
                Purp::Ro => "ro".to_string(),
                Purp::Rw(None) => "rw(-)".to_string(),
                Purp::Rw(Some(e)) => format!("rw({})", r(e)),
            }
        )
    }
    fn rt(&self, t: u64) -> String {
        format!("{}.{:09}", (t - self.base) / G, (t - self.base) % G)
    }
}
fn at_coq(t: AuthType) -> &'static str {
    match t {
        AuthType::Anonymous => "TAnonymous",
        AuthType::Password => "TPassword",
        AuthType::GeneratedPassword => "TGeneratedPassword",
        AuthType::PasswordTotp => "TPasswordTotp",
        AuthType::PasswordBackupCode => "TPasswordBackupCode",
        AuthType::PasswordSecurityKey => "TPasswordSecurityKey",
        AuthType::Passkey => "TPasskey",
        AuthType::AttestedPasskey => "TAttestedPasskey",
        AuthType::OAuth2Trust => "TOAuth2Trust",
    }
}
const ALL_TYPES: [AuthType; 9] = [
    AuthType::Anonymous,
    AuthType::Password,
    AuthType::GeneratedPassword,
    AuthType::PasswordTotp,
    AuthType::PasswordBackupCode,
    AuthType::PasswordSecurityKey,
    AuthType::Passkey,
    AuthType::AttestedPasskey,
    AuthType::OAuth2Trust,
];
fn sc_coq(s: SessionScope) -> &'static str {
    match s {
        SessionScope::ReadOnly => "ScReadOnly",
        SessionScope::ReadWrite => "ScReadWrite",
        SessionScope::PrivilegeCapable => "ScPrivilegeCapable",
        SessionScope::Synchronise => "ScSynchronise",
    }
}
fn ierr_coq(e: &OperationError) -> &'static str {
    match e {
        OperationError::AU0004UserAuthTokenInvalid => "EAU0004",
        OperationError::AU0006CredentialMayNotReauthenticate => "EAU0006",
        OperationError::AU0007UserAuthTokenInvalid => "EAU0007",
        _ => "EOtherIssue",
    }
}
fn outcome_of(r: Result<Identity, OperationError>) -> (&'static str, &'static str) {
    match r {
        Ok(i) => match i.access_scope() {
            AccessScope::ReadOnly => ("(OScope AReadOnly)", "RO"),
            AccessScope::ReadWrite => ("(OScope AReadWrite)", "RW"),
            AccessScope::Synchronise => ("(OScope ASynchronise)", "SYNC"),
        },
        Err(OperationError::SessionExpired) => ("OExpired", "expired"),
        Err(_) => ("OErr", "err"),
    }
}

// ------------------------------------------------------------------ world
struct Tok {
    cai: ClientAuthInfo,
    f: TokF,
}
struct World<'i> {
    idms: &'i IdmServer,
    delayed: IdmServerDelayed,
    rt: tokio::runtime::Runtime,
    pr: Pr,
    n_acct: u64,
    used_auth_times: BTreeSet<u64>,
    pol: (u64, u64),
}

struct Acct {
    name: String,
    uuid: Uuid,
    cred_id: Uuid,
    anon: bool,
}

impl<'i> World<'i> {
    fn drain(&mut self) -> Vec<DelayedAction> {
        use std::future::Future;
        use std::task::{Context, Poll, Waker};
        let mut all = vec![];
        loop {
            let mut buf: Vec<DelayedAction> = Vec::with_capacity(8);
            let n = {
                let mut fut = std::pin::pin!(self.delayed.recv_many(&mut buf));
                let mut cx = Context::from_waker(Waker::noop());
                match fut.as_mut().poll(&mut cx) {
                    Poll::Ready(n) => n,
                    Poll::Pending => 0,
                }
            };
            if n == 0 {
                break;
            }
            all.append(&mut buf);
        }
        all
    }

    fn set_policy(&mut self, e: u64, p: u64) {
        if self.pol == (e, p) {
            return;
        }
        let idms = self.idms;
        let mut w = self.rt.block_on(idms.proxy_write(duration_from_epoch_now())).expect("proxy_write");
        let ml = ModifyList::new_list(vec![
            Modify::Purged(Attribute::AuthSessionExpiry),
            Modify::Present(Attribute::AuthSessionExpiry, Value::Uint32(e as u32)),
            Modify::Purged(Attribute::PrivilegeExpiry),
            Modify::Present(Attribute::PrivilegeExpiry, Value::Uint32(p as u32)),
        ]);
        w.qs_write.internal_modify_uuid(UUID_IDM_ALL_ACCOUNTS, &ml).expect("set policy");
        w.commit().expect("commit");
        self.pol = (e, p);
    }

    fn mk_person(&mut self, generated: bool) -> Acct {
        self.n_acct += 1;
        let n = self.n_acct;
        let cred = if generated { hook27::cred_new_generated_password(PW) } else { hook27::cred_new_password(PW) };
        let cred_id = hook28::cred_uuid(&cred);
        let uuid = Uuid::from_u128(0xc33c_33c3_0000_0000_0000_0000_0000_0000u128 + n as u128);
        let name = format!("c33person{}", n);
        let mut e: Entry<EntryInit, EntryNew> = kanidmd_lib::entry_init!(
            (Attribute::Class, EntryClass::Object.to_value()),
            (Attribute::Class, EntryClass::Account.to_value()),
            (Attribute::Class, EntryClass::Person.to_value()),
            (Attribute::Name, Value::new_iname(&name)),
            (Attribute::Uuid, Value::Uuid(uuid)),
            (Attribute::Description, Value::new_utf8s(&name)),
            (Attribute::DisplayName, Value::new_utf8s(&name))
        );
        e.add_ava(Attribute::PrimaryCredential, Value::new_credential("primary", cred));
        let idms = self.idms;
        let mut w = self.rt.block_on(idms.proxy_write(duration_from_epoch_now())).expect("proxy_write");
        w.qs_write.internal_create(vec![e]).expect("create person");
        w.commit().expect("commit");
        Acct { name, uuid, cred_id, anon: false }
    }

    fn anonymous(&self) -> Acct {
        Acct { name: "anonymous".to_string(), uuid: UUID_ANONYMOUS, cred_id: Uuid::from_u128(0xa), anon: true }
    }

    fn apply(&mut self, da: &DelayedAction, t: u64) {
        let idms = self.idms;
        let mut w = self.rt.block_on(idms.proxy_write(d(t))).expect("proxy_write");
        w.process_delayedaction(da, d(t)).expect("delayed action");
        w.commit().expect("commit");
    }

    fn fresh_auth_time(&mut self, t: u64) -> bool {
        self.used_auth_times.insert(t)
    }

    /// a real login; Err(text) when the flow did not succeed
    fn login_real(&mut self, who: &Acct, privileged: bool, t: u64) -> Result<(Tok, Option<AuthSessionRecord>), String> {
        let idms = self.idms;
        let mut a = self.rt.block_on(idms.auth()).expect("auth txn");
        let ev = AuthEvent::from_message(
            None,
            AuthStep::Init2 { username: who.name.clone(), issue: AuthIssueSession::Token, privileged }.into(),
        )
        .expect("ev");
        let sess = match self.rt.block_on(a.auth(&ev, d(t), cai())) {
            Ok(r) => match r.state {
                AuthState::Choose(_) => r.sessionid,
                s => return Err(format!("init: {:?}", s)),
            },
            Err(e) => return Err(format!("init: {:?}", e)),
        };
        let mech = if who.anon { AuthMech::Anonymous } else { AuthMech::Password };
        let ev = AuthEvent::from_message(Some(sess), AuthStep::Begin(mech).into()).expect("ev");
        match self.rt.block_on(a.auth(&ev, d(t), cai())) {
            Ok(r) if matches!(r.state, AuthState::Continue(_)) => {}
            other => return Err(format!("begin: {:?}", other.map(|r| r.state))),
        }
        let cred = if who.anon { AuthCredential::Anonymous } else { AuthCredential::Password(PW.to_string()) };
        let ev = AuthEvent::from_message(Some(sess), AuthStep::Cred(cred).into()).expect("ev");
        let tok = match self.rt.block_on(a.auth(&ev, d(t), cai())) {
            Ok(r) => match r.state {
                AuthState::Success(tok, _) => *tok,
                s => return Err(format!("cred: {:?}", s)),
            },
            Err(e) => return Err(format!("cred: {:?}", e)),
        };
        a.commit().expect("auth commit");
        let f = decode(&tok.to_string());
        let mut rec = None;
        for da in self.drain() {
            if let DelayedAction::AuthSessionRecord(r) = &da {
                assert!(r.target_uuid == who.uuid && r.session_id == f.sid && r.cred_id == who.cred_id, "foreign session record");
                assert!(rec.is_none(), "two session records");
                self.apply(&da, t);
                if let DelayedAction::AuthSessionRecord(r) = da {
                    rec = Some(r);
                }
            }
        }
        Ok((Tok { cai: ClientAuthInfo::new(Source::Internal, None, Some(tok), None), f }, rec))
    }

    fn use_tok(&mut self, tok: &Tok, t: u64) -> Result<Identity, OperationError> {
        let idms = self.idms;
        let mut r = self.rt.block_on(idms.proxy_read()).expect("proxy_read");
        r.validate_client_auth_info_to_ident(tok.cai.clone(), d(t))
    }

    /// the real re-authentication path; returns the Coq term of `rres`, a text, and the new token
    fn reauth_real(&mut self, tok: &Tok, rw: bool, t: u64) -> (String, String, Option<Tok>) {
        let ident = match self.use_tok(tok, t) {
            Ok(i) => i,
            Err(OperationError::SessionExpired) => return ("RIdent".into(), "ident-expired".into(), None),
            Err(e) => return ("ROther".into(), format!("ident-err {:?}", e), None),
        };
        let idms = self.idms;
        let mut a = self.rt.block_on(idms.auth()).expect("auth txn");
        let req = if rw { ReauthRequest::GrantReadWrite } else { ReauthRequest::VerifyCredentials };
        let r = self.rt.block_on(a.reauth_init(ident, AuthIssueSession::Token, d(t), cai(), req));
        let sid = match r {
            Err(OperationError::InvalidState) => return ("RNoSession".into(), "no-session".into(), None),
            Err(OperationError::SessionMayNotReauth) => return ("RMayNotReauth".into(), "may-not-reauth".into(), None),
            Err(e) => return ("ROther".into(), format!("reauth_init {:?}", e), None),
            Ok(res) => match res.state {
                AuthState::Continue(_) => res.sessionid,
                s => return ("ROther".into(), format!("reauth_init state {:?}", s), None),
            },
        };
        let ev = AuthEvent::from_message(Some(sid), AuthStep::Cred(AuthCredential::Password(PW.to_string())).into()).expect("ev");
        let out = match self.rt.block_on(a.auth(&ev, d(t), cai())) {
            Ok(r) => match r.state {
                AuthState::Success(newtok, _) => {
                    let f = decode(&newtok.to_string());
                    if f.sid != tok.f.sid {
                        ("ROther".to_string(), "reissued token names another session".to_string(), None)
                    } else {
                        let coq = format!("(ROk {})", self.pr.uat(&f));
                        let txt = format!("ok{}", self.pr.uat_txt(&f));
                        (coq, txt, Some(Tok { cai: ClientAuthInfo::new(Source::Internal, None, Some(*newtok), None), f }))
                    }
                }
                s => ("ROther".to_string(), format!("cred state {:?}", s), None),
            },
            Err(OperationError::AU0006CredentialMayNotReauthenticate) => ("(RIssueErr EAU0006)".to_string(), "AU0006".to_string(), None),
            Err(OperationError::AU0007UserAuthTokenInvalid) => ("(RIssueErr EAU0007)".to_string(), "AU0007".to_string(), None),
            Err(e) => ("ROther".to_string(), format!("cred {:?}", e), None),
        };
        a.commit().expect("auth commit");
        // a re-authentication must not queue a second session record
        for da in self.drain() {
            if matches!(da, DelayedAction::AuthSessionRecord(_)) {
                return ("ROther".into(), "reauth queued a session record".into(), None);
            }
        }
        out
    }

    fn issue_hook(
        &mut self,
        who: &Acct,
        ty: AuthType,
        privileged: bool,
        reauth: Option<(bool, Uuid, Option<u64>)>,
        t: u64,
    ) -> Result<(Tok, Option<DelayedAction>), OperationError> {
        let idms = self.idms;
        let mut r = self.rt.block_on(idms.proxy_read()).expect("proxy_read");
        let re = reauth.map(|(rw, sid, sx)| (rw, sid, sx.map(d)));
        let issued = hook::issue_uat(&mut r.qs_read, who.uuid, ty, who.cred_id, privileged, re, d(t))?;
        let f = decode(&issued.token.to_string());
        assert!(f.sid == issued.uat.session_id, "signed token differs from issued token");
        Ok((Tok { cai: ClientAuthInfo::new(Source::Internal, None, Some(issued.token), None), f }, issued.delayed))
    }
}

// ------------------------------------------------------------------ time choice
/// a time near something interesting for the tokens in `toks`, or a random later time
fn pick_time(rng: &mut Rng, base: u64, t0: u64, e: u64, p: u64, toks: &[Tok]) -> u64 {
    let lo = base + G;
    let mut anchors: Vec<u64> = vec![t0, t0 / G * G, t0 / G * G + e * G, t0 / G * G + 3600 * G, t0 / G * G + 300 * G];
    for k in toks {
        anchors.push(k.f.issued);
        anchors.push(k.f.issued + 300 * G);
        anchors.push(k.f.issued + p * G);
        if let Some(x) = k.f.expiry {
            anchors.push(x);
        }
        if let Purp::Rw(Some(x)) = k.f.purpose {
            anchors.push(x);
        }
    }
    let t = match rng.below(10) {
        0..=5 => {
            let a = *rng.pick(&anchors);
            let delta: i64 = match rng.below(9) {
                0 => 0,
                1 => 1,
                2 => -1,
                3 => G as i64,
                4 => -(G as i64),
                5 => rng.below(2 * G) as i64,
                6 => -(rng.below(2 * G) as i64),
                7 => (rng.below(120) * G + rng.below(G)) as i64,
                _ => -((rng.below(120) * G + rng.below(G)) as i64),
            };
            (a as i64 + delta).max(lo as i64) as u64
        }
        6..=8 => {
            let span = (e.max(3600).min(200_000) * G * 5) / 4;
            let t = t0 + rng.below(span);
            if rng.chance(1, 3) {
                t / G * G
            } else {
                t
            }
        }
        _ => {
            // shortly after the login
            t0 + rng.below(p.max(2) * G * 2)
        }
    };
    t.max(lo)
}

fn main() {
    let args = parse_args();
    let mut rng = Rng::new(args.seed);
    let mut sink = Sink::new(&args, "KV.C33.Model", 60);
    sink.rule = "sessions: policy (session expiry E, privilege expiry P) from a boundary set; real flows = anonymous / password / generated-password accounts logging in through the real auth state machine (privileged or not), hook flows = issue_uat with each of the 9 AuthTypes; then 2-9 operations (present a token, re-authenticate for read-write or proof of presence, raw issue_uat re-issue with consistent or foreign session expiry) at times drawn around token issue / expiry / privilege expiry / grace boundaries (+-1ns, +-1s) and at random later (sometimes earlier) times; plus API tokens, LDAP binds and client certificates used at random times. non-trivial = the case has a ReadWrite answer or a successful re-authentication (sessions) / a ReadWrite or expired answer (API) / any answer (LDAP, certificate)".into();

    let rt = tokio::runtime::Builder::new_current_thread().enable_all().build().expect("rt");
    let (idms, delayed, _audit) = rt.block_on(setup_idm_test(TestConfiguration::default()));
    let base = (duration_from_epoch_now().as_secs() + 7200) * G;
    let mut w = World { idms: &idms, delayed, rt, pr: Pr { base }, n_acct: 0, used_auth_times: BTreeSet::new(), pol: (0, 0) };

    let n_real = if args.thorough { 2600 } else { 420 };
    let n_hook = if args.thorough { 3600 } else { 560 };
    let es: [u64; 10] = [1, 2, 30, 600, 3599, 3600, 3601, 7200, 86400, 4_000_000];
    let ps: [u64; 6] = [1, 2, 30, 600, 3599, 3600];

    let mut slot: u64 = 0;
    let mut pol = (86400u64, 600u64);
    for ci in 0..(n_real + n_hook) {
        let real = ci < n_real;
        if ci % 12 == 0 {
            pol = (*rng.pick(&es), *rng.pick(&ps));
        }
        let (e, p) = pol;
        w.set_policy(e, p);
        slot += 1;
        // each case lives in its own part of the time line so that auth-session ids (derived from
        // the time) never collide between cases
        let t0 = {
            let s = base + 10_000 * G + slot * 37 * G;
            match rng.below(4) {
                0 => s,
                1 => s + rng.below(G),
                2 => s + G - 1,
                _ => s + rng.below(30 * G),
            }
        };
        // ---- who and how
        let (who, ty, privileged) = if real {
            match rng.below(8) {
                0 => (w.anonymous(), AuthType::Anonymous, rng.chance(1, 2)),
                1 | 2 => (w.mk_person(true), AuthType::GeneratedPassword, rng.chance(1, 2)),
                _ => (w.mk_person(false), AuthType::Password, rng.chance(1, 2)),
            }
        } else {
            let ty = ALL_TYPES[(ci % 9) as usize];
            let who = if rng.chance(1, 8) { w.anonymous() } else { w.mk_person(false) };
            (who, ty, rng.chance(1, 2))
        };
        if !w.fresh_auth_time(t0) {
            continue;
        }
        // ---- login
        let mut toks: Vec<Tok> = vec![];
        let mut txt = format!(
            "{} E={} P={} {} {:?} priv={} t0={}",
            if real { "sess-real" } else { "sess-hook" },
            e,
            p,
            if who.anon { "anon" } else { "person" },
            ty,
            privileged,
            w.pr.rt(t0)
        );
        let rec_coq = |w: &World, r: &AuthSessionRecord| {
            format!("(Some ({}, {}, {}))", sc_coq(r.scope), w.pr.ot(&r.expiry.map(|x| hook::odt_nanos(x) as u64)), at_coq(r.type_))
        };
        let lg: String = if real {
            match w.login_real(&who, privileged, t0) {
                Ok((tok, rec)) => {
                    let s = format!("(IOk {} {})", w.pr.uat(&tok.f), rec.as_ref().map(|r| rec_coq(&w, r)).unwrap_or_else(|| "None".into()));
                    txt.push_str(&format!(" login=ok{} rec={}", w.pr.uat_txt(&tok.f), rec.as_ref().map(|r| format!("{:?}/{:?}", r.scope, r.type_)).unwrap_or_else(|| "-".into())));
                    toks.push(tok);
                    s
                }
                Err(why) => {
                    txt.push_str(&format!(" login=FAILED({})", why));
                    "(IErr EOtherIssue)".to_string()
                }
            }
        } else {
            match w.issue_hook(&who, ty, privileged, None, t0) {
                Ok((tok, da)) => {
                    let mut rec = None;
                    if let Some(da) = da {
                        if !who.anon {
                            w.apply(&da, t0);
                        }
                        if let DelayedAction::AuthSessionRecord(r) = da {
                            assert!(r.target_uuid == who.uuid && r.session_id == tok.f.sid && r.cred_id == who.cred_id);
                            rec = Some(r);
                        }
                    }
                    let s = format!("(IOk {} {})", w.pr.uat(&tok.f), rec.as_ref().map(|r| rec_coq(&w, r)).unwrap_or_else(|| "None".into()));
                    txt.push_str(&format!(" login=ok{} rec={}", w.pr.uat_txt(&tok.f), rec.as_ref().map(|r| format!("{:?}/{:?}", r.scope, r.type_)).unwrap_or_else(|| "-".into())));
                    toks.push(tok);
                    s
                }
                Err(err) => {
                    txt.push_str(&format!(" login=err({:?})", err));
                    format!("(IErr {})", ierr_coq(&err))
                }
            }
        };
        // ---- operations
        let mut ops: Vec<String> = vec![];
        let mut saw_rw = false;
        let mut saw_reauth = false;
        if !toks.is_empty() {
            let sid = toks[0].f.sid;
            let sess_exp = toks[0].f.expiry;
            let n_ops = rng.range(2, 9);
            for _ in 0..n_ops {
                let i = if rng.chance(1, 2) { toks.len() - 1 } else { rng.below(toks.len() as u64) as usize };
                let t = pick_time(&mut rng, base, t0, e, p, &toks);
                let kind = rng.below(20);
                let want_reauth = real && (6..13).contains(&kind);
                let want_raw = if real { kind >= 18 } else { (6..12).contains(&kind) };
                if want_reauth {
                    if !w.fresh_auth_time(t) {
                        continue;
                    }
                    let rw = rng.chance(7, 10);
                    let tk = Tok { cai: toks[i].cai.clone(), f: toks[i].f.clone() };
                    let (coq, t_txt, newtok) = w.reauth_real(&tk, rw, t);
                    ops.push(format!("(HReauth {} {} {}, BRe {})", cn(i as u64), cbool(rw), w.pr.t(t), coq));
                    txt.push_str(&format!(" | reauth#{} rw={} @{} -> {}", i, rw, w.pr.rt(t), t_txt));
                    if let Some(k) = newtok {
                        saw_reauth = true;
                        toks.push(k);
                    }
                } else if want_raw {
                    let rty = if rng.chance(1, 2) { ty } else { *rng.pick(&ALL_TYPES) };
                    let rw = rng.chance(7, 10);
                    let sx = match rng.below(8) {
                        0 => None,
                        1 => sess_exp.map(|x| x + G),
                        2 => Some(t + rng.below(1000 * G)),
                        _ => sess_exp,
                    };
                    match w.issue_hook(&who, rty, false, Some((rw, sid, sx)), t) {
                        Ok((k, da)) => {
                            let stray = da.is_some();
                            let coq = if stray { "ROther".to_string() } else { format!("(ROk {})", w.pr.uat(&k.f)) };
                            ops.push(format!("(HRaw {} {} {} {}, BRe {})", at_coq(rty), cbool(rw), w.pr.ot(&sx), w.pr.t(t), coq));
                            txt.push_str(&format!(" | raw {:?} rw={} sx={} @{} -> ok{}", rty, rw, sx.map(|x| w.pr.rt(x)).unwrap_or_else(|| "-".into()), w.pr.rt(t), w.pr.uat_txt(&k.f)));
                            toks.push(k);
                        }
                        Err(err) => {
                            ops.push(format!("(HRaw {} {} {} {}, BRe (RIssueErr {}))", at_coq(rty), cbool(rw), w.pr.ot(&sx), w.pr.t(t), ierr_coq(&err)));
                            txt.push_str(&format!(" | raw {:?} rw={} @{} -> {:?}", rty, rw, w.pr.rt(t), err));
                        }
                    }
                } else {
                    let (coq, o_txt) = outcome_of(w.use_tok(&toks[i], t));
                    if o_txt == "RW" {
                        saw_rw = true;
                    }
                    ops.push(format!("(HUse {} {}, BUse {})", cn(i as u64), w.pr.t(t), coq));
                    txt.push_str(&format!(" | use#{} @{} -> {}", i, w.pr.rt(t), o_txt));
                }
            }
        }
        let coq = format!(
            "(CSess {} {} {} {} {} {} {} {})",
            cn(e),
            cn(p),
            cbool(who.anon),
            at_coq(ty),
            cbool(privileged),
            w.pr.t(t0),
            lg,
            clist_s(&ops)
        );
        sink.bump(if real { "sess_real" } else { "sess_hook" });
        if saw_rw {
            sink.bump("sess_with_readwrite_answer");
        }
        if saw_reauth {
            sink.bump("sess_with_successful_reauth");
        }
        sink.bump(&format!("login_{:?}", ty));
        sink.case(coq, txt, saw_rw || saw_reauth);
    }

    // ------------------------------------------------------------------ API tokens
    w.set_policy(86400, 600);
    let n_api = if args.thorough { 200 } else { 40 };
    for k in 0..n_api {
        slot += 1;
        let t0 = base + 10_000 * G + slot * 37 * G + rng.below(G);
        let uuid = Uuid::from_u128(0xc33c_33c3_5a00_0000_0000_0000_0000_0000u128 + k as u128);
        let name = format!("c33svc{}", k);
        let e: Entry<EntryInit, EntryNew> = kanidmd_lib::entry_init!(
            (Attribute::Class, EntryClass::Object.to_value()),
            (Attribute::Class, EntryClass::Account.to_value()),
            (Attribute::Class, EntryClass::ServiceAccount.to_value()),
            (Attribute::Name, Value::new_iname(&name)),
            (Attribute::Uuid, Value::Uuid(uuid)),
            (Attribute::Description, Value::new_utf8s(&name)),
            (Attribute::DisplayName, Value::new_utf8s(&name))
        );
        let rw = rng.chance(1, 2);
        let exp = if rng.chance(2, 3) { Some(t0 + rng.range(1, 5000) * G + if rng.chance(1, 2) { 0 } else { rng.below(G) }) } else { None };
        let compact = rng.chance(1, 2);
        let cai_tok = {
            let mut wr = w.rt.block_on(idms.proxy_write(d(t0))).expect("proxy_write");
            wr.qs_write.internal_create(vec![e]).expect("create svc");
            let anon = wr.qs_write.internal_search_uuid(UUID_ANONYMOUS).expect("anonymous");
            let mut ident = Identity::from_impersonate_entry_readwrite(anon);
            ident.origin = IdentType::Internal(InternalRole::System);
            let ev = GenerateApiTokenEvent { ident, target: uuid, label: "c33".to_string(), expiry: exp.map(|x| hook::odt(d(x))), read_write: rw, compact };
            let jws = wr.service_account_generate_api_token(&ev, d(t0)).expect("api token");
            wr.commit().expect("commit");
            ClientAuthInfo::new(Source::Internal, None, Some(jws), None)
        };
        let mut uses = vec![];
        let mut txt = format!("api rw={} compact={} exp={} t0={}", rw, compact, exp.map(|x| w.pr.rt(x)).unwrap_or_else(|| "-".into()), w.pr.rt(t0));
        let mut nontrivial = false;
        for _ in 0..rng.range(3, 8) {
            let t = match (exp, rng.below(6)) {
                (Some(x), 0) => x,
                (Some(x), 1) => x - 1,
                (Some(x), 2) => x + 1,
                (Some(x), 3) => x.saturating_sub(rng.below(3 * G)).max(base + G),
                _ => t0 + rng.below(6000 * G),
            };
            let mut r = w.rt.block_on(idms.proxy_read()).expect("proxy_read");
            let (coq, o) = outcome_of(r.validate_client_auth_info_to_ident(cai_tok.clone(), d(t)));
            nontrivial |= o == "RW" || o == "expired";
            uses.push(format!("({}, {})", w.pr.t(t), coq));
            txt.push_str(&format!(" | @{} -> {}", w.pr.rt(t), o));
        }
        sink.bump("api_token");
        // the compact form looks its expiry up in the stored session; the JSON form carries whole seconds
        let exp_seen = if compact { exp } else { exp.map(|x| x / G * G) };
        sink.case(format!("(CApi {} {} {})", cbool(rw), w.pr.ot(&exp_seen), clist_s(&uses)), txt, nontrivial);
    }

    // ------------------------------------------------------------------ LDAP binds and client certificates
    let n_misc = if args.thorough { 60 } else { 12 };
    let cert_owner = w.mk_person(false);
    {
        let e: Entry<EntryInit, EntryNew> = kanidmd_lib::entry_init!(
            (Attribute::Class, EntryClass::Object.to_value()),
            (Attribute::Class, EntryClass::ClientCertificate.to_value()),
            (Attribute::Uuid, Value::Uuid(Uuid::from_u128(0xc33c_33c3_ce00_0000_0000_0000_0000_0001u128))),
            (Attribute::Refers, Value::Refer(cert_owner.uuid)),
            (Attribute::Certificate, Value::new_certificate_s(CERT).expect("cert"))
        );
        let mut wr = w.rt.block_on(idms.proxy_write(duration_from_epoch_now())).expect("proxy_write");
        wr.qs_write.internal_create(vec![e]).expect("create cert");
        wr.commit().expect("commit");
    }
    let cci = hook::client_cert_info_from_pem(CERT).expect("client cert info");
    for k in 0..n_misc {
        // LDAP: a REAL unix-password bind of a posix person and a REAL anonymous bind (auth_ldap),
        // and the session value an application-password bind produces
        let who = if k % 3 == 2 { w.anonymous() } else { w.mk_person(false) };
        let tb = base + G + rng.below(5_000_000 * G);
        let sess = if k % 3 == 1 {
            LdapSession::ApplicationPasswordBind(Uuid::from_u128(0xabc), who.uuid)
        } else {
            if !who.anon {
                let mut wr = w.rt.block_on(idms.proxy_write(duration_from_epoch_now())).expect("proxy_write");
                let ml = ModifyList::new_list(vec![
                    Modify::Present(Attribute::Class, EntryClass::PosixAccount.to_value()),
                    Modify::Present(Attribute::GidNumber, Value::new_uint32(70_000 + k as u32)),
                ]);
                wr.qs_write.internal_modify_uuid(who.uuid, &ml).expect("posix");
                let anon = wr.qs_write.internal_search_uuid(UUID_ANONYMOUS).expect("anonymous");
                let mut ident = Identity::from_impersonate_entry_readwrite(anon);
                ident.origin = IdentType::Internal(InternalRole::System);
                let ev = UnixPasswordChangeEvent::from_parts(ident, who.uuid, PW.to_string()).expect("event");
                wr.set_unix_account_password(&ev).expect("unix password");
                wr.commit().expect("commit");
            }
            let lae = LdapAuthEvent::from_parts(who.uuid, if who.anon { String::new() } else { PW.to_string() }).expect("lae");
            let mut a = w.rt.block_on(idms.auth()).expect("auth txn");
            let bound = w.rt.block_on(a.auth_ldap(&lae, d(tb))).expect("auth_ldap").expect("ldap bind refused");
            a.commit().expect("auth commit");
            assert!(bound.effective_session == LdapSession::UnixBind(who.uuid), "unexpected ldap session");
            bound.effective_session
        };
        let mut uses = vec![];
        let mut txt = format!("ldap {}", if who.anon { "anonymous" } else if k % 3 == 1 { "application-password" } else { "unix-password" });
        for _ in 0..6 {
            let t = base + G + rng.below(5_000_000 * G);
            let mut r = w.rt.block_on(idms.proxy_read()).expect("proxy_read");
            let (coq, o) = outcome_of(r.validate_ldap_session(&sess, Source::Internal, d(t)));
            uses.push(format!("({}, {})", w.pr.t(t), coq));
            txt.push_str(&format!(" | @{} -> {}", w.pr.rt(t), o));
        }
        sink.bump("ldap_bind");
        sink.case(format!("(CLdap {})", clist_s(&uses)), txt, true);

        let mut uses = vec![];
        let mut txt = "cert".to_string();
        for _ in 0..6 {
            let t = base + G + rng.below(5_000_000 * G);
            let cert_cai = ClientAuthInfo::new(Source::Internal, Some(cci.clone()), None, None);
            let mut r = w.rt.block_on(idms.proxy_read()).expect("proxy_read");
            let (c1, o1) = outcome_of(r.validate_client_auth_info_to_ident(cert_cai.clone(), d(t)));
            let (c2, o2) = match r.validate_client_auth_info_to_uat(&cert_cai, d(t)) {
                Ok(uat) => outcome_of(r.validate_ldap_session(&LdapSession::UserAuthToken(uat), Source::Internal, d(t))),
                Err(_) => ("OErr", "err"),
            };
            uses.push(format!("({}, ({}, {}))", w.pr.t(t), c1, c2));
            txt.push_str(&format!(" | @{} -> {}/{}", w.pr.rt(t), o1, o2));
        }
        sink.bump("client_certificate");
        sink.case(format!("(CCert {})", clist_s(&uses)), txt, true);
    }
    sink.finish();
}
