//! C47 — stopping a supervisor stops everything under it (libs/actors/src/lib.rs).
//!
//! Every case runs the REAL `kanidm_actors::Runtime::exec` on a fresh tokio runtime (single
//! threaded or 2..4 workers), builds a random supervisor tree (depth <= 3 below the primary) of
//! instrumented actors (block forever, finish early, run long; random yields / sleeps in setup,
//! state, run and cleanup), stops subordinate supervisors at random points (inline or from
//! concurrent tasks), finally terminates the runtime, and records the totally ordered event log.
//! The log is replayed inside Coq by the acceptor of the labelled transition system
//! `KV.C47.Model` (agree) and scanned by the model-independent property predicate (pcheck).
//!
//! Log discipline (what makes the log a linearisation): "call" events are pushed BEFORE the call,
//! "return"/callback-end events AFTER; spawns are pushed while holding the log lock around the
//! (synchronous) spawn. The generator never spawns under a supervisor once a stop was requested on
//! it or on an ancestor (that race is outside the property: such a stop may hang).
use kanidm_actors::{
    Actor, ActorState, Runtime, RuntimeSetup, Signal, SignalHandler, SoftwareSignalSource, Supervisor,
};
use kvh::*;
use std::collections::{BTreeMap, BTreeSet};
use std::future::Future;
use std::sync::{Arc, Mutex};
use std::time::Duration;
use tokio::sync::mpsc;
use tokio::task::JoinHandle;

#[derive(Clone, Copy, Debug, PartialEq)]
enum Ev {
    SpawnS(u64, u64),
    SpawnA(u64, u64),
    StopCall(u64),
    StopRet(u64),
    SetupEnd(u64),
    Ready(u64),
    RunEnd(u64),
    StateStop(u64),
    CleanBegin(u64),
    CleanEnd(u64),
    Fin(u64),
}
impl Ev {
    fn coq(&self) -> String {
        match self {
            Ev::SpawnS(p, s) => format!("LSpawnS {} {}", cn(*p), cn(*s)),
            Ev::SpawnA(p, a) => format!("LSpawnA {} {}", cn(*p), cn(*a)),
            Ev::StopCall(s) => format!("LStopCall {}", cn(*s)),
            Ev::StopRet(s) => format!("LStopRet {}", cn(*s)),
            Ev::SetupEnd(a) => format!("LSetupEnd {}", cn(*a)),
            Ev::Ready(a) => format!("LReady {}", cn(*a)),
            Ev::RunEnd(a) => format!("LRunEnd {}", cn(*a)),
            Ev::StateStop(a) => format!("LStateStop {}", cn(*a)),
            Ev::CleanBegin(a) => format!("LCleanBegin {}", cn(*a)),
            Ev::CleanEnd(a) => format!("LCleanEnd {}", cn(*a)),
            Ev::Fin(a) => format!("LFin {}", cn(*a)),
        }
    }
    fn txt(&self) -> String {
        match self {
            Ev::SpawnS(p, s) => format!("sub({}>{})", p, s),
            Ev::SpawnA(p, a) => format!("act({}>{})", p, a),
            Ev::StopCall(s) => format!("stop!({})", s),
            Ev::StopRet(s) => format!("stopped({})", s),
            Ev::SetupEnd(a) => format!("setup.{}", a),
            Ev::Ready(a) => format!("run[{}", a),
            Ev::RunEnd(a) => format!("run]{}", a),
            Ev::StateStop(a) => format!("statestop.{}", a),
            Ev::CleanBegin(a) => format!("clean[{}", a),
            Ev::CleanEnd(a) => format!("clean]{}", a),
            Ev::Fin(a) => format!("fin.{}", a),
        }
    }
}

#[derive(Default)]
struct Inner {
    log: Vec<Ev>,
    handles: Vec<(u64, Option<JoinHandle<()>>)>,
    fin_logged: BTreeSet<u64>,
    stop_tasks: Vec<JoinHandle<()>>,
}
#[derive(Default)]
struct Shared {
    inner: Mutex<Inner>,
}
impl Shared {
    fn push(&self, e: Ev) {
        self.inner.lock().expect("log").log.push(e);
    }
    /// log `fin` for every actor task that is finished right now, then `last`
    fn snapshot_then(&self, last: Ev) {
        let mut g = self.inner.lock().expect("log");
        let Inner { log, handles, fin_logged, .. } = &mut *g;
        for (a, h) in handles.iter() {
            if let Some(h) = h {
                if h.is_finished() && fin_logged.insert(*a) {
                    log.push(Ev::Fin(*a));
                }
            }
        }
        log.push(last);
    }
}

#[derive(Clone, Copy, Debug)]
enum Work {
    Yields(u32),
    SleepUs(u64),
}
async fn work(w: Work) {
    match w {
        Work::Yields(n) => {
            for _ in 0..n {
                tokio::task::yield_now().await;
            }
        }
        Work::SleepUs(u) => tokio::time::sleep(Duration::from_micros(u)).await,
    }
}
fn gen_work(rng: &mut Rng, heavy: bool) -> Work {
    match rng.below(if heavy { 6 } else { 4 }) {
        0 => Work::Yields(0),
        1 | 2 => Work::Yields(rng.range(1, 6) as u32),
        3 => Work::SleepUs(rng.range(1, 300)),
        _ => Work::SleepUs(rng.range(300, 3000)),
    }
}

#[derive(Clone, Debug)]
struct Script {
    setup: Work,
    msgs: Vec<(Work, Work)>, // (inside state() before Ready, inside run())
    last_state: Work,
    block: bool, // after the messages: block forever (true) or return ActorState::Stop (false)
    cleanup: Work,
}
fn gen_script(rng: &mut Rng) -> (Script, &'static str) {
    let kind = rng.below(3);
    let (n, heavy, block, name) = match kind {
        0 => (rng.below(3), false, true, "blocker"),
        1 => (rng.below(3), false, false, "early"),
        _ => (rng.range(3, 8), true, rng.chance(1, 2), "long"),
    };
    let msgs = (0..n).map(|_| (gen_work(rng, false), gen_work(rng, heavy))).collect();
    (
        Script { setup: gen_work(rng, heavy), msgs, last_state: gen_work(rng, false), block, cleanup: gen_work(rng, true) },
        name,
    )
}

struct TestActor {
    id: u64,
    sh: Arc<Shared>,
    sc: Script,
    idx: usize,
}
impl Actor for TestActor {
    type Message = usize;
    fn setup(&mut self) -> impl Future<Output = ()> + Send {
        async {
            work(self.sc.setup).await;
            self.sh.push(Ev::SetupEnd(self.id));
        }
    }
    fn state(&mut self) -> impl Future<Output = ActorState<usize>> + Send {
        async {
            if self.idx < self.sc.msgs.len() {
                work(self.sc.msgs[self.idx].0).await;
                // cancel-safe: the index only advances in the poll that returns Ready
                self.idx += 1;
                ActorState::Ready(self.idx - 1)
            } else {
                work(self.sc.last_state).await;
                if self.sc.block {
                    std::future::pending::<()>().await;
                }
                self.sh.push(Ev::StateStop(self.id));
                ActorState::Stop
            }
        }
    }
    fn run(&mut self, m: usize) -> impl Future<Output = ()> + Send {
        async move {
            self.sh.push(Ev::Ready(self.id));
            work(self.sc.msgs[m].1).await;
            self.sh.push(Ev::RunEnd(self.id));
        }
    }
    fn cleanup(&mut self) -> impl Future<Output = ()> + Send {
        async {
            self.sh.push(Ev::CleanBegin(self.id));
            work(self.sc.cleanup).await;
            self.sh.push(Ev::CleanEnd(self.id));
        }
    }
}

#[derive(Clone, Debug)]
enum Op {
    SpawnS(u64, u64),
    SpawnA(u64, u64, Script),
    Stop(u64, bool), // inline?
    Pause(Work),
}

struct Plan {
    setup_ops: Vec<Op>,
    driver_ops: Vec<Op>,
    workers: usize, // 0 = current_thread
    interrupt: bool,
    noise: u64,
    depth: u64,
    kinds: Vec<&'static str>,
}

fn gen_plan(rng: &mut Rng, big: bool) -> Plan {
    // (id, depth, parent, stop requested on it or an ancestor, stop called on itself)
    let mut sups: Vec<(u64, u64, u64, bool, bool)> = vec![(0, 0, 0, false, false)];
    let mut next = 1u64;
    let n_ops = rng.range(4, if big { 30 } else { 16 }) as usize;
    let split = rng.range(1, n_ops as u64) as usize;
    let mut ops = vec![];
    let mut kinds = vec![];
    let mut depth = 0;
    for i in 0..n_ops {
        let in_setup = i < split;
        let open: Vec<usize> = (0..sups.len()).filter(|&k| !sups[k].3 && (in_setup || sups[k].0 != 0)).collect();
        let r = rng.below(10);
        if (r < 3 || i == 0) && !open.is_empty() {
            let cand: Vec<usize> = open.iter().copied().filter(|&k| sups[k].1 < 3).collect();
            if !cand.is_empty() {
                let k = *rng.pick(&cand);
                let (p, d) = (sups[k].0, sups[k].1);
                sups.push((next, d + 1, p, false, false));
                depth = depth.max(d + 1);
                ops.push(Op::SpawnS(p, next));
                next += 1;
                continue;
            }
        }
        if r < 7 && !open.is_empty() {
            let k = *rng.pick(&open);
            let (sc, name) = gen_script(rng);
            kinds.push(name);
            ops.push(Op::SpawnA(sups[k].0, next, sc));
            next += 1;
            continue;
        }
        if r < 9 {
            let cand: Vec<usize> = (0..sups.len()).filter(|&k| sups[k].0 != 0 && !sups[k].4).collect();
            if !cand.is_empty() {
                let k = *rng.pick(&cand);
                let s = sups[k].0;
                sups[k].4 = true;
                // mark s and all its descendants as stopping
                let mut marked = BTreeSet::new();
                marked.insert(s);
                loop {
                    let mut ch = false;
                    for e in sups.iter_mut() {
                        if marked.contains(&e.2) && e.0 != 0 && marked.insert(e.0) {
                            ch = true;
                        }
                        if marked.contains(&e.0) {
                            e.3 = true;
                        }
                    }
                    if !ch {
                        break;
                    }
                }
                ops.push(Op::Stop(s, rng.chance(1, 2)));
                continue;
            }
        }
        ops.push(Op::Pause(gen_work(rng, true)));
    }
    let driver_ops = ops.split_off(split.min(ops.len()));
    Plan {
        setup_ops: ops,
        driver_ops,
        workers: if rng.chance(1, 2) { 0 } else { rng.range(2, 4) as usize },
        interrupt: rng.chance(1, 4),
        noise: rng.below(3),
        depth,
        kinds,
    }
}

async fn exec_op(op: Op, primary: Option<&mut Supervisor>, map: &mut BTreeMap<u64, Supervisor>, sh: &Arc<Shared>) {
    match op {
        Op::SpawnS(p, s) => {
            let parent = if p == 0 { primary } else { map.get_mut(&p) };
            if let Some(parent) = parent {
                sh.push(Ev::SpawnS(p, s));
                let sub = parent.subordinate().await;
                map.insert(s, sub);
            }
        }
        Op::SpawnA(p, a, sc) => {
            let parent = if p == 0 { primary } else { map.get_mut(&p) };
            if let Some(parent) = parent {
                let actor = TestActor { id: a, sh: sh.clone(), sc, idx: 0 };
                let mut g = sh.inner.lock().expect("log");
                g.log.push(Ev::SpawnA(p, a));
                let h = parent.spawn(actor);
                g.handles.push((a, Some(h)));
            }
        }
        Op::Stop(s, inline) => {
            if let Some(sup) = map.remove(&s) {
                sh.push(Ev::StopCall(s));
                let sh2 = sh.clone();
                let fut = async move {
                    sup.stop().await;
                    sh2.snapshot_then(Ev::StopRet(s));
                };
                if inline {
                    fut.await;
                } else {
                    let h = tokio::spawn(fut);
                    sh.inner.lock().expect("log").stop_tasks.push(h);
                }
            }
        }
        Op::Pause(w) => work(w).await,
    }
}

struct Handler {}
impl SignalHandler for Handler {}

struct Ctx {
    sh: Arc<Shared>,
    setup_ops: Vec<Op>,
    driver_ops: Vec<Op>,
    signal_tx: mpsc::Sender<Signal>,
    interrupt: bool,
    noise: u64,
}
impl RuntimeSetup for Ctx {
    type Error = ();
    fn setup(self, supervisor: &mut Supervisor) -> impl Future<Output = Result<(), ()>> + Send {
        async move {
            let Ctx { sh, setup_ops, driver_ops, signal_tx, interrupt, noise } = self;
            let mut map = BTreeMap::new();
            for op in setup_ops {
                exec_op(op, Some(&mut *supervisor), &mut map, &sh).await;
            }
            // the rest of the plan runs concurrently with Runtime::exec's select loop
            tokio::spawn(async move {
                for op in driver_ops {
                    exec_op(op, None, &mut map, &sh).await;
                }
                // signals that must not stop anything
                for k in 0..noise {
                    let _ = signal_tx.send(if k == 0 { Signal::Hangup } else { Signal::UserDefined1 }).await;
                }
                sh.push(Ev::StopCall(0));
                let _ = signal_tx.send(if interrupt { Signal::Interrupt } else { Signal::Terminate }).await;
                // the remaining handles stay alive until the runtime has stopped everything
                std::future::pending::<()>().await;
                drop(map);
            });
            Ok(())
        }
    }
}

struct Outcome {
    log: Vec<Ev>,
    exec_returned: bool,
}

fn run_case(plan: &Plan) -> Outcome {
    let rt = if plan.workers == 0 {
        tokio::runtime::Builder::new_current_thread().enable_all().build().expect("rt")
    } else {
        tokio::runtime::Builder::new_multi_thread().worker_threads(plan.workers).enable_all().build().expect("rt")
    };
    let sh = Arc::new(Shared::default());
    let exec_returned = rt.block_on(async {
        let (source, signal_tx) = SoftwareSignalSource::new();
        let ctx = Ctx {
            sh: sh.clone(),
            setup_ops: plan.setup_ops.clone(),
            driver_ops: plan.driver_ops.clone(),
            signal_tx,
            interrupt: plan.interrupt,
            noise: plan.noise,
        };
        let sh2 = sh.clone();
        let exec = tokio::spawn(async move {
            let r = Runtime::new().exec(ctx, Handler {}, source).await;
            sh2.snapshot_then(Ev::StopRet(0));
            r
        });
        let ok = matches!(tokio::time::timeout(Duration::from_secs(20), exec).await, Ok(Ok(Ok(()))));
        // concurrent stop() calls: give them time to return
        let tasks: Vec<JoinHandle<()>> = std::mem::take(&mut sh.inner.lock().expect("log").stop_tasks);
        for t in tasks {
            let _ = tokio::time::timeout(Duration::from_secs(if ok { 10 } else { 1 }), t).await;
        }
        // every actor task: observed finished?
        let n = sh.inner.lock().expect("log").handles.len();
        for i in 0..n {
            let (a, h) = {
                let mut g = sh.inner.lock().expect("log");
                (g.handles[i].0, g.handles[i].1.take())
            };
            if let Some(h) = h {
                let fin = matches!(tokio::time::timeout(Duration::from_secs(if ok { 10 } else { 1 }), h).await, Ok(Ok(())));
                let mut g = sh.inner.lock().expect("log");
                if fin && g.fin_logged.insert(a) {
                    g.log.push(Ev::Fin(a));
                }
            }
        }
        ok
    });
    rt.shutdown_background();
    let log = sh.inner.lock().expect("log").log.clone();
    Outcome { log, exec_returned }
}

/// a stop that had something to stop: an actor under the stopped supervisor whose cleanup ended
/// after the stop was called
fn stops_that_mattered(log: &[Ev]) -> (u64, u64) {
    let mut par: BTreeMap<u64, u64> = BTreeMap::new();
    let mut actors = BTreeSet::new();
    for e in log {
        match e {
            Ev::SpawnS(p, s) => {
                par.insert(*s, *p);
            }
            Ev::SpawnA(p, a) => {
                par.insert(*a, *p);
                actors.insert(*a);
            }
            _ => {}
        }
    }
    let under = |s: u64, mut x: u64| -> bool {
        while let Some(p) = par.get(&x) {
            if *p == s {
                return true;
            }
            x = *p;
        }
        false
    };
    let mut mattered = 0;
    let mut sub_mattered = 0;
    for (k, e) in log.iter().enumerate() {
        if let Ev::StopCall(s) = e {
            let hit = log[k..].iter().any(|f| matches!(f, Ev::CleanBegin(a) if under(*s, *a)));
            if hit {
                mattered += 1;
                if *s != 0 {
                    sub_mattered += 1;
                }
            }
        }
    }
    (mattered, sub_mattered)
}

fn main() {
    let args = parse_args();
    let mut rng = Rng::new(args.seed);
    let mut sink = Sink::new(&args, "KV.C47.Model", 60);
    sink.rule = "each case = one real Runtime::exec on a fresh tokio runtime (current_thread or 2..4 workers): random supervisor tree (depth<=3 below the primary) of blocker / early-finishing / long-running actors with random yields and sleeps, subordinate supervisors stopped at random points (inline or from concurrent tasks), then Terminate/Interrupt; the case is the recorded event log. non-trivial = at least one stop (of a subordinate or of the runtime) was called while an actor under it had not yet begun its cleanup".into();
    let mut n = if args.thorough { 4000 } else { 500 };
    // `--cases N` (manual probing only)
    if let Some(k) = args.extra.iter().position(|a| a == "--cases") {
        if let Some(v) = args.extra.get(k + 1).and_then(|v| v.parse().ok()) {
            n = v;
        }
    }
    for i in 0..n {
        let plan = gen_plan(&mut rng, i % 5 == 4);
        let out = run_case(&plan);
        let (mattered, sub_mattered) = stops_that_mattered(&out.log);
        let mt = plan.workers > 0;
        sink.bump(if mt { "multi_thread" } else { "current_thread" });
        sink.bump(&format!("depth_{}", plan.depth));
        sink.add_stat("events", out.log.len() as u64);
        sink.add_stat("stops_with_live_actors", mattered);
        sink.add_stat("subordinate_stops_with_live_actors", sub_mattered);
        for k in &plan.kinds {
            sink.add_stat(&format!("actor_{}", k), 1);
        }
        if !out.exec_returned {
            sink.bump("exec_did_not_return");
        }
        let coq = capp("Case", &[cbool(mt), clist(&out.log, |e| e.coq())]);
        let txt = format!(
            "{} workers={} depth={} {}",
            if mt { "mt" } else { "st" },
            plan.workers,
            plan.depth,
            out.log.iter().map(|e| e.txt()).collect::<Vec<_>>().join(" ")
        );
        sink.case(coq, txt, mattered > 0);
    }
    sink.finish();
}
