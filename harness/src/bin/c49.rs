//! C49 — accounts outside their validity window cannot authenticate anywhere.
//!
//! One REAL in-memory IdmServer with the SHIPPED access profiles holds a few persons (primary
//! password, POSIX password, RADIUS secret, application password), service accounts (API
//! tokens), the built-in anonymous account, an OAuth2 client, an LDAP application and the
//! requester identities of the RADIUS path (the account itself, service accounts in
//! idm_radius_servers with and without extra read rights, a plain person, a RADIUS admin).
//!
//! The run is a sequence of EPOCHS.  An epoch takes one subject account, opens its window, logs
//! in for real (user auth token), runs an OAuth2 authorisation + code exchange (access / refresh
//! token), issues an API token (service accounts), then sets a random validity window (open,
//! one-sided, two-sided, empty, single instant; whole seconds and sub-second instants) and calls
//! EVERY front end at the boundary instants (+-1 ns, +-1 s) and random times, in time order.  At
//! the end of the epoch the sessions are revoked and wrong passwords are presented (the
//! `sess_ok = false` / `pw_ok = false` cases).  Each call is one Coq case
//! `CQ path window time outcome`; the Coq model predicts the outcome (`agree`) and the property is
//! evaluated on the real outcome (`pcheck`).
//!
//! `c49 --probe` replays the RADIUS witness on the real server and exits 1 when a member of
//! idm_radius_servers receives the secret of an expired account.
use kanidm_proto::oauth2::{
    AccessTokenIntrospectRequest, AccessTokenRequest, AuthorisationRequest, ClientPostAuth, GrantTypeReq,
    ResponseType,
};
use kanidm_proto::v1::{AuthCredential, AuthIssueSession, AuthMech, AuthStep};
use kanidmd_lib::entry::{Entry, EntryInit, EntryNew, EntrySealedCommitted};
use kanidmd_lib::idm::application::GenerateApplicationPasswordEvent;
use kanidmd_lib::idm::authentication::AuthState;
use kanidmd_lib::idm::delayed::{AuthSessionRecord, DelayedAction};
use kanidmd_lib::idm::event::{
    AuthEvent, LdapApplicationAuthEvent, LdapAuthEvent, LdapTokenAuthEvent, RadiusAuthTokenEvent,
    UnixUserAuthEvent, UnixUserTokenEvent,
};
use kanidmd_lib::idm::oauth2::{AuthorisationRequestContext, AuthoriseResponse, Oauth2Error};
use kanidmd_lib::idm::server::IdmServerTransaction;
use kanidmd_lib::idm::serviceaccount::{DestroyApiTokenEvent, GenerateApiTokenEvent};
use kanidmd_lib::prelude::*;
use kanidmd_lib::testkit::{setup_idm_test, TestConfiguration};
use kanidmd_lib::verif_hooks::c27 as hook27;
use kanidmd_lib::verif_hooks::c32 as hook32;
use kvh::*;
use std::collections::BTreeSet;
use std::sync::Arc;

const G: u64 = 1_000_000_000;
/// all printed times are relative to this instant (2030-03-17)
const BASE: u64 = 1_900_000_000 * G;
const SLOT: u64 = 4000 * G;
const PW: &str = "eicieY7ahchaoCh0eeTa";
const PW_UNIX: &str = "Oe2ohyeiz4ahngeiQu5u";
const PW_BAD: &str = "Thi5-is-the-wr0ng-0ne";
const CLIENT: &str = "c49_client";
const REDIR: &str = "https://app.example.com/cb";
const APP: &str = "c49app";

fn d(ns: u64) -> Duration {
    Duration::from_nanos(ns)
}
fn u(n: u128) -> Uuid {
    Uuid::from_u128(0xc49_0000_0000_0000_0000_0000_0000_0000 + n)
}
fn rel(t: u64) -> String {
    assert!(t >= BASE, "time below BASE");
    cn(t - BASE)
}

// ------------------------------------------------------------------ vocabulary (mirrors Model.v)
#[derive(Clone, Copy, PartialEq, Eq, Debug)]
enum Out {
    Grant,
    RefuseWindow,
    Refuse,
}
impl Out {
    fn coq(self) -> &'static str {
        match self {
            Out::Grant => "OGrant",
            Out::RefuseWindow => "ORefuseWindow",
            Out::Refuse => "ORefuse",
        }
    }
}

const KINDS: [&str; 7] = ["KSelf", "KRadSrv", "KRadSrvEx", "KRadSrvVf", "KRadSrvPpl", "KOther", "KRadAdmin"];

#[derive(Clone, Copy, PartialEq, Eq, Debug)]
enum Subj {
    Person(usize),
    Service(usize),
    Anon,
}

struct Person {
    uuid: Uuid,
    name: String,
    has_secret: bool,
    app_pw: String,
}
struct Service {
    uuid: Uuid,
    name: String,
}

struct World {
    rt: tokio::runtime::Runtime,
    idms: IdmServer,
    delayed: IdmServerDelayed,
    persons: Vec<Person>,
    services: Vec<Service>,
    /// requester uuids of KRadSrv .. KRadAdmin (index 1..6 of KINDS)
    requesters: [Uuid; 7],
    secret: String,
    used_init: BTreeSet<u64>,
}

fn internal_ident(e: Arc<EntrySealedCommitted>) -> Identity {
    let mut i = Identity::from_impersonate_entry_readwrite(e);
    i.origin = IdentType::Internal(InternalRole::System);
    i
}

fn person_entry(uuid: Uuid, name: &str, gid: u32, secret: bool) -> Entry<EntryInit, EntryNew> {
    let mut e: Entry<EntryInit, EntryNew> = kanidmd_lib::entry_init!(
        (Attribute::Class, EntryClass::Object.to_value()),
        (Attribute::Class, EntryClass::Account.to_value()),
        (Attribute::Class, EntryClass::Person.to_value()),
        (Attribute::Class, EntryClass::PosixAccount.to_value()),
        (Attribute::Name, Value::new_iname(name)),
        (Attribute::Uuid, Value::Uuid(uuid)),
        (Attribute::GidNumber, Value::new_uint32(gid)),
        (Attribute::Description, Value::new_utf8s(name)),
        (Attribute::DisplayName, Value::new_utf8s(name))
    );
    e.add_ava(Attribute::PrimaryCredential, Value::new_credential("primary", hook27::cred_new_password(PW)));
    e.add_ava(Attribute::UnixPassword, Value::new_credential("unix", hook27::cred_new_password(PW_UNIX)));
    if secret {
        e.add_ava(Attribute::RadiusSecret, Value::new_secret_str("c49-radius-secret-ohx7Eequ"));
    }
    e
}
fn service_entry(uuid: Uuid, name: &str) -> Entry<EntryInit, EntryNew> {
    kanidmd_lib::entry_init!(
        (Attribute::Class, EntryClass::Object.to_value()),
        (Attribute::Class, EntryClass::Account.to_value()),
        (Attribute::Class, EntryClass::ServiceAccount.to_value()),
        (Attribute::Name, Value::new_iname(name)),
        (Attribute::Uuid, Value::Uuid(uuid)),
        (Attribute::Description, Value::new_utf8s(name)),
        (Attribute::DisplayName, Value::new_utf8s(name))
    )
}
fn group_entry(uuid: Uuid, name: &str, members: &[Uuid]) -> Entry<EntryInit, EntryNew> {
    let mut e: Entry<EntryInit, EntryNew> = kanidmd_lib::entry_init!(
        (Attribute::Class, EntryClass::Object.to_value()),
        (Attribute::Class, EntryClass::Group.to_value()),
        (Attribute::Name, Value::new_iname(name)),
        (Attribute::Uuid, Value::Uuid(uuid))
    );
    for m in members {
        e.add_ava(Attribute::Member, Value::Refer(*m));
    }
    e
}
fn acp_entry(uuid: Uuid, name: &str, receiver: Uuid, attr: Attribute) -> Entry<EntryInit, EntryNew> {
    kanidmd_lib::entry_init!(
        (Attribute::Class, EntryClass::Object.to_value()),
        (Attribute::Class, EntryClass::AccessControlProfile.to_value()),
        (Attribute::Class, EntryClass::AccessControlSearch.to_value()),
        (Attribute::Class, EntryClass::AccessControlReceiverGroup.to_value()),
        (Attribute::Class, EntryClass::AccessControlTargetScope.to_value()),
        (Attribute::Name, Value::new_iname(name)),
        (Attribute::Uuid, Value::Uuid(uuid)),
        (Attribute::Description, Value::new_utf8s(name)),
        (Attribute::AcpReceiverGroup, Value::Refer(receiver)),
        (Attribute::AcpTargetScope, Value::new_json_filter(ProtoFilter::Pres("class".to_string()))),
        (Attribute::AcpSearchAttr, Value::new_iutf8(attr.as_str()))
    )
}

fn setup(n_person: usize, n_service: usize) -> World {
    let rt = tokio::runtime::Builder::new_current_thread().enable_all().build().expect("rt");
    let (idms, delayed, _audit) = rt.block_on(setup_idm_test(TestConfiguration::default()));
    let mut persons = vec![];
    let mut services = vec![];
    let g_people = u(0x10);
    let g_ex = u(0x11);
    let g_vf = u(0x12);
    let u_rs = u(0x20);
    let u_app = u(0x21);
    let requesters = [Uuid::nil(), u(0x31), u(0x32), u(0x33), u(0x34), u(0x35), u(0x36)];
    let secret;
    {
        let mut wr = rt.block_on(idms.proxy_write(d(BASE))).expect("write");
        let mut es = vec![];
        let mut pu = vec![];
        for i in 0..n_person {
            let uuid = u(0x100 + i as u128);
            let name = format!("c49person{}", i);
            // the last person has no RADIUS secret
            let has_secret = !(n_person > 1 && i == n_person - 1);
            es.push(person_entry(uuid, &name, 70_000 + i as u32, has_secret));
            pu.push(uuid);
            persons.push(Person { uuid, name, has_secret, app_pw: String::new() });
        }
        for i in 0..n_service {
            let uuid = u(0x200 + i as u128);
            let name = format!("c49svc{}", i);
            es.push(service_entry(uuid, &name));
            services.push(Service { uuid, name });
        }
        // requesters: four RADIUS server service accounts, a plain person, a RADIUS admin
        for (k, n) in [(1, "c49radsrv"), (2, "c49radsrvex"), (3, "c49radsrvvf"), (4, "c49radsrvppl"), (6, "c49radadmin")] {
            es.push(service_entry(requesters[k], n));
        }
        es.push(person_entry(requesters[5], "c49other", 70_900, false));
        es.push(group_entry(g_people, "c49people", &pu));
        es.push(group_entry(g_ex, "c49readex", &[requesters[2]]));
        es.push(group_entry(g_vf, "c49readvf", &[requesters[3]]));
        es.push(acp_entry(u(0x13), "c49_acp_expire_only", g_ex, Attribute::AccountExpire));
        es.push(acp_entry(u(0x14), "c49_acp_validfrom_only", g_vf, Attribute::AccountValidFrom));
        let scopes: BTreeSet<String> = ["openid", "read"].iter().map(|s| s.to_string()).collect();
        es.push(kanidmd_lib::entry_init!(
            (Attribute::Class, EntryClass::Object.to_value()),
            (Attribute::Class, EntryClass::Account.to_value()),
            (Attribute::Class, EntryClass::OAuth2ResourceServer.to_value()),
            (Attribute::Class, EntryClass::OAuth2ResourceServerBasic.to_value()),
            (Attribute::Uuid, Value::Uuid(u_rs)),
            (Attribute::Name, Value::new_iname(CLIENT)),
            (Attribute::DisplayName, Value::new_utf8s(CLIENT)),
            (Attribute::OAuth2RsOriginLanding, Value::new_url_s("https://app.example.com").unwrap()),
            (Attribute::OAuth2RsOrigin, Value::new_url_s(REDIR).unwrap()),
            (Attribute::OAuth2RsScopeMap, Value::new_oauthscopemap(g_people, scopes.clone()).expect("scopemap")),
            (Attribute::OAuth2AllowInsecureClientDisablePkce, Value::new_bool(true)),
            (Attribute::OAuth2ConsentPromptEnable, Value::new_bool(false))
        ));
        es.push(kanidmd_lib::entry_init!(
            (Attribute::Class, EntryClass::Object.to_value()),
            (Attribute::Class, EntryClass::Account.to_value()),
            (Attribute::Class, EntryClass::ServiceAccount.to_value()),
            (Attribute::Class, EntryClass::Application.to_value()),
            (Attribute::DisplayName, Value::new_utf8s("Application")),
            (Attribute::Name, Value::new_iname(APP)),
            (Attribute::Uuid, Value::Uuid(u_app)),
            (Attribute::LinkedGroup, Value::Refer(g_people))
        ));
        wr.qs_write.internal_create(es).expect("create world");
        // memberships in the built-in groups
        let add = |wr: &mut kanidmd_lib::idm::server::IdmServerProxyWriteTransaction<'_>, g: Uuid, ms: &[Uuid]| {
            let ml = ModifyList::new_list(ms.iter().map(|m| Modify::Present(Attribute::Member, Value::Refer(*m))).collect());
            wr.qs_write.internal_modify_uuid(g, &ml).expect("group member");
        };
        add(&mut wr, UUID_IDM_RADIUS_SERVERS, &requesters[1..5]);
        add(&mut wr, UUID_IDM_PEOPLE_ADMINS, &[requesters[4]]);
        add(&mut wr, UUID_IDM_RADIUS_ADMINS, &[requesters[6]]);
        // unix password binds are a domain switch
        wr.qs_write
            .internal_modify_uuid(
                UUID_DOMAIN_INFO,
                &ModifyList::new_purge_and_set(Attribute::LdapAllowUnixPwBind, Value::new_bool(true)),
            )
            .expect("ldap unix bind switch");
        secret = wr
            .qs_write
            .internal_search_uuid(u_rs)
            .expect("rs")
            .get_ava_single_secret(Attribute::OAuth2RsBasicSecret)
            .expect("secret")
            .to_string();
        wr.commit().expect("commit world");
    }
    for p in persons.iter_mut() {
        let mut wr = rt.block_on(idms.proxy_write(d(BASE + G))).expect("write");
        let ev = GenerateApplicationPasswordEvent::new_internal(p.uuid, u_app, "c49".to_string());
        let (pw, _) = wr.generate_application_password(&ev).expect("application password");
        wr.commit().expect("commit");
        p.app_pw = pw;
    }
    World { rt, idms, delayed, persons, services, requesters, secret, used_init: BTreeSet::new() }
}

// ------------------------------------------------------------------ driving the real server
impl World {
    fn drain(&mut self) -> Vec<DelayedAction> {
        use std::future::Future;
        use std::task::{Context, Poll, Waker};
        let mut all = vec![];
        loop {
            let mut buf: Vec<DelayedAction> = Vec::with_capacity(16);
            let n = {
                let mut fut = std::pin::pin!(self.delayed.recv_many(&mut buf));
                let mut cx = Context::from_waker(Waker::noop());
                match fut.as_mut().poll(&mut cx) {
                    Poll::Ready(n) => n,
                    Poll::Pending => 0,
                }
            };
            if n == 0 {
                break;
            }
            all.append(&mut buf);
        }
        all
    }

    fn entry(&self, uuid: Uuid) -> Arc<EntrySealedCommitted> {
        let mut rd = self.rt.block_on(self.idms.proxy_read()).expect("read");
        rd.qs_read.internal_search_uuid(uuid).expect("entry")
    }

    fn set_window(&self, uuid: Uuid, vf: Option<u64>, ex: Option<u64>, t: u64) {
        let mut mods = vec![Modify::Purged(Attribute::AccountValidFrom), Modify::Purged(Attribute::AccountExpire)];
        if let Some(v) = vf {
            mods.push(Modify::Present(Attribute::AccountValidFrom, Value::new_datetime_epoch(d(v))));
        }
        if let Some(x) = ex {
            mods.push(Modify::Present(Attribute::AccountExpire, Value::new_datetime_epoch(d(x))));
        }
        let mut wr = self.rt.block_on(self.idms.proxy_write(d(t))).expect("write");
        wr.qs_write.internal_modify_uuid(uuid, &ModifyList::new_list(mods)).expect("set window");
        wr.commit().expect("commit");
    }

    /// password login: Init at `t_init`, Begin + Cred at `ct`.  Returns the outcome, the token and
    /// the queued session record.
    fn login(&mut self, name: &str, t_init: u64, ct: u64, pw: &str) -> (Out, Option<hook32::JwsCompact>, Option<AuthSessionRecord>) {
        let cai = || ClientAuthInfo::new(Source::Internal, None, None, None);
        assert!(self.used_init.insert(t_init), "auth session time used twice");
        let idms = &self.idms;
        let rt = &self.rt;
        let mut a = rt.block_on(idms.auth()).expect("auth txn");
        let ev = AuthEvent::from_message(
            None,
            AuthStep::Init2 { username: name.to_string(), issue: AuthIssueSession::Token, privileged: false }.into(),
        )
        .expect("ev");
        let sess = match rt.block_on(a.auth(&ev, d(t_init), cai())) {
            Ok(r) => match r.state {
                AuthState::Choose(_) => r.sessionid,
                AuthState::Denied(why) => {
                    return (if why == "account expired" { Out::RefuseWindow } else { Out::Refuse }, None, None)
                }
                _ => return (Out::Refuse, None, None),
            },
            Err(_) => return (Out::Refuse, None, None),
        };
        let ev = AuthEvent::from_message(Some(sess), AuthStep::Begin(AuthMech::Password).into()).expect("ev");
        match rt.block_on(a.auth(&ev, d(ct), cai())) {
            Ok(r) if matches!(r.state, AuthState::Continue(_)) => {}
            _ => return (Out::Refuse, None, None),
        }
        let ev = AuthEvent::from_message(Some(sess), AuthStep::Cred(AuthCredential::Password(pw.to_string())).into()).expect("ev");
        let r = rt.block_on(a.auth(&ev, d(ct), cai()));
        let _ = a.commit();
        let tok = match r {
            Ok(r) => match r.state {
                AuthState::Success(tok, _) => *tok,
                _ => {
                    self.drain();
                    return (Out::Refuse, None, None);
                }
            },
            Err(_) => {
                self.drain();
                return (Out::Refuse, None, None);
            }
        };
        let mut rec = None;
        for da in self.drain() {
            if let DelayedAction::AuthSessionRecord(r) = da {
                rec = Some(r);
            }
        }
        (Out::Grant, Some(tok), rec)
    }

    fn bearer(tok: &hook32::JwsCompact) -> ClientAuthInfo {
        ClientAuthInfo::new(Source::Internal, None, Some(tok.clone()), None)
    }

    fn tok_use(&self, tok: &hook32::JwsCompact, ct: u64) -> Out {
        let mut rd = self.rt.block_on(self.idms.proxy_read()).expect("read");
        match rd.validate_client_auth_info_to_ident(Self::bearer(tok), d(ct)) {
            Ok(_) => Out::Grant,
            Err(_) => Out::Refuse,
        }
    }

    fn ldap_tok(&self, tok: &hook32::JwsCompact, ct: u64) -> Out {
        let bound = {
            let mut a = self.rt.block_on(self.idms.auth()).expect("auth txn");
            let lae = LdapTokenAuthEvent::from_parts(tok.clone()).expect("ev");
            self.rt.block_on(a.token_auth_ldap(&lae, d(ct)))
        };
        let Ok(Some(bound)) = bound else { return Out::Refuse };
        let mut rd = self.rt.block_on(self.idms.proxy_read()).expect("read");
        match rd.validate_ldap_session(&bound.effective_session, Source::Internal, d(ct)) {
            Ok(_) => Out::Grant,
            Err(_) => Out::Refuse,
        }
    }

    fn unix_auth(&self, uuid: Uuid, pw: &str, ct: u64) -> Out {
        let anon = self.entry(UUID_ANONYMOUS);
        let mut a = self.rt.block_on(self.idms.auth()).expect("auth txn");
        let ev = UnixUserAuthEvent { ident: internal_ident(anon), target: uuid, cleartext: pw.to_string() };
        match self.rt.block_on(a.auth_unix(&ev, d(ct))) {
            Ok(Some(_)) => Out::Grant,
            _ => Out::Refuse,
        }
    }
    fn ldap_bind(&self, uuid: Uuid, pw: &str, ct: u64) -> Out {
        let mut a = self.rt.block_on(self.idms.auth()).expect("auth txn");
        let ev = LdapAuthEvent::from_parts(uuid, pw.to_string()).expect("ev");
        match self.rt.block_on(a.auth_ldap(&ev, d(ct))) {
            Ok(Some(_)) => Out::Grant,
            _ => Out::Refuse,
        }
    }
    fn ldap_app(&self, uuid: Uuid, pw: &str, ct: u64) -> Out {
        let mut a = self.rt.block_on(self.idms.auth()).expect("auth txn");
        let ev = LdapApplicationAuthEvent::new(APP, uuid, pw.to_string()).expect("ev");
        match self.rt.block_on(a.application_auth_ldap(&ev, d(ct))) {
            Ok(Some(_)) => Out::Grant,
            Ok(None) => Out::Refuse,
            Err(OperationError::SessionExpired) => Out::RefuseWindow,
            Err(_) => Out::Refuse,
        }
    }
    fn ldap_sess(&self, uuid: Uuid, ct: u64) -> Out {
        let mut rd = self.rt.block_on(self.idms.proxy_read()).expect("read");
        match rd.validate_ldap_session(&kanidmd_lib::idm::ldap::LdapSession::UnixBind(uuid), Source::Internal, d(ct)) {
            Ok(_) => Out::Grant,
            Err(OperationError::SessionExpired) => Out::RefuseWindow,
            Err(_) => Out::Refuse,
        }
    }

    /// bearer token -> identity -> authorisation request; Some(code) when permitted
    fn authorise(&self, tok: &hook32::JwsCompact, ct: u64) -> Option<String> {
        let mut rd = self.rt.block_on(self.idms.proxy_read()).expect("read");
        let ident = rd.validate_client_auth_info_to_ident(Self::bearer(tok), d(ct)).ok()?;
        let auth_req = AuthorisationRequest {
            response_type: ResponseType::Code,
            response_mode: None,
            client_id: CLIENT.to_string(),
            state: Some("st".to_string()),
            pkce_request: None,
            redirect_uri: Url::parse(REDIR).unwrap(),
            scope: ["openid".to_string()].into_iter().collect(),
            nonce: Some("n0nce".to_string()),
            oidc_ext: Default::default(),
            max_age: None,
            prompt: Default::default(),
            ui_locales: Default::default(),
            unknown_keys: Default::default(),
        };
        match rd.check_oauth2_authorisation(Some(&ident), &auth_req, &AuthorisationRequestContext::default(), d(ct)) {
            Ok(AuthoriseResponse::Permitted(p)) => Some(p.code),
            _ => None,
        }
    }
    fn post_auth(&self) -> ClientPostAuth {
        ClientPostAuth { client_id: Some(CLIENT.to_string()), client_secret: Some(self.secret.clone()) }
    }
    fn token_req(&self, grant: GrantTypeReq, ct: u64) -> Option<(String, String)> {
        let none_auth = ClientAuthInfo::new(Source::Internal, None, None, None);
        let req = AccessTokenRequest { grant_type: grant, client_post_auth: self.post_auth() };
        let mut wr = self.rt.block_on(self.idms.proxy_write(d(ct))).expect("write");
        match wr.check_oauth2_token_exchange(&none_auth, &req, d(ct)) {
            Ok(r) => {
                wr.commit().expect("commit");
                Some((r.access_token, r.refresh_token.expect("refresh token")))
            }
            Err(Oauth2Error::InvalidGrant) => {
                // the HTTP layer commits here too (reuse detection revokes the session)
                wr.commit().expect("commit");
                None
            }
            Err(_) => None,
        }
    }
    fn exchange(&self, code: String, ct: u64) -> Option<(String, String)> {
        self.token_req(
            GrantTypeReq::AuthorizationCode { code, redirect_uri: Url::parse(REDIR).unwrap(), code_verifier: None },
            ct,
        )
    }
    fn refresh(&self, refresh_token: String, ct: u64) -> Option<(String, String)> {
        self.token_req(GrantTypeReq::RefreshToken { refresh_token, scope: None }, ct)
    }
    fn introspect(&self, access: &str, ct: u64) -> Out {
        let req = AccessTokenIntrospectRequest {
            token: access.to_string(),
            token_type_hint: None,
            client_post_auth: ClientPostAuth::default(),
        };
        let mut rd = self.rt.block_on(self.idms.proxy_read()).expect("read");
        match rd.check_oauth2_token_introspect(&req, d(ct)) {
            Ok(r) if r.active => Out::Grant,
            _ => Out::Refuse,
        }
    }
    fn userinfo(&self, access: &str, ct: u64) -> Out {
        let mut rd = self.rt.block_on(self.idms.proxy_read()).expect("read");
        match rd.verif_c39_userinfo(CLIENT, access, d(ct)) {
            Ok(_) => Out::Grant,
            Err(_) => Out::Refuse,
        }
    }

    /// what the requester's reduced view of the target holds: (vis, class, secret, name, dn, vf, ex)
    fn readable(&self, requester: Uuid, target: Uuid) -> [bool; 7] {
        let re = self.entry(requester);
        let ident = Identity::from_impersonate_entry_readwrite(re);
        let mut rd = self.rt.block_on(self.idms.proxy_read()).expect("read");
        match rd.qs_read.impersonate_search_ext_uuid(target, &ident) {
            Ok(e) => [
                true,
                e.get_ava_set(Attribute::Class).is_some(),
                e.get_ava_set(Attribute::RadiusSecret).is_some(),
                e.get_ava_set(Attribute::Name).is_some(),
                e.get_ava_set(Attribute::DisplayName).is_some(),
                e.get_ava_set(Attribute::AccountValidFrom).is_some(),
                e.get_ava_set(Attribute::AccountExpire).is_some(),
            ],
            Err(_) => [false; 7],
        }
    }
    fn radius(&self, requester: Uuid, target: Uuid, ct: u64) -> (Out, String) {
        let re = self.entry(requester);
        let ident = Identity::from_impersonate_entry_readwrite(re);
        let mut rd = self.rt.block_on(self.idms.proxy_read()).expect("read");
        let ev = RadiusAuthTokenEvent::from_parts(ident, target).expect("ev");
        match rd.get_radiusauthtoken(&ev, d(ct)) {
            Ok(t) => (Out::Grant, format!("Ok(secret={})", t.secret)),
            Err(OperationError::InvalidAccountState(s)) => (Out::RefuseWindow, format!("Err(InvalidAccountState({}))", s)),
            Err(e) => (Out::Refuse, format!("Err({:?})", e)),
        }
    }
    fn unix_token(&self, requester: Uuid, target: Uuid, ct: u64) -> (bool, Out) {
        let re = self.entry(requester);
        let ident = Identity::from_impersonate_entry_readwrite(re);
        let mut rd = self.rt.block_on(self.idms.proxy_read()).expect("read");
        let vis = rd.qs_read.impersonate_search_uuid(target, &ident).is_ok();
        let ev = UnixUserTokenEvent::from_parts(ident, target).expect("ev");
        let r = rd.get_unixusertoken(&ev, d(ct));
        (
            vis,
            match r {
                Ok(t) if t.valid => Out::Grant,
                Ok(_) => Out::RefuseWindow,
                Err(_) => Out::Refuse,
            },
        )
    }
}

// ------------------------------------------------------------------ case emission
struct Emit<'a> {
    sink: &'a mut Sink,
    vf: Option<u64>,
    ex: Option<u64>,
    who: String,
}
impl Emit<'_> {
    fn q(&mut self, path_coq: String, path_txt: &str, ct: u64, o: Out, detail: &str) {
        let w = format!("(mkwin {} {})", copt(&self.vf, |x| rel(*x)), copt(&self.ex, |x| rel(*x)));
        let outside = self.vf.map(|v| ct < v).unwrap_or(false) || self.ex.map(|e| e < ct).unwrap_or(false);
        let near = |b: Option<u64>| b.map(|b| ct.abs_diff(b) <= G).unwrap_or(false);
        let boundary = near(self.vf) || near(self.ex);
        let kind = path_txt.split_whitespace().next().unwrap_or("?").to_string();
        self.sink.bump(&format!("path_{}", kind));
        self.sink.bump(match (outside, o) {
            (true, Out::Grant) => "outside_granted",
            (true, _) => "outside_refused",
            (false, Out::Grant) => "inside_granted",
            (false, _) => "inside_refused",
        });
        if boundary {
            self.sink.bump("boundary_cases");
        }
        let fr = |x: Option<u64>| x.map(|v| format!("{}", v - BASE)).unwrap_or_else(|| "-".into());
        self.sink.case(
            format!("CQ {} {} {} {}", path_coq, w, rel(ct), o.coq()),
            format!(
                "{} who={} window=[{},{}] ct={} {} -> {:?} {}",
                path_txt,
                self.who,
                fr(self.vf),
                fr(self.ex),
                ct - BASE,
                if outside { "OUTSIDE" } else if boundary { "boundary" } else { "inside" },
                o,
                detail
            ),
            outside || boundary,
        );
    }
}

fn rd_coq(r: &[bool; 7]) -> String {
    format!("(mkrd {} {} {} {} {} {} {})", r[0], r[1], r[2], r[3], r[4], r[5], r[6])
}

/// a random window inside [t0+100 s, t0+700 s]
fn gen_window(rng: &mut Rng, t0: u64) -> (Option<u64>, Option<u64>) {
    let inst = |rng: &mut Rng| {
        let s = t0 + 100 * G + rng.below(600) * G;
        if rng.chance(1, 2) { s } else { s + rng.below(G) }
    };
    match rng.below(8) {
        0 => (None, None),
        1 => (Some(inst(rng)), None),
        2 | 3 => (None, Some(inst(rng))),
        4 | 5 => {
            let a = inst(rng);
            let b = inst(rng);
            (Some(a.min(b)), Some(a.max(b)))
        }
        6 => {
            let a = inst(rng);
            let b = inst(rng);
            (Some(a.max(b)), Some(a.min(b)))
        }
        _ => {
            let a = inst(rng);
            (Some(a), Some(a))
        }
    }
}
fn gen_times(rng: &mut Rng, t0: u64, vf: Option<u64>, ex: Option<u64>, n_rand: u64) -> Vec<u64> {
    let mut ts = BTreeSet::new();
    for b in [vf, ex].into_iter().flatten() {
        for t in [b - G, b - 1, b, b + 1, b + G] {
            if rng.chance(4, 5) {
                ts.insert(t);
            }
        }
    }
    for _ in 0..n_rand {
        ts.insert(t0 + 10 * G + rng.below(840 * G));
    }
    ts.into_iter().filter(|t| *t >= t0 + 10 * G && *t <= t0 + 850 * G).collect()
}

fn epoch(w: &mut World, sink: &mut Sink, rng: &mut Rng, slot: u64, subj: Subj, light: bool) {
    let t0 = BASE + slot * SLOT;
    match subj {
        Subj::Anon => {
            let (vf, ex) = gen_window(rng, t0);
            w.set_window(UUID_ANONYMOUS, vf, ex, t0 + 3 * G);
            let mut em = Emit { sink, vf, ex, who: "anonymous".into() };
            for ct in gen_times(rng, t0, vf, ex, 3) {
                let o = w.ldap_bind(UUID_ANONYMOUS, "", ct);
                em.q("PLdapAnon".into(), "ldap_anon_bind", ct, o, "");
                let o = w.ldap_sess(UUID_ANONYMOUS, ct);
                em.q("PLdapSess".into(), "ldap_session", ct, o, "");
            }
            w.set_window(UUID_ANONYMOUS, None, None, t0 + 900 * G);
        }
        Subj::Service(i) => {
            let (uuid, name) = (w.services[i].uuid, w.services[i].name.clone());
            // API token issued well before the epoch so that the 5 min grace window is over
            let t_issue = t0 - 1000 * G;
            let anon = w.entry(UUID_ANONYMOUS);
            let (jws, token_id) = {
                let mut wr = w.rt.block_on(w.idms.proxy_write(d(t_issue))).expect("write");
                let ev = GenerateApiTokenEvent {
                    ident: internal_ident(anon.clone()),
                    target: uuid,
                    label: format!("c49-{}", slot),
                    expiry: None,
                    read_write: false,
                    compact: rng.chance(1, 2),
                };
                let jws = wr.service_account_generate_api_token(&ev, d(t_issue)).expect("api token");
                wr.commit().expect("commit");
                let e = w.entry(uuid);
                let ids: Vec<Uuid> = e
                    .get_ava_as_apitoken_map(Attribute::ApiTokenSession)
                    .map(|m| m.keys().copied().collect())
                    .unwrap_or_default();
                assert_eq!(ids.len(), 1, "one api token per epoch");
                (jws, ids[0])
            };
            w.set_window(uuid, None, None, t0);
            assert_eq!(w.tok_use(&jws, t0 + G), Out::Grant, "fresh api token must work in an open window");
            let (vf, ex) = gen_window(rng, t0);
            w.set_window(uuid, vf, ex, t0 + 3 * G);
            let mut em = Emit { sink, vf, ex, who: name.clone() };
            for ct in gen_times(rng, t0, vf, ex, 3) {
                let o = w.tok_use(&jws, ct);
                em.q("(PTokApi true)".into(), "api_token", ct, o, "");
                let o = w.ldap_tok(&jws, ct);
                em.q("(PLdapTokApi true)".into(), "ldap_api_token_bind", ct, o, "");
                let o = w.ldap_sess(uuid, ct);
                em.q("PLdapSess".into(), "ldap_session", ct, o, "");
                if !w.used_init.contains(&ct) {
                    let (o, _, _) = w.login(&name, ct, ct, PW);
                    em.q(format!("(PLogin {} false true)", rel(ct)), "login", ct, o, "(no credential)");
                }
            }
            // destroy the token: every later presentation is refused whatever the window says
            {
                let mut wr = w.rt.block_on(w.idms.proxy_write(d(t0 + 860 * G))).expect("write");
                let ev = DestroyApiTokenEvent { ident: internal_ident(anon), target: uuid, token_id };
                wr.service_account_destroy_api_token(&ev).expect("destroy api token");
                wr.commit().expect("commit");
            }
            for ct in [t0 + 870 * G, t0 + 875 * G + 1] {
                let o = w.tok_use(&jws, ct);
                em.q("(PTokApi false)".into(), "api_token", ct, o, "(destroyed)");
                let o = w.ldap_tok(&jws, ct);
                em.q("(PLdapTokApi false)".into(), "ldap_api_token_bind", ct, o, "(destroyed)");
            }
        }
        Subj::Person(i) => {
            let (uuid, name, has_secret, app_pw) =
                (w.persons[i].uuid, w.persons[i].name.clone(), w.persons[i].has_secret, w.persons[i].app_pw.clone());
            w.set_window(uuid, None, None, t0);
            // real login + session record
            let (o, tok, rec) = w.login(&name, t0 + G, t0 + G, PW);
            assert_eq!(o, Out::Grant, "login in an open window");
            let tok = tok.expect("token");
            let rec = rec.expect("session record");
            let session_id = rec.session_id;
            {
                let mut wr = w.rt.block_on(w.idms.proxy_write(d(t0 + G))).expect("write");
                wr.process_delayedaction(&DelayedAction::AuthSessionRecord(rec), d(t0 + G)).expect("session record");
                wr.commit().expect("commit");
            }
            // OAuth2 authorisation + code exchange
            let code = w.authorise(&tok, t0 + 2 * G).expect("authorisation in an open window");
            let (mut access, mut refresh_tok) = w.exchange(code, t0 + 2 * G).expect("code exchange in an open window");
            let (vf, ex) = gen_window(rng, t0);
            w.set_window(uuid, vf, ex, t0 + 3 * G);
            let requesters = w.requesters;
            let mut em = Emit { sink, vf, ex, who: name.clone() };
            for ct in gen_times(rng, t0, vf, ex, if light { 2 } else { 4 }) {
                // interactive login, single instant
                if !w.used_init.contains(&ct) {
                    let (o, t2, _) = w.login(&name, ct, ct, PW);
                    em.q(format!("(PLogin {} true true)", rel(ct)), "login", ct, o, "");
                    if let Some(t2) = t2 {
                        // the fresh token has no session record yet (grace window)
                        let o = w.tok_use(&t2, ct);
                        em.q("(PTokUat true)".into(), "uat_fresh", ct, o, "");
                    }
                }
                // interactive login begun earlier
                if rng.chance(1, 2) {
                    let back = *rng.pick(&[1u64, G, 100 * G + 7, 299 * G]);
                    let t_init = ct - back;
                    if t_init > t0 + 4 * G && !w.used_init.contains(&t_init) {
                        let (o, t2, _) = w.login(&name, t_init, ct, PW);
                        em.q(format!("(PLogin {} true true)", rel(t_init)), "login_continued", ct, o, &format!("init@{}", t_init - BASE));
                        if let Some(t2) = t2 {
                            let o = w.tok_use(&t2, ct);
                            em.q("(PTokUat true)".into(), "uat_fresh", ct, o, "(from continued login)");
                        }
                    }
                }
                let o = w.unix_auth(uuid, PW_UNIX, ct);
                em.q("(PUnixAuth true)".into(), "unix_auth", ct, o, "");
                let o = w.ldap_bind(uuid, PW_UNIX, ct);
                em.q("(PLdapBind true)".into(), "ldap_bind", ct, o, "");
                let o = w.ldap_app(uuid, &app_pw, ct);
                em.q("(PLdapApp true)".into(), "ldap_app_bind", ct, o, "");
                let o = w.ldap_sess(uuid, ct);
                em.q("PLdapSess".into(), "ldap_session", ct, o, "");
                let o = w.tok_use(&tok, ct);
                em.q("(PTokUat true)".into(), "uat", ct, o, "");
                let o = w.ldap_tok(&tok, ct);
                em.q("(PLdapTokUat true)".into(), "ldap_uat_bind", ct, o, "");
                // OAuth2
                let code = w.authorise(&tok, ct);
                em.q("(POAuthorise true)".into(), "oauth2_authorise", ct, if code.is_some() { Out::Grant } else { Out::Refuse }, "");
                if rng.chance(1, 2) {
                    let back = *rng.pick(&[0u64, 1, G, 30 * G, 59 * G + 999_999_999, 60 * G, 61 * G]);
                    let t_auth = ct - back;
                    if t_auth > t0 + 4 * G {
                        let code = if back == 0 { code } else { w.authorise(&tok, t_auth) };
                        let o = match code {
                            Some(c) => match w.exchange(c, ct) {
                                Some((a2, _)) => {
                                    // what the exchange handed out is gated on use
                                    let o2 = w.introspect(&a2, ct);
                                    em.q("(POIntrospect true)".into(), "oauth2_introspect", ct, o2, "(token of this exchange)");
                                    Out::Grant
                                }
                                None => Out::Refuse,
                            },
                            None => Out::Refuse,
                        };
                        em.q(format!("(POExchange {} true)", rel(t_auth)), "oauth2_exchange", ct, o, &format!("authorised@{}", t_auth - BASE));
                    }
                }
                let o = w.introspect(&access, ct);
                em.q("(POIntrospect true)".into(), "oauth2_introspect", ct, o, "");
                let o = w.userinfo(&access, ct);
                em.q("(POUserinfo true)".into(), "oauth2_userinfo", ct, o, "");
                let o = match w.refresh(refresh_tok.clone(), ct) {
                    Some((a2, r2)) => {
                        access = a2;
                        refresh_tok = r2;
                        Out::Grant
                    }
                    None => Out::Refuse,
                };
                em.q("(PORefresh true)".into(), "oauth2_refresh", ct, o, "");
                // RADIUS, every requester
                for (k, kn) in KINDS.iter().enumerate() {
                    let req = if k == 0 { uuid } else { requesters[k] };
                    let rd = w.readable(req, uuid);
                    let (o, detail) = w.radius(req, uuid, ct);
                    em.q(format!("(PRadius {} {} {})", kn, rd_coq(&rd), has_secret), &format!("radius as={}", kn), ct, o, &detail);
                }
                // POSIX token of the account
                for (req, rn) in [(uuid, "self"), (requesters[5], "other")] {
                    let (vis, o) = w.unix_token(req, uuid, ct);
                    em.q(format!("(PUnixTok {})", vis), &format!("unix_token as={}", rn), ct, o, "");
                }
            }
            // ---- revoke the login session: token paths are refused whatever the window says
            {
                let mut wr = w.rt.block_on(w.idms.proxy_write(d(t0 + 860 * G))).expect("write");
                wr.qs_write
                    .internal_modify_uuid(
                        uuid,
                        &ModifyList::new_list(vec![Modify::Removed(Attribute::UserAuthTokenSession, PartialValue::Refer(session_id))]),
                    )
                    .expect("revoke session");
                wr.commit().expect("commit");
            }
            for ct in [t0 + 870 * G, t0 + 875 * G + 1] {
                let o = w.tok_use(&tok, ct);
                em.q("(PTokUat false)".into(), "uat", ct, o, "(revoked)");
                let o = w.ldap_tok(&tok, ct);
                em.q("(PLdapTokUat false)".into(), "ldap_uat_bind", ct, o, "(revoked)");
                let code = w.authorise(&tok, ct);
                em.q("(POAuthorise false)".into(), "oauth2_authorise", ct, if code.is_some() { Out::Grant } else { Out::Refuse }, "(revoked)");
                let o = match code {
                    Some(c) => if w.exchange(c, ct).is_some() { Out::Grant } else { Out::Refuse },
                    None => Out::Refuse,
                };
                em.q(format!("(POExchange {} false)", rel(ct)), "oauth2_exchange", ct, o, "(revoked)");
                let o = w.introspect(&access, ct);
                em.q("(POIntrospect false)".into(), "oauth2_introspect", ct, o, "(revoked)");
                let o = w.userinfo(&access, ct);
                em.q("(POUserinfo false)".into(), "oauth2_userinfo", ct, o, "(revoked)");
                let o = if w.refresh(refresh_tok.clone(), ct).is_some() { Out::Grant } else { Out::Refuse };
                em.q("(PORefresh false)".into(), "oauth2_refresh", ct, o, "(revoked)");
            }
            // ---- wrong passwords (last: they feed the soft locks)
            let ct = t0 + 880 * G;
            let (o, _, _) = w.login(&name, ct, ct, PW_BAD);
            em.q(format!("(PLogin {} true false)", rel(ct)), "login", ct, o, "(wrong password)");
            let o = w.unix_auth(uuid, PW_BAD, ct);
            em.q("(PUnixAuth false)".into(), "unix_auth", ct, o, "(wrong password)");
            let o = w.ldap_bind(uuid, PW_BAD, ct + 1);
            em.q("(PLdapBind false)".into(), "ldap_bind", ct + 1, o, "(wrong password)");
            let o = w.ldap_app(uuid, PW_BAD, ct);
            em.q("(PLdapApp false)".into(), "ldap_app_bind", ct, o, "(wrong password)");
        }
    }
}

fn probe() -> i32 {
    let w = setup(1, 0);
    let p = w.persons[0].uuid;
    let day = 86_400 * G;
    let now = BASE + 10 * day;
    w.set_window(p, None, Some(now - day), BASE + 2 * G);
    println!("person c49person0: account_expire = now - 1 day; RADIUS secret present");
    let mut bad = 0;
    for (k, kn) in KINDS.iter().enumerate() {
        let req = if k == 0 { p } else { w.requesters[k] };
        let rd = w.readable(req, p);
        let (o, detail) = w.radius(req, p, now);
        println!(
            "  get_radiusauthtoken as {:<10} reduced entry [vis class secret name displayname valid_from expire] = {:?} -> {:?} {}",
            kn, rd, o, detail
        );
        if o == Out::Grant {
            bad += 1;
        }
    }
    println!("  unix auth of the same account at the same time -> {:?}", w.unix_auth(p, PW_UNIX, now));
    if bad > 0 {
        println!("DEFECT PRESENT: {} requester(s) received the RADIUS secret of an expired account", bad);
        1
    } else {
        println!("no requester received the secret");
        0
    }
}

fn main() {
    std::env::set_var("RUST_LOG", "off");
    let args = parse_args();
    if args.extra.iter().any(|a| a == "--probe") {
        std::process::exit(probe());
    }
    let mut rng = Rng::new(args.seed);
    let mut sink = Sink::new(&args, "KV.C49.Model", 150);
    sink.rule = "epochs on one real IdmServer with the shipped access profiles: subject account (person / service account / anonymous) gets a random validity window (open, one-sided, two-sided, empty, single instant; whole-second and sub-second bounds) after tokens were issued; every front end (interactive login incl. logins begun earlier, unix auth, LDAP password / anonymous / application / token binds, LDAP session revalidation, user auth token, API token, OAuth2 authorise / code exchange / refresh / introspect / userinfo, RADIUS token as 7 requester identities, POSIX token) is called at the bounds, bounds +-1 ns, +-1 s and random instants; then sessions are revoked and wrong passwords presented. non-trivial = the instant is outside the window or within 1 s of a bound".into();
    let n_epochs = if args.thorough { 260 } else { 44 };
    let servers = if args.thorough { 4 } else { 1 };
    let mut slot = 1u64;
    for s in 0..servers {
        let mut w = setup(4, 2);
        let per = n_epochs / servers;
        for e in 0..per {
            let subj = match rng.below(10) {
                0 => Subj::Anon,
                1 | 2 => Subj::Service(rng.below(2) as usize),
                _ => Subj::Person(rng.below(4) as usize),
            };
            // the first epochs of a server cover each subject kind once
            let subj = match e {
                0 => Subj::Person(0),
                1 => Subj::Person(3),
                2 => Subj::Service(0),
                3 => Subj::Anon,
                _ => subj,
            };
            let mut r2 = rng.fork();
            epoch(&mut w, &mut sink, &mut r2, slot, subj, !args.thorough);
            slot += 1;
        }
        sink.add_stat("servers", 1);
        let _ = s;
    }
    sink.add_stat("epochs", (slot - 1) as u64);
    sink.finish();
}
