//! C03 — indexes and name lookup tables always mirror the stored entries.
//!
//! Drives the REAL kanidm backend (`Backend` on an in-memory SQLite database with the real
//! ARC caches) through random histories of write transactions: `create`, `modify` (batches,
//! renames, name swaps and chains, recycle / revive / tombstone, uuid change as produced by
//! replication conflict resolution), `incremental_apply`, purge (the tail of
//! `reap_tombstones`), `update_idxmeta` + `reindex`, name / spn / rdn / external-id lookups
//! *inside* the transaction, then commit or abort. After every transaction the raw SQLite
//! index and name tables are dumped (bypassing all caches), the cached read paths are compared
//! with the raw tables, and every stored entry is reduced to what indexing reads. The Coq
//! model (KV.C03.Model) replays the same operations (`agree`) and the dump is compared with
//! the tables recomputed from the stored entries (`pcheck`).
use kanidm_proto::internal::FsType;
use kanidmd_lib::be::{Backend, BackendConfig, BackendWriteTransaction};
use kanidmd_lib::entry::EntrySealedCommitted;
use kanidmd_lib::prelude::*;
use kanidmd_lib::verif_hooks::c03 as hk;
use kvh::*;
use std::collections::{BTreeMap, BTreeSet};
use std::sync::Arc;

const NAMES: [&str; 7] = ["alice", "alina", "bob", "carol", "dave", "erin", "bobby"];
const GIDS: [u32; 3] = [2001, 2002, 2003];
const EXTS: [&str; 3] = ["ext-1", "ext-2", "ext-3"];
const DNS: [&str; 3] = ["Alice A", "Bob", "Alina Bob"];
const NUUID: usize = 9;

fn uuid_of(i: usize) -> Uuid {
    Uuid::from_u128(0xc03c03_0000_0000_0000_0000_0000_0000u128 + i as u128)
}

#[derive(Clone, Debug, PartialEq, Eq)]
enum Life {
    Live,
    Recycled,
    Tombstone,
}

#[derive(Clone, Debug, PartialEq, Eq)]
struct Desc {
    uuid: usize,
    group: bool,
    name: Option<usize>,
    spn: bool,
    gid: Option<usize>,
    ext: Option<usize>,
    dn: Option<usize>,
    members: Vec<usize>,
    life: Life,
}

fn attrs_of(d: &Desc) -> Vec<(Attribute, Vec<Value>)> {
    let mut v = vec![];
    if d.life == Life::Tombstone {
        v.push((Attribute::Class, vec![EntryClass::Object.to_value(), EntryClass::Tombstone.to_value()]));
        v.push((Attribute::Uuid, vec![Value::Uuid(uuid_of(d.uuid))]));
        return v;
    }
    let mut cls = vec![EntryClass::Object.to_value()];
    cls.push(if d.group { EntryClass::Group.to_value() } else { EntryClass::Person.to_value() });
    if d.life == Life::Recycled {
        cls.push(EntryClass::Recycled.to_value());
    }
    v.push((Attribute::Class, cls));
    v.push((Attribute::Uuid, vec![Value::Uuid(uuid_of(d.uuid))]));
    if let Some(n) = d.name {
        v.push((Attribute::Name, vec![Value::new_iname(NAMES[n])]));
        if d.spn {
            v.push((Attribute::Spn, vec![Value::new_spn_str(NAMES[n], "example.com")]));
        }
    }
    if let Some(g) = d.gid {
        v.push((Attribute::GidNumber, vec![Value::new_uint32(GIDS[g])]));
    }
    if let Some(x) = d.ext {
        v.push((Attribute::SyncExternalId, vec![Value::new_iutf8(EXTS[x])]));
    }
    if let Some(x) = d.dn {
        v.push((Attribute::DisplayName, vec![Value::new_utf8s(DNS[x])]));
    }
    if !d.members.is_empty() {
        v.push((Attribute::Member, d.members.iter().map(|m| Value::Refer(uuid_of(*m))).collect()));
    }
    v
}

type Layout = Vec<(Attribute, IndexType)>;

fn layout_pool() -> Layout {
    vec![
        (Attribute::Name, IndexType::Equality),
        (Attribute::Name, IndexType::Presence),
        (Attribute::Name, IndexType::SubString),
        (Attribute::Class, IndexType::Equality),
        (Attribute::Spn, IndexType::Equality),
        (Attribute::GidNumber, IndexType::Equality),
        (Attribute::SyncExternalId, IndexType::Equality),
        (Attribute::Member, IndexType::Equality),
        (Attribute::DisplayName, IndexType::SubString),
        (Attribute::DisplayName, IndexType::Presence),
    ]
}

fn gen_layout(rng: &mut Rng) -> Layout {
    let mut l = vec![(Attribute::Uuid, IndexType::Equality)];
    for p in layout_pool() {
        if rng.chance(3, 5) {
            l.push(p);
        }
    }
    l
}

fn table_name(a: &Attribute, t: IndexType) -> String {
    format!("idx_{}_{}", t.as_idx_str(), a.as_str())
}

/// Interning tables (one number space per kind of string).
struct Tabs {
    key: Intern<String>,
    name: Intern<String>,
    ext: Intern<String>,
    val: Intern<String>,
    uuid: Intern<Uuid>,
}

/// What indexing reads of one stored entry, computed from the entry with the public
/// value-set API (independently of Entry::idx_*_diff).
#[derive(Clone, Debug, PartialEq, Eq)]
struct View {
    id: u64,
    uuid: u64,
    live: bool,
    names: Vec<u64>,
    ext: Option<u64>,
    spn: u64,
    rdn: u64,
    keys: Vec<u64>,
}

fn spn_string(v: &Value) -> String {
    format!("{:?}", v)
}

fn view(e: &EntrySealedCommitted, layout: &Layout, t: &mut Tabs) -> View {
    let mut names = BTreeSet::new();
    for a in [Attribute::Spn, Attribute::Name, Attribute::GidNumber] {
        if let Some(vs) = e.get_ava_set(&a) {
            for s in vs.to_proto_string_clone_iter() {
                names.insert(s);
            }
        }
    }
    let mut names: Vec<u64> = names.iter().map(|s| t.name.id(s)).collect();
    names.sort_unstable();
    let ext = e
        .get_ava_set(&Attribute::SyncExternalId)
        .and_then(|vs| vs.to_proto_string_single())
        .map(|s| t.ext.id(&s));
    let spn_v = e
        .get_ava_set(&Attribute::Spn)
        .and_then(|vs| vs.to_value_single())
        .or_else(|| e.get_ava_set(&Attribute::Name).and_then(|vs| vs.to_value_single()))
        .unwrap_or_else(|| Value::Uuid(e.get_uuid()));
    let rdn_s = e
        .get_ava_set(&Attribute::Spn)
        .and_then(|vs| vs.to_proto_string_single().map(|v| format!("spn={v}")))
        .or_else(|| {
            e.get_ava_set(&Attribute::Name)
                .and_then(|vs| vs.to_proto_string_single().map(|v| format!("name={v}")))
        })
        .unwrap_or_else(|| format!("uuid={}", e.get_uuid().as_hyphenated()));
    let mut keys = vec![];
    for (a, it) in layout {
        if let Some(vs) = e.get_ava_set(a) {
            let ks: Vec<String> = match it {
                IndexType::Equality => vs.generate_idx_eq_keys(),
                IndexType::Presence => vec!["_".to_string()],
                IndexType::SubString => vs.generate_idx_sub_keys(),
                IndexType::Ordering => vs.generate_idx_ord_keys(),
            };
            let tn = table_name(a, *it);
            for k in ks {
                keys.push(t.key.id(&format!("{}|{}", tn, k)));
            }
        }
    }
    keys.sort_unstable();
    View {
        id: e.get_id(),
        uuid: t.uuid.id(&e.get_uuid()),
        // decided from the stored class values, NOT through Entry::mask_recycled_ts (code under test)
        live: !e
            .get_ava_set(&Attribute::Class)
            .map(|vs| vs.to_proto_string_clone_iter().any(|c| c == "recycled" || c == "tombstone"))
            .unwrap_or(false),
        names,
        ext,
        spn: t.val.id(&spn_string(&spn_v)),
        rdn: t.val.id(&rdn_s),
        keys,
    }
}

fn cview(v: &View) -> String {
    capp(
        "mkent",
        &[
            cn(v.id),
            cn(v.uuid),
            cbool(v.live),
            clist(&v.names, |x| cn(*x)),
            copt(&v.ext, |x| cn(*x)),
            cn(v.spn),
            cn(v.rdn),
            clist(&v.keys, |x| cn(*x)),
        ],
    )
}
fn coview(v: &Option<View>) -> String {
    copt(v, cview)
}

#[derive(Clone)]
struct Stored {
    d: Desc,
    e: Arc<EntrySealedCommitted>,
}
type World = BTreeMap<u64, Stored>;

/// names / external ids are unique among live entries, uuids among all entries
fn world_uniq(w: &World) -> bool {
    let mut names = BTreeSet::new();
    let mut gids = BTreeSet::new();
    let mut exts = BTreeSet::new();
    let mut uuids = BTreeSet::new();
    for s in w.values() {
        if !uuids.insert(s.d.uuid) {
            return false;
        }
        if s.d.life != Life::Live {
            continue;
        }
        if let Some(n) = s.d.name {
            if !names.insert(n) {
                return false;
            }
        }
        if let Some(n) = s.d.gid {
            if !gids.insert(n) {
                return false;
            }
        }
        if let Some(n) = s.d.ext {
            if !exts.insert(n) {
                return false;
            }
        }
    }
    true
}

fn free_of(n: usize, used: &BTreeSet<usize>, rng: &mut Rng) -> Option<usize> {
    let free: Vec<usize> = (0..n).filter(|i| !used.contains(i)).collect();
    if free.is_empty() {
        None
    } else {
        Some(*rng.pick(&free))
    }
}

fn used_names(w: &World) -> BTreeSet<usize> {
    w.values().filter(|s| s.d.life == Life::Live).filter_map(|s| s.d.name).collect()
}
fn used_gids(w: &World) -> BTreeSet<usize> {
    w.values().filter(|s| s.d.life == Life::Live).filter_map(|s| s.d.gid).collect()
}
fn used_exts(w: &World) -> BTreeSet<usize> {
    w.values().filter(|s| s.d.life == Life::Live).filter_map(|s| s.d.ext).collect()
}
fn used_uuids(w: &World) -> BTreeSet<usize> {
    w.values().map(|s| s.d.uuid).collect()
}

fn gen_desc(w: &World, extra_used: &[Desc], rng: &mut Rng) -> Option<Desc> {
    let mut un = used_names(w);
    let mut ug = used_gids(w);
    let mut ux = used_exts(w);
    let mut uu = used_uuids(w);
    for d in extra_used {
        if let Some(n) = d.name { un.insert(n); }
        if let Some(n) = d.gid { ug.insert(n); }
        if let Some(n) = d.ext { ux.insert(n); }
        uu.insert(d.uuid);
    }
    let uuid = free_of(NUUID, &uu, rng)?;
    let group = rng.chance(1, 2);
    let name = if rng.chance(9, 10) { free_of(NAMES.len(), &un, rng) } else { None };
    let members = if group && rng.chance(1, 2) {
        let mut m: Vec<usize> = (0..NUUID).filter(|_| rng.chance(1, 4)).collect();
        m.dedup();
        m
    } else {
        vec![]
    };
    Some(Desc {
        uuid,
        group,
        name,
        spn: rng.chance(2, 3),
        gid: if rng.chance(1, 3) { free_of(GIDS.len(), &ug, rng) } else { None },
        ext: if rng.chance(1, 3) { free_of(EXTS.len(), &ux, rng) } else { None },
        dn: if rng.chance(1, 2) { Some(rng.below(DNS.len() as u64) as usize) } else { None },
        members,
        life: Life::Live,
    })
}

/// One mutation of a stored entry's description.
fn mutate(d: &Desc, w: &World, rng: &mut Rng) -> Desc {
    let mut n = d.clone();
    if d.life == Life::Tombstone {
        return n;
    }
    match rng.below(12) {
        0 | 1 | 2 => {
            // rename to any name (uniqueness of the batch result is checked by the caller)
            n.name = Some(rng.below(NAMES.len() as u64) as usize);
        }
        3 => n.life = if d.life == Life::Live { Life::Recycled } else { Life::Live },
        4 => n.gid = if d.gid.is_some() && rng.chance(1, 2) { None } else { Some(rng.below(GIDS.len() as u64) as usize) },
        5 => n.ext = if d.ext.is_some() && rng.chance(1, 2) { None } else { Some(rng.below(EXTS.len() as u64) as usize) },
        // (spn/name are never taken away: Value::eq debug-asserts on Spn->Iname / Iname->Uuid)
        6 => n.spn = true,
        7 => n.dn = if rng.chance(1, 3) { None } else { Some(rng.below(DNS.len() as u64) as usize) },
        8 => {
            if d.group {
                n.members = (0..NUUID).filter(|_| rng.chance(1, 3)).collect();
            } else {
                n.dn = Some(rng.below(DNS.len() as u64) as usize);
            }
        }
        9 => {
            // uuid change (replication conflict resolution gives the loser a new uuid)
            let uu = used_uuids(w);
            if let Some(u) = free_of(NUUID, &uu, rng) {
                n.uuid = u;
            }
        }
        10 => n.life = Life::Tombstone,
        _ => {
            n.name = Some(rng.below(NAMES.len() as u64) as usize);
            n.life = Life::Live;
        }
    }
    n
}

#[derive(Clone, Debug)]
enum Lk {
    N2U(usize),
    G2U(usize),
    S2U(usize),
    X2U(usize),
    U2S(usize),
    U2R(usize),
}

struct Hist {
    be: Backend,
    layout: Layout,
    world: World,
    tabs: Tabs,
    s_uuid: Uuid,
    txn_no: u64,
}

fn ids_of(v: &[u64]) -> String {
    clist(v, |x| cn(*x))
}

fn cpairs(v: &[(u64, u64)]) -> String {
    clist(v, |p| cpair(&cn(p.0), &cn(p.1)))
}

/// Raw dump + coherence of the cached read paths, in a throw-away write transaction.
fn dump(h: &mut Hist, txt: &mut String, panicked: bool) -> String {
    let mut wr = h.be.write().expect("write");
    let raw = hk::raw_dump(&mut wr).expect("raw dump");
    // an implementation panic inside the transaction is recorded as an incoherent outcome
    let mut coh = !panicked;
    // index tables
    let mut idx: Vec<(u64, Vec<u64>)> = vec![];
    let mut rawmap: BTreeMap<String, Vec<u64>> = BTreeMap::new();
    let mut tables = BTreeSet::new();
    for (t, rows) in &raw.idx {
        tables.insert(t.clone());
        for (k, ids) in rows {
            let ks = format!("{}|{}", t, k);
            rawmap.insert(ks.clone(), ids.clone());
            idx.push((h.tabs.key.id(&ks), ids.clone()));
        }
    }
    idx.sort();
    // expected tables = layout
    let want: BTreeSet<String> = h.layout.iter().map(|(a, t)| table_name(a, *t)).collect();
    if want != tables {
        coh = false;
        txt.push_str(&format!(" TABLES {:?} != {:?}", tables, want));
    }
    // cached idl reads for every key ever seen that belongs to a current table
    let known_keys: Vec<String> = h.tabs.key.keys();
    for ks in known_keys {
        let (tn, k) = ks.split_once('|').expect("key");
        if let Some((a, it)) = h.layout.iter().find(|(a, t)| table_name(a, *t) == tn) {
            let c = hk::cached_idl(&mut wr, a, *it, k).expect("cached idl");
            let r = rawmap.get(&ks).cloned().unwrap_or_default();
            if c != Some(r.clone()) {
                coh = false;
                txt.push_str(&format!(" INCOHERENT idl {} cached={:?} raw={:?}", ks, c, r));
            }
        }
    }
    let mut n2u: Vec<(u64, u64)> = vec![];
    let mut rawn: BTreeMap<String, Uuid> = BTreeMap::new();
    for (n, u) in &raw.name2uuid {
        let uu = Uuid::parse_str(u).expect("uuid");
        rawn.insert(n.clone(), uu);
        n2u.push((h.tabs.name.id(n), h.tabs.uuid.id(&uu)));
    }
    n2u.sort();
    for n in h.tabs.name.keys() {
        let c = hk::name2uuid(&mut wr, &n).expect("n2u");
        if c != rawn.get(&n).copied() {
            coh = false;
            txt.push_str(&format!(" INCOHERENT name2uuid {} cached={:?} raw={:?}", n, c, rawn.get(&n)));
        }
    }
    let mut x2u: Vec<(u64, u64)> = vec![];
    let mut rawx: BTreeMap<String, Uuid> = BTreeMap::new();
    for (n, u) in &raw.externalid2uuid {
        let uu = Uuid::parse_str(u).expect("uuid");
        rawx.insert(n.clone(), uu);
        x2u.push((h.tabs.ext.id(n), h.tabs.uuid.id(&uu)));
    }
    x2u.sort();
    for n in h.tabs.ext.keys() {
        let c = hk::externalid2uuid(&mut wr, &n).expect("x2u");
        if c != rawx.get(&n).copied() {
            coh = false;
            txt.push_str(&format!(" INCOHERENT externalid2uuid {} cached={:?} raw={:?}", n, c, rawx.get(&n)));
        }
    }
    let mut u2s: Vec<(u64, u64)> = vec![];
    let mut raws: BTreeMap<Uuid, String> = BTreeMap::new();
    for (u, v) in &raw.uuid2spn {
        let uu = Uuid::parse_str(u).expect("uuid");
        let s = v.as_ref().map(spn_string).unwrap_or_else(|| "<undecodable>".into());
        raws.insert(uu, s.clone());
        u2s.push((h.tabs.uuid.id(&uu), h.tabs.val.id(&s)));
    }
    u2s.sort();
    let mut u2r: Vec<(u64, u64)> = vec![];
    let mut rawr: BTreeMap<Uuid, String> = BTreeMap::new();
    for (u, v) in &raw.uuid2rdn {
        let uu = Uuid::parse_str(u).expect("uuid");
        rawr.insert(uu, v.clone());
        u2r.push((h.tabs.uuid.id(&uu), h.tabs.val.id(v)));
    }
    u2r.sort();
    for uu in h.tabs.uuid.keys() {
        let c = hk::uuid2spn(&mut wr, uu).expect("u2s").map(|v| spn_string(&v));
        if c != raws.get(&uu).cloned() {
            coh = false;
            txt.push_str(&format!(" INCOHERENT uuid2spn {} cached={:?} raw={:?}", uu, c, raws.get(&uu)));
        }
        let c = hk::uuid2rdn(&mut wr, uu).expect("u2r");
        if c != rawr.get(&uu).cloned() {
            coh = false;
            txt.push_str(&format!(" INCOHERENT uuid2rdn {} cached={:?} raw={:?}", uu, c, rawr.get(&uu)));
        }
    }
    // stored entries
    let mut es = hk::all_entries(&mut wr).expect("entries");
    es.sort_by_key(|e| e.get_id());
    let layout = h.layout.clone();
    let views: Vec<View> = es.iter().map(|e| view(e, &layout, &mut h.tabs)).collect();
    // the harness's own book-keeping must match what is stored
    let mine: Vec<u64> = h.world.keys().copied().collect();
    let theirs: Vec<u64> = es.iter().map(|e| e.get_id()).collect();
    if mine != theirs {
        coh = false;
        txt.push_str(&format!(" STORED ids {:?} != expected {:?}", theirs, mine));
    }
    drop(wr);
    txt.push_str(&format!(
        " => dump ents={} idxrows={} n2u={} x2u={} u2s={} u2r={} coh={}",
        views.len(),
        idx.len(),
        n2u.len(),
        x2u.len(),
        u2s.len(),
        u2r.len(),
        coh
    ));
    capp(
        "mkdump",
        &[
            clist(&views, cview),
            clist(&idx, |p| cpair(&cn(p.0), &ids_of(&p.1))),
            cpairs(&n2u),
            cpairs(&x2u),
            cpairs(&u2s),
            cpairs(&u2r),
            cbool(coh),
        ],
    )
}


/// Intern with remembered insertion order (kvh::Intern does not expose its keys).
#[derive(Default)]
struct InternX<K: Ord + Clone> {
    map: BTreeMap<K, u64>,
    order: Vec<K>,
}
impl<K: Ord + Clone> InternX<K> {
    fn id(&mut self, k: &K) -> u64 {
        if let Some(v) = self.map.get(k) {
            return *v;
        }
        let n = self.order.len() as u64;
        self.map.insert(k.clone(), n);
        self.order.push(k.clone());
        n
    }
    fn keys(&self) -> Vec<K> {
        self.order.clone()
    }
}
type Intern<K> = InternX<K>;

struct TxnOut {
    ops: Vec<String>,
    ok: bool,
    flags: BTreeSet<&'static str>,
}

fn build(d: &Desc, cid: &Cid, id: u64) -> EntrySealedCommitted {
    hk::build_committed(uuid_of(d.uuid), attrs_of(d), cid, id).expect("build")
}

/// Run one transaction's API calls on `wr`; returns the op list for the model.
#[allow(clippy::too_many_arguments)]
fn run_txn(
    wr: &mut BackendWriteTransaction<'_>,
    world: &mut World,
    layout: &mut Layout,
    tabs: &mut Tabs,
    cid: &Cid,
    rng: &mut Rng,
    ncalls: usize,
    txt: &mut String,
    first: bool,
    clean: bool,
) -> TxnOut {
    let mut out = TxnOut { ops: vec![], ok: true, flags: BTreeSet::new() };
    // in a clean history nothing may trigger the two known-finding classes: batches keep the
    // entries unique after every single entry, and no lookup follows a removal in the same txn
    let mut removed_something = false;
    for call in 0..ncalls {
        let k = if first && call == 0 { 100 } else { rng.below(100) };
        if k >= 94 {
            // update_idxmeta + reindex
            if !(first && call == 0) {
                *layout = gen_layout(rng);
            }
            let r = wr
                .update_idxmeta(hk::idxkeys(layout.clone()))
                .and_then(|()| wr.reindex(false));
            let views: Vec<View> = world.values().map(|s| view(&s.e, layout, tabs)).collect();
            out.ops.push(capp("OReindex", &[clist(&views, cview)]));
            txt.push_str(&format!(" reindex[{}]", layout.len()));
            out.flags.insert("reindex");
            if r.is_err() {
                out.ok = false;
                txt.push_str(&format!("=ERR{:?}", r));
                return out;
            }
        } else if k < 22 {
            // create 1..2 entries
            let n = rng.range(1, 2) as usize;
            let mut ds: Vec<Desc> = vec![];
            for _ in 0..n {
                if let Some(d) = gen_desc(world, &ds, rng) {
                    ds.push(d);
                }
            }
            if ds.is_empty() {
                continue;
            }
            let news = ds
                .iter()
                .map(|d| hk::build_new(uuid_of(d.uuid), attrs_of(d), cid).expect("build"))
                .collect();
            match wr.create(cid, news) {
                Ok(ces) => {
                    let mut puts = vec![];
                    let mut idxs = vec![];
                    for (d, e) in ds.iter().zip(ces.into_iter()) {
                        let v = view(&e, layout, tabs);
                        puts.push(capp("OPut", &[cview(&v)]));
                        idxs.push(capp("OIdx", &["None".into(), coview(&Some(v))]));
                        txt.push_str(&format!(" create#{}:{:?}", e.get_id(), d));
                        world.insert(e.get_id(), Stored { d: d.clone(), e: Arc::new(e) });
                    }
                    out.ops.extend(puts);
                    out.ops.extend(idxs);
                    out.flags.insert("create");
                }
                Err(e) => {
                    out.ok = false;
                    txt.push_str(&format!(" create=ERR{:?}", e));
                    return out;
                }
            }
        } else if k < 62 {
            // modify / incremental_apply a batch
            let cand: Vec<u64> = world.iter().filter(|(_, s)| s.d.life != Life::Tombstone).map(|(i, _)| *i).collect();
            if cand.is_empty() {
                continue;
            }
            let mut ids = cand.clone();
            rng.shuffle(&mut ids);
            ids.truncate(rng.range(1, 3) as usize);
            let mut posts: Vec<(u64, Desc)> = vec![];
            let shape = if clean { 9 } else { rng.below(10) };
            if shape < 2 && ids.len() >= 2 {
                // swap the names (and external ids) of two live entries in one batch
                let (a, b) = (ids[0], ids[1]);
                let (da, db) = (world[&a].d.clone(), world[&b].d.clone());
                let mut na = da.clone();
                let mut nb = db.clone();
                na.name = db.name;
                nb.name = da.name;
                if rng.chance(1, 2) {
                    na.ext = db.ext;
                    nb.ext = da.ext;
                }
                posts.push((a, na));
                posts.push((b, nb));
                out.flags.insert("swap");
            } else if shape < 4 && ids.len() >= 2 {
                // chain: b takes a's name, a takes a fresh one; order of the batch is random
                let (a, b) = (ids[0], ids[1]);
                let (da, db) = (world[&a].d.clone(), world[&b].d.clone());
                let mut na = da.clone();
                let mut nb = db.clone();
                nb.name = da.name;
                na.name = free_of(NAMES.len(), &used_names(world), rng);
                if rng.chance(1, 2) {
                    posts.push((b, nb));
                    posts.push((a, na));
                } else {
                    posts.push((a, na));
                    posts.push((b, nb));
                }
                out.flags.insert("chain");
            } else {
                for i in &ids {
                    let d = mutate(&world[i].d, world, rng);
                    posts.push((*i, d));
                }
            }
            // result must satisfy what attrunique guarantees
            let mut w2 = world.clone();
            for (i, d) in &posts {
                if let Some(s) = w2.get_mut(i) {
                    s.d = d.clone();
                }
            }
            let rank = |d: &Desc| if d.name.is_some() { if d.spn { 2 } else { 1 } } else { 0 };
            // Value::eq debug-asserts on Spn->Iname / Iname->Uuid / Spn->Uuid comparisons
            // (unreachable under the schema: name and spn are never taken away), so never generate them
            let downgrade = posts.iter().any(|(i, d)| d.life != Life::Tombstone && rank(d) < rank(&world[i].d));
            if downgrade || !world_uniq(&w2) || posts.iter().all(|(i, d)| world[i].d == *d) {
                continue;
            }
            if clean {
                let mut w3 = world.clone();
                let mut ok_seq = true;
                for (i, d) in &posts {
                    if let Some(s) = w3.get_mut(i) {
                        s.d = d.clone();
                    }
                    ok_seq &= world_uniq(&w3);
                }
                if !ok_seq {
                    continue;
                }
            }
            removed_something = true;
            let pre: Vec<Arc<EntrySealedCommitted>> = posts.iter().map(|(i, _)| world[i].e.clone()).collect();
            let post: Vec<EntrySealedCommitted> = posts.iter().map(|(i, d)| build(d, cid, *i)).collect();
            let via_repl = rng.chance(1, 4);
            let r = if via_repl {
                let ups: Vec<(EntrySealedCommitted, Arc<EntrySealedCommitted>)> =
                    post.iter().cloned().zip(pre.iter().cloned()).collect();
                wr.incremental_apply(&ups, vec![])
            } else {
                wr.modify(cid, &pre, &post)
            };
            let mut puts = vec![];
            let mut idxs = vec![];
            for ((i, d), (p, q)) in posts.iter().zip(pre.iter().zip(post.iter())) {
                let vp = view(p, layout, tabs);
                let vq = view(q, layout, tabs);
                if vp.uuid != vq.uuid {
                    out.flags.insert("uuid_change");
                }
                if vp.live != vq.live {
                    out.flags.insert(if vq.live { "revive" } else { "recycle" });
                }
                if vp.names != vq.names {
                    out.flags.insert("rename");
                }
                puts.push(capp("OPut", &[cview(&vq)]));
                idxs.push(capp("OIdx", &[coview(&Some(vp)), coview(&Some(vq))]));
                txt.push_str(&format!(" {}#{}:{:?}", if via_repl { "incapply" } else { "modify" }, i, d));
            }
            out.ops.extend(puts);
            out.ops.extend(idxs);
            out.flags.insert(if via_repl { "incremental_apply" } else { "modify" });
            match r {
                Ok(()) => {
                    for ((i, d), q) in posts.iter().zip(post.into_iter()) {
                        world.insert(*i, Stored { d: d.clone(), e: Arc::new(q) });
                    }
                }
                Err(e) => {
                    out.ok = false;
                    out.flags.insert("op_error");
                    txt.push_str(&format!("=ERR{:?}", e));
                    return out;
                }
            }
        } else if k < 70 {
            // purge: tombstones preferably, sometimes anything
            let mut cand: Vec<u64> = world.iter().filter(|(_, s)| s.d.life == Life::Tombstone).map(|(i, _)| *i).collect();
            if cand.is_empty() || rng.chance(1, 5) {
                cand = world.keys().copied().collect();
            }
            if cand.is_empty() {
                continue;
            }
            let i = *rng.pick(&cand);
            let e = world[&i].e.clone();
            let v = view(&e, layout, tabs);
            removed_something = true;
            out.ops.push(capp("ODel", &[cn(i)]));
            out.ops.push(capp("OIdx", &[coview(&Some(v)), "None".into()]));
            txt.push_str(&format!(" purge#{}", i));
            out.flags.insert("purge");
            match hk::purge(wr, &[e]) {
                Ok(()) => {
                    world.remove(&i);
                }
                Err(e) => {
                    out.ok = false;
                    txt.push_str(&format!("=ERR{:?}", e));
                    return out;
                }
            }
        } else {
            // 1..3 lookups through the cached read path of the write transaction
            if clean && removed_something {
                continue;
            }
            for _ in 0..rng.range(1, 3) {
                let lk = match rng.below(8) {
                    0 | 1 | 2 => Lk::N2U(rng.below(NAMES.len() as u64) as usize),
                    3 => Lk::S2U(rng.below(NAMES.len() as u64) as usize),
                    4 => Lk::G2U(rng.below(GIDS.len() as u64) as usize),
                    5 => Lk::X2U(rng.below(EXTS.len() as u64) as usize),
                    6 => Lk::U2S(rng.below(NUUID as u64) as usize),
                    _ => Lk::U2R(rng.below(NUUID as u64) as usize),
                };
                let (t, key, res): (&str, u64, Option<u64>) = match &lk {
                    Lk::N2U(n) => {
                        let s = NAMES[*n].to_string();
                        let r = hk::name2uuid(wr, &s).expect("n2u");
                        ("TN2U", tabs.name.id(&s), r.map(|u| tabs.uuid.id(&u)))
                    }
                    Lk::S2U(n) => {
                        let s = format!("{}@example.com", NAMES[*n]);
                        let r = hk::name2uuid(wr, &s).expect("n2u");
                        ("TN2U", tabs.name.id(&s), r.map(|u| tabs.uuid.id(&u)))
                    }
                    Lk::G2U(n) => {
                        let s = format!("{}", GIDS[*n]);
                        let r = hk::name2uuid(wr, &s).expect("n2u");
                        ("TN2U", tabs.name.id(&s), r.map(|u| tabs.uuid.id(&u)))
                    }
                    Lk::X2U(n) => {
                        let s = EXTS[*n].to_string();
                        let r = hk::externalid2uuid(wr, &s).expect("x2u");
                        ("TX2U", tabs.ext.id(&s), r.map(|u| tabs.uuid.id(&u)))
                    }
                    Lk::U2S(u) => {
                        let uu = uuid_of(*u);
                        let r = hk::uuid2spn(wr, uu).expect("u2s");
                        ("TU2S", tabs.uuid.id(&uu), r.map(|v| tabs.val.id(&spn_string(&v))))
                    }
                    Lk::U2R(u) => {
                        let uu = uuid_of(*u);
                        let r = hk::uuid2rdn(wr, uu).expect("u2r");
                        ("TU2R", tabs.uuid.id(&uu), r.map(|v| tabs.val.id(&v)))
                    }
                };
                out.ops.push(capp("OLook", &[t.into(), cn(key), copt(&res, |x| cn(*x))]));
                txt.push_str(&format!(" look{:?}={:?}", lk, res));
                out.flags.insert("lookup");
            }
        }
    }
    out
}

/// Scripted operations for the deterministic confirmation cases.
enum SOp {
    Reindex,
    Create(Vec<Desc>),
    /// (index of the entry in creation order, new description), via incremental_apply?
    Modify(Vec<(usize, Desc)>, bool),
    LookName(usize),
}

fn person(uuid: usize, name: usize) -> Desc {
    Desc { uuid, group: false, name: Some(name), spn: false, gid: None, ext: None, dn: None, members: vec![], life: Life::Live }
}

/// Runs a fixed list of transactions (all committed) on a fresh backend and emits it as a case.
fn scripted(sink: &mut Sink, name: &str, txns: Vec<Vec<SOp>>) {
    let layout: Layout = {
        let mut l = vec![(Attribute::Uuid, IndexType::Equality)];
        l.extend(layout_pool());
        l
    };
    let cfg = BackendConfig::new(None, 1, FsType::Generic, Some(2048));
    let be = Backend::new(cfg, hk::idxkeys(layout.clone()), false).expect("backend");
    let mut h = Hist {
        be,
        layout,
        world: World::new(),
        tabs: Tabs { key: Intern::default(), name: Intern::default(), ext: Intern::default(), val: Intern::default(), uuid: Intern::default() },
        s_uuid: Uuid::from_u128(0x5e5e),
        txn_no: 0,
    };
    let mut created: Vec<u64> = vec![];
    let mut out_txns = vec![];
    let mut txt = format!("scripted {}:", name);
    for (t, ops) in txns.iter().enumerate() {
        h.txn_no += 1;
        let cid = Cid { ts: Duration::from_secs(1000 + h.txn_no), s_uuid: h.s_uuid };
        txt.push_str(&format!(" | T{}", t));
        let mut mops: Vec<String> = vec![];
        {
            let mut wr = h.be.write().expect("write");
            for op in ops {
                match op {
                    SOp::Reindex => {
                        wr.update_idxmeta(hk::idxkeys(h.layout.clone())).and_then(|()| wr.reindex(false)).expect("reindex");
                        let views: Vec<View> = h.world.values().map(|s| view(&s.e, &h.layout, &mut h.tabs)).collect();
                        mops.push(capp("OReindex", &[clist(&views, cview)]));
                        txt.push_str(" reindex");
                    }
                    SOp::Create(ds) => {
                        let news = ds.iter().map(|d| hk::build_new(uuid_of(d.uuid), attrs_of(d), &cid).expect("build")).collect();
                        let ces = wr.create(&cid, news).expect("create");
                        let mut puts = vec![];
                        let mut idxs = vec![];
                        for (d, e) in ds.iter().zip(ces.into_iter()) {
                            let v = view(&e, &h.layout, &mut h.tabs);
                            puts.push(capp("OPut", &[cview(&v)]));
                            idxs.push(capp("OIdx", &["None".into(), coview(&Some(v))]));
                            txt.push_str(&format!(" create#{}:{}", e.get_id(), NAMES[d.name.unwrap_or(0)]));
                            created.push(e.get_id());
                            h.world.insert(e.get_id(), Stored { d: d.clone(), e: Arc::new(e) });
                        }
                        mops.extend(puts);
                        mops.extend(idxs);
                    }
                    SOp::Modify(posts, via_repl) => {
                        let posts: Vec<(u64, Desc)> = posts.iter().map(|(i, d)| (created[*i], d.clone())).collect();
                        let pre: Vec<Arc<EntrySealedCommitted>> = posts.iter().map(|(i, _)| h.world[i].e.clone()).collect();
                        let post: Vec<EntrySealedCommitted> = posts.iter().map(|(i, d)| build(d, &cid, *i)).collect();
                        if *via_repl {
                            let ups: Vec<(EntrySealedCommitted, Arc<EntrySealedCommitted>)> = post.iter().cloned().zip(pre.iter().cloned()).collect();
                            wr.incremental_apply(&ups, vec![]).expect("incremental_apply");
                        } else {
                            wr.modify(&cid, &pre, &post).expect("modify");
                        }
                        let mut puts = vec![];
                        let mut idxs = vec![];
                        for ((i, d), (p, q)) in posts.iter().zip(pre.iter().zip(post.iter())) {
                            let vp = view(p, &h.layout, &mut h.tabs);
                            let vq = view(q, &h.layout, &mut h.tabs);
                            puts.push(capp("OPut", &[cview(&vq)]));
                            idxs.push(capp("OIdx", &[coview(&Some(vp)), coview(&Some(vq))]));
                            txt.push_str(&format!(" {}#{}:name={}", if *via_repl { "incapply" } else { "modify" }, i, NAMES[d.name.unwrap_or(0)]));
                        }
                        mops.extend(puts);
                        mops.extend(idxs);
                        for ((i, d), q) in posts.iter().zip(post.into_iter()) {
                            h.world.insert(*i, Stored { d: d.clone(), e: Arc::new(q) });
                        }
                    }
                    SOp::LookName(n) => {
                        let sname = NAMES[*n].to_string();
                        let r = hk::name2uuid(&mut wr, &sname).expect("n2u");
                        let res = r.map(|u| h.tabs.uuid.id(&u));
                        mops.push(capp("OLook", &["TN2U".into(), cn(h.tabs.name.id(&sname)), copt(&res, |x| cn(*x))]));
                        txt.push_str(&format!(" name2uuid({})={:?}", sname, r));
                    }
                }
            }
            wr.commit().expect("commit");
            txt.push_str(" COMMIT");
        }
        let d = dump(&mut h, &mut txt, false);
        // spell the name table out in the readable line
        {
            let mut wr = h.be.write().expect("write");
            let raw = hk::raw_dump(&mut wr).expect("raw");
            txt.push_str(&format!(" name2uuid-table={:?}", raw.name2uuid.iter().map(|(n, _)| n.as_str()).collect::<Vec<_>>()));
        }
        out_txns.push(capp("Txn", &[clist_s(&mops), cbool(true), cbool(true), d]));
    }
    sink.bump("scripted_case");
    sink.case(capp("CHist", &[clist_s(&out_txns)]), txt, true);
}

/// Server-level confirmation: the same two defects through a real QueryServer.
fn server_probes(sink: &mut Sink) {
    use kanidmd_lib::entry::{Entry, EntryInit, EntryNew};
    use kanidmd_lib::modify::ModifyList;
    use kanidmd_lib::testkit::{setup_test, TestConfiguration};
    let rt = tokio::runtime::Builder::new_current_thread().enable_all().build().expect("rt");
    let mk = |name: &str, u: Uuid| -> Entry<EntryInit, EntryNew> {
        kanidmd_lib::entry_init!(
            (Attribute::Class, EntryClass::Object.to_value()),
            (Attribute::Class, EntryClass::Group.to_value()),
            (Attribute::Name, Value::new_iname(name)),
            (Attribute::Uuid, Value::Uuid(u))
        )
    };
    let ua = Uuid::from_u128(0xc03_a000_0000_0000_0000_0000_0000_0001u128);
    let ub = Uuid::from_u128(0xc03_a000_0000_0000_0000_0000_0000_0002u128);
    let idn = |u: Option<Uuid>| -> Option<u64> { u.map(|x| if x == ua { 1 } else if x == ub { 2 } else { 99 }) };
    let mut cases: Vec<(String, String)> = vec![];
    let r2 = std::panic::catch_unwind(std::panic::AssertUnwindSafe(|| -> (String, String) {
    // kind 2: chained renames on a supplier (two committed transactions), applied on the consumer by ONE
    // incremental replication run.  Two pairs with opposite uuid order so that one of them is applied
    // "taker first".
    {
        use kanidmd_lib::testkit::setup_pair_test;
        let (sa, sb) = rt.block_on(setup_pair_test(TestConfiguration::default()));
        let mut t = duration_from_epoch_now() + Duration::from_secs(60);
        {
            let mut w = rt.block_on(sb.write(t)).expect("write");
            let mut r = rt.block_on(sa.read()).expect("read");
            let ctx = r.supplier_provide_refresh().expect("refresh ctx");
            w.consumer_apply_refresh(ctx).expect("refresh");
            drop(r);
            w.commit().expect("commit");
        }
        let us: Vec<Uuid> = (1..=4).map(|i| Uuid::from_u128(0xc03_b000_0000_0000_0000_0000_0000_0000u128 + i)).collect();
        let repl = |t: Duration| {
            let mut w = rt.block_on(sb.write(t)).expect("write");
            let mut r = rt.block_on(sa.read()).expect("read");
            let range = w.consumer_get_state().expect("state");
            let changes = r.supplier_provide_changes(range).expect("changes");
            let res = w.consumer_apply_changes(changes).map(|_| ());
            drop(r);
            res.and_then(|()| w.commit())
        };
        t += Duration::from_secs(2);
        {
            let mut w = rt.block_on(sa.write(t)).expect("write");
            w.internal_create(vec![mk("c03rx", us[0]), mk("c03ry", us[1]), mk("c03rp", us[2]), mk("c03rq", us[3])]).expect("create");
            w.commit().expect("commit");
        }
        t += Duration::from_secs(2);
        let r0 = repl(t);
        for (u, n) in [(us[0], "c03rza"), (us[1], "c03rx"), (us[3], "c03rzb"), (us[2], "c03rq")] {
            t += Duration::from_secs(2);
            let mut w = rt.block_on(sa.write(t)).expect("write");
            w.internal_modify_uuid(u, &ModifyList::new_purge_and_set(Attribute::Name, Value::new_iname(n))).expect("rename");
            w.commit().expect("commit");
        }
        t += Duration::from_secs(2);
        let r1 = repl(t);
        t += Duration::from_secs(2);
        let mut wr = rt.block_on(sb.write(t)).expect("write");
        let idb = |u: Option<Uuid>| -> Option<u64> { u.map(|x| us.iter().position(|y| *y == x).map(|p| p as u64 + 1).unwrap_or(99)) };
        let names = ["c03rx", "c03rq", "c03rza", "c03rzb", "c03ry", "c03rp"];
        let mut exp = vec![];
        let mut obs = vec![];
        for n in names {
            let sc = wr
                .internal_search(kanidmd_lib::filter!(f_eq(Attribute::Name, PartialValue::new_iname(n))))
                .ok()
                .and_then(|v| v.first().map(|e| e.get_uuid()));
            exp.push(idb(sc));
            obs.push(idb(wr.name_to_uuid(n).ok()));
        }
        drop(wr);
        let verify = rt.block_on(sb.verify());
        let txt = format!(
            "server replication-chain: supplier renames g1 c03rx->c03rza, g2 c03ry->c03rx, g4 c03rq->c03rzb, g3 c03rp->c03rq in 4 txns; one incremental run (first={:?} second={:?}); consumer scan{:?}={:?} name_to_uuid={:?} consumer verify_errors={}",
            r0, r1, names, exp, obs, verify.len()
        );
        (capp("CSrv", &[cn(2), clist(&exp, |x| copt(x, |v| cn(*v))), clist(&obs, |x| copt(x, |v| cn(*v)))]), txt)
    }
    }));
    cases.push(r2.unwrap_or_else(|_| (capp("CSrv", &[cn(0), "[None]".into(), "[]".into()]), "server replication-chain: PROBE PANICKED (an operation the unmodified server accepts was rejected)".into())));
    let r1 = std::panic::catch_unwind(std::panic::AssertUnwindSafe(|| -> (String, String) {
    // kind 1: rename, then resolve the OLD name inside the same write transaction, commit
    {
        let qs = rt.block_on(setup_test(TestConfiguration::default()));
        let mut wr = rt.block_on(qs.write(duration_from_epoch_now())).expect("write");
        wr.internal_create(vec![mk("c03olda", ua)]).expect("create");
        wr.commit().expect("commit");
        let mut wr = rt.block_on(qs.write(duration_from_epoch_now())).expect("write");
        wr.internal_modify_uuid(ua, &ModifyList::new_purge_and_set(Attribute::Name, Value::new_iname("c03newa")))
            .expect("rename");
        let in_txn = idn(wr.name_to_uuid("c03olda").ok());
        wr.commit().expect("commit");
        let mut wr = rt.block_on(qs.write(duration_from_epoch_now())).expect("write");
        let exp = vec![None, None, Some(1)];
        let obs = vec![in_txn, idn(wr.name_to_uuid("c03olda").ok()), idn(wr.name_to_uuid("c03newa").ok())];
        drop(wr);
        let verify = rt.block_on(qs.verify());
        let txt = format!(
            "server stale-lookup: rename c03olda->c03newa; name_to_uuid(c03olda) in the same txn, after commit, name_to_uuid(c03newa): expected {:?} observed {:?} verify_errors={}",
            exp, obs, verify.len()
        );
        (capp("CSrv", &[cn(1), clist(&exp, |x| copt(x, |v| cn(*v))), clist(&obs, |x| copt(x, |v| cn(*v)))]), txt)
    }
    }));
    cases.push(r1.unwrap_or_else(|_| (capp("CSrv", &[cn(0), "[None]".into(), "[]".into()]), "server stale-lookup: PROBE PANICKED (an operation the unmodified server accepts was rejected)".into())));
    for (c, t) in cases {
        sink.bump("server_probe");
        sink.case(c, t, true);
    }
}

fn main() {
    let args = parse_args();
    let mut rng = Rng::new(args.seed);
    let mut sink = Sink::new(&args, "KV.C03.Model", 3);
    sink.rule = "random histories of write transactions on a real in-memory kanidm Backend (SQLite + ARC caches): each \
transaction = 1..4 backend calls (create, modify / incremental_apply batches with renames, name swaps and chains, \
recycle / revive / tombstone, uuid change, purge, update_idxmeta + reindex, in-transaction name/spn/rdn/external-id lookups), \
then commit (85%) or abort; population <= 9 uuids, 7 names, 3 gids, 3 external ids, random index layout over 11 (attr, type) \
pairs; raw SQLite tables dumped after every transaction. 3 of 4 histories are 'clean' (batches keep the entries unique after every single entry and no lookup follows a removal in the same transaction, so the known-finding classes K1/K2 cannot fire and any failure is a fresh violation), 1 of 4 is unrestricted (swaps, rename chains, stale lookups); plus 4 scripted backend cases and 2 scripted QueryServer probes (replication rename chain, stale lookup) that confirm the two defect classes deterministically. non-trivial = the history commits a rename or swap AND a \
recycle/revive/purge/uuid change AND contains a reindex after the first transaction or an abort".into();

    server_probes(&mut sink);
    // deterministic confirmations of the two defect classes on the real backend
    scripted(&mut sink, "swap-in-one-modify", vec![
        vec![SOp::Reindex],
        vec![SOp::Create(vec![person(0, 0), person(1, 2)])],
        vec![SOp::Modify(vec![(0, person(0, 2)), (1, person(1, 0))], false)],
    ]);
    scripted(&mut sink, "rename-chain-in-one-incremental-apply", vec![
        vec![SOp::Reindex],
        vec![SOp::Create(vec![person(0, 0), person(1, 2)])],
        vec![SOp::Modify(vec![(1, person(1, 0)), (0, person(0, 3))], true)],
    ]);
    scripted(&mut sink, "lookup-after-rename-in-same-txn", vec![
        vec![SOp::Reindex],
        vec![SOp::Create(vec![person(0, 0)])],
        vec![SOp::Modify(vec![(0, person(0, 3))], false), SOp::LookName(0)],
    ]);
    scripted(&mut sink, "control-sequential-renames", vec![
        vec![SOp::Reindex],
        vec![SOp::Create(vec![person(0, 0), person(1, 2)])],
        vec![SOp::Modify(vec![(0, person(0, 3))], false), SOp::Modify(vec![(1, person(1, 0))], false), SOp::LookName(3)],
    ]);

    let n_hist = if args.thorough { 400 } else { 36 };
    for hid in 0..n_hist {
        let mut hr = rng.fork();
        let rng = &mut hr;
        // 3 of 4 histories are clean (cannot trigger the known-finding classes K1 / K2)
        let clean = hid % 4 != 3;
        sink.bump(if clean { "clean_history" } else { "anything_goes_history" });
        let layout = gen_layout(rng);
        let cfg = BackendConfig::new(None, 1, FsType::Generic, Some(if rng.chance(1, 3) { 64 } else { 2048 }));
        let be = Backend::new(cfg, hk::idxkeys(layout.clone()), false).expect("backend");
        let mut h = Hist {
            be,
            layout,
            world: World::new(),
            tabs: Tabs {
                key: Intern::default(),
                name: Intern::default(),
                ext: Intern::default(),
                val: Intern::default(),
                uuid: Intern::default(),
            },
            s_uuid: Uuid::from_u128(0x5e5e),
            txn_no: 0,
        };
        let n_txn = if args.thorough { rng.range(6, 40) } else { rng.range(5, 14) } as usize;
        let mut txns = vec![];
        let mut txt = format!("hist {}{}:", hid, if clean { " clean" } else { "" });
        let mut flags: BTreeSet<&'static str> = BTreeSet::new();
        let mut nops = 0usize;
        for t in 0..n_txn {
            h.txn_no += 1;
            let cid = Cid { ts: Duration::from_secs(1000 + h.txn_no), s_uuid: h.s_uuid };
            let saved_world = h.world.clone();
            let saved_layout = h.layout.clone();
            let do_commit = t == 0 || rng.chance(85, 100);
            let ncalls = rng.range(1, 4) as usize;
            txt.push_str(&format!(" | T{}", t));
            let res = std::panic::catch_unwind(std::panic::AssertUnwindSafe(|| {
                let mut wr = h.be.write().expect("write");
                let out = run_txn(&mut wr, &mut h.world, &mut h.layout, &mut h.tabs, &cid, rng, ncalls, &mut txt, t == 0, clean);
                if out.ok && do_commit {
                    wr.commit().expect("commit");
                    txt.push_str(" COMMIT");
                } else {
                    drop(wr);
                    txt.push_str(" ABORT");
                }
                out
            }));
            let panicked = res.is_err();
            let out = res.unwrap_or_else(|e| {
                let msg = e.downcast_ref::<String>().cloned().or_else(|| e.downcast_ref::<&str>().map(|s| s.to_string())).unwrap_or_default();
                txt.push_str(&format!(" IMPLEMENTATION-PANIC({})", msg));
                sink.bump("implementation_panic");
                TxnOut { ops: vec![], ok: false, flags: BTreeSet::new() }
            });
            let committed = out.ok && do_commit;
            if committed {
                for f in &out.flags {
                    flags.insert(f);
                    sink.bump(&format!("committed_{}", f));
                }
                if t > 0 && out.flags.contains("reindex") {
                    flags.insert("late_reindex");
                }
            } else {
                h.world = saved_world;
                h.layout = saved_layout;
                flags.insert("abort");
                sink.bump("aborted_txn");
            }
            nops += out.ops.len();
            sink.bump("txn");
            if panicked {
                // the backend's locks are poisoned after a panic inside a write transaction: the
                // history ends here, recorded as a transaction with an incoherent outcome
                txns.push(capp("Txn", &["[]".into(), cbool(false), cbool(do_commit), "(mkdump [] [] [] [] [] [] false)".into()]));
                break;
            }
            let d = dump(&mut h, &mut txt, panicked);
            txns.push(capp("Txn", &[clist_s(&out.ops), cbool(out.ok), cbool(do_commit), d]));
        }
        sink.add_stat("model_ops", nops as u64);
        let nontrivial = (flags.contains("rename") || flags.contains("swap") || flags.contains("chain"))
            && (flags.contains("recycle") || flags.contains("revive") || flags.contains("purge") || flags.contains("uuid_change"))
            && (flags.contains("late_reindex") || flags.contains("abort"));
        sink.case(capp("CHist", &[clist_s(&txns)]), txt, nontrivial);
    }
    sink.finish();
}
