//! C08 — replicas converge.
//!
//! Three kinds of cases, all produced by REAL kanidm code:
//!  * CApply  — `Entry::is_add_conflict` + `resolve_add_conflict` / `merge_state` (hook
//!              `verif_hooks::c08::apply_entry`) on random pairs of change states (live with 0-8 attribute
//!              records from a tiny grid of change ids so that ties and equal creation ids are frequent,
//!              tombstones, different creation ids, the consumer being or not being the loser's origin).
//!  * CFilter — `ReplIncrementalEntryV1::new` + `rehydrate` (hook `c12::entry_repl_incremental_roundtrip`)
//!              on random entries and random per-server windows.
//!  * CHist   — random concurrent histories on 2-3 real in-memory QueryServers of one domain (group creates
//!              incl. the same uuid on several replicas, concurrent description / gidnumber edits and purges,
//!              member adds and removals, deletes racing edits, incremental replication in random directions,
//!              occasional full refreshes), followed by three full-mesh rounds in random order.  After EVERY
//!              transaction the touched replica's tracked entries are dumped with their complete change
//!              state; the Coq model checks each dump against the replication algebra (stamped local writes,
//!              consumer = join of supplier and consumer + stamped plugin fix-ups + conflict copies) and
//!              `pcheck` compares the replicas' final dumps (replicated and derived attributes).
use kanidm_proto::internal::FsType;
use kanidmd_lib::be::{Backend, BackendConfig};
use kanidmd_lib::entry::{Entry, EntryCommitted, EntryInit, EntryNew, EntrySealed};
use kanidmd_lib::prelude::*;
use kanidmd_lib::schema::{Schema, SchemaTransaction};
use kanidmd_lib::valueset::{self, ValueSet};
use kanidmd_lib::verif_hooks::c08::apply_entry;
use kanidmd_lib::verif_hooks::c12::{entry_build, entry_parts, entry_repl_incremental_roundtrip, HookEntry, HookState};
use kanidmd_lib::{filter, filter_all};
use kvh::*;
use std::collections::BTreeMap;

const T0: u64 = 1_700_000_000;
const NU: usize = 5; // uuid pool per history
const UBASE: u128 = 0x00c0_8000_aaaa_4000_8000_0000_0000_0000;

/// attribute ids fixed for the model: class 0, uuid 1, source_uuid 2 (see Model.v A_CLASS ..)
fn fixed_attrs() -> Vec<Attribute> {
    vec![
        Attribute::Class,
        Attribute::Uuid,
        Attribute::SourceUuid,
        Attribute::Name,
        Attribute::Spn,
        Attribute::Description,
        Attribute::Member,
        Attribute::GidNumber,
    ]
}

fn open_server(ct: Duration) -> QueryServer {
    let schema_outer = Schema::new().expect("schema");
    let idxmeta = {
        let schema_txn = schema_outer.write();
        schema_txn.reload_idxmeta()
    };
    let cfg = BackendConfig::new(None, 1, FsType::Generic, Some(2048));
    let be = Backend::new(cfg, idxmeta, false).expect("be");
    QueryServer::new(be, schema_outer, "example.com".to_string(), ct).expect("qs")
}

// ------------------------------------------------------------------ plain mirror of Model.v's est
type MCid = (u64, u64);
type MCell = Option<(MCid, Option<u64>)>;
#[derive(Clone, Debug, PartialEq, Eq)]
enum MEst {
    Live(MCid, Vec<MCell>),
    Tomb(MCid),
}
type MDb = Vec<(u64, MEst)>;

fn c_cid(c: MCid) -> String {
    format!("({}, {})", cn(c.0), cn(c.1))
}
fn c_cell(c: &MCell) -> String {
    match c {
        None => "None".to_string(),
        Some((k, v)) => format!("(Some ({}, {}))", c_cid(*k), copt(v, |x| cn(*x))),
    }
}
fn c_est(e: &MEst) -> String {
    match e {
        MEst::Live(a, m) => capp("Live", &[c_cid(*a), clist(m, c_cell)]),
        MEst::Tomb(a) => capp("Tomb", &[c_cid(*a)]),
    }
}
fn c_db(d: &MDb) -> String {
    clist(d, |(u, e)| format!("({}, {})", cn(*u), c_est(e)))
}
fn t_cell(i: usize, c: &MCell) -> String {
    match c {
        None => String::new(),
        Some((k, v)) => format!("{}={}@{}.{} ", i, v.map(|x| x.to_string()).unwrap_or("-".into()), k.0, k.1),
    }
}
fn t_est(e: &MEst) -> String {
    match e {
        MEst::Live(a, m) => format!("L@{}.{}[{}]", a.0, a.1, m.iter().enumerate().map(|(i, c)| t_cell(i, c)).collect::<String>().trim_end()),
        MEst::Tomb(a) => format!("T@{}.{}", a.0, a.1),
    }
}
fn t_db(d: &MDb) -> String {
    d.iter().map(|(u, e)| format!("{}:{}", u, t_est(e))).collect::<Vec<_>>().join(" ")
}

fn vs_canon(vs: &ValueSet) -> String {
    let mut v: Vec<String> = vs.to_proto_string_clone_iter().collect();
    v.sort();
    v.join("|")
}

/// attribute / value interning + change-id canonicalisation shared by all dumps of one history (or of the
/// function-level section)
struct Canon {
    attrs: Intern<String>,
    vals: Intern<String>,
    sids: Vec<Uuid>, // index = model server id
    tbase: u64,
}
impl Canon {
    fn new(sids: Vec<Uuid>, tbase: u64) -> Self {
        let mut attrs = Intern::new();
        for a in fixed_attrs() {
            attrs.id(&a.to_string());
        }
        Canon { attrs, vals: Intern::new(), sids, tbase }
    }
    fn cid(&self, c: &Cid) -> MCid {
        assert!(c.ts.subsec_nanos() == 0, "unexpected sub-second change id: {:?}", c);
        let s = c.ts.as_secs();
        assert!(s > self.tbase, "change id before the history: {:?}", c);
        let sid = self.sids.iter().position(|x| *x == c.s_uuid).unwrap_or_else(|| panic!("unknown server id {:?}", c)) as u64;
        (s - self.tbase, sid)
    }
    /// change state + attribute map -> est; attributes without a change record that are not replicated
    /// (memberof ...) go to `derived`
    fn est(&mut self, p: &HookEntry, is_repl: &dyn Fn(&Attribute) -> bool, derived: &mut Vec<(u64, u64)>) -> MEst {
        match &p.state {
            HookState::Tombstone { at } => MEst::Tomb(self.cid(at)),
            HookState::Live { at, changes } => {
                let mut cells: BTreeMap<u64, (MCid, Option<u64>)> = BTreeMap::new();
                for (a, c) in changes.iter() {
                    let aid = self.attrs.id(&a.to_string());
                    let v = p.attrs.iter().find(|(x, _)| x == a).and_then(|(_, vs)| if vs.is_empty() { None } else { Some(self.vals.id(&format!("{}={}", a, vs_canon(vs)))) });
                    cells.insert(aid, (self.cid(c), v));
                }
                for (a, vs) in p.attrs.iter() {
                    if changes.iter().any(|(x, _)| x == a) {
                        continue;
                    }
                    if *a == Attribute::LastModifiedCid || *a == Attribute::CreatedAtCid {
                        continue; // functions of the change state
                    }
                    if is_repl(a) {
                        // a replicated value without a change record: made visible with the impossible id (0,0)
                        let aid = self.attrs.id(&a.to_string());
                        let v = self.vals.id(&format!("{}={}", a, vs_canon(vs)));
                        cells.insert(aid, ((0, 0), Some(v)));
                    } else {
                        let aid = self.attrs.id(&a.to_string());
                        let v = self.vals.id(&format!("{}={}", a, vs_canon(vs)));
                        derived.push((aid, v));
                    }
                }
                let n = cells.keys().max().map(|m| *m as usize + 1).unwrap_or(0);
                let mut m: Vec<MCell> = vec![None; n];
                for (k, v) in cells {
                    m[k as usize] = Some(v);
                }
                derived.sort();
                MEst::Live(self.cid(at), m)
            }
        }
    }
}

// ------------------------------------------------------------------ function-level cases
fn gen_value(rng: &mut Rng, a: &Attribute) -> ValueSet {
    let k = rng.below(3);
    let u = |i: u64| Uuid::from_u128(UBASE + 0xf000 + i as u128);
    let vals: Vec<Value> = match a {
        Attribute::Class => match k {
            0 => vec![EntryClass::Object.to_value(), EntryClass::Group.to_value()],
            1 => vec![EntryClass::Object.to_value(), EntryClass::Group.to_value(), EntryClass::Recycled.to_value()],
            _ => vec![EntryClass::Object.to_value(), EntryClass::Group.to_value(), EntryClass::PosixGroup.to_value()],
        },
        Attribute::Uuid => vec![Value::Uuid(u(1))],
        Attribute::SourceUuid => vec![Value::Uuid(u(2 + k))],
        Attribute::Name => vec![Value::new_iname(&format!("c08fn{}", k))],
        Attribute::Spn => vec![Value::new_spn_str(&format!("c08fn{}", k), "example.com")],
        Attribute::Description => vec![Value::new_utf8s(&format!("text {}", k))],
        Attribute::Member => (0..=k).map(|i| Value::Refer(u(10 + i))).collect(),
        _ => vec![Value::Uint32(5000 + k as u32)],
    };
    valueset::from_value_iter(vals.into_iter()).expect("valueset")
}

fn gen_cid(rng: &mut Rng, sids: &[Uuid]) -> Cid {
    Cid { ts: Duration::from_secs(T0 + 1 + rng.below(4)), s_uuid: sids[rng.below(3) as usize] }
}

fn gen_entry(rng: &mut Rng, sids: &[Uuid], at: Option<Cid>) -> HookEntry {
    if rng.chance(1, 6) {
        return HookEntry { state: HookState::Tombstone { at: gen_cid(rng, sids) }, attrs: vec![] };
    }
    let at = at.unwrap_or_else(|| gen_cid(rng, sids));
    let mut changes = vec![];
    let mut attrs = vec![];
    for a in fixed_attrs() {
        match rng.below(5) {
            0 | 1 => {}
            2 => changes.push((a.clone(), gen_cid(rng, sids))),
            _ => {
                changes.push((a.clone(), gen_cid(rng, sids)));
                attrs.push((a.clone(), gen_value(rng, &a)));
            }
        }
    }
    HookEntry { state: HookState::Live { at, changes }, attrs }
}

fn clone_entry(e: &HookEntry) -> HookEntry {
    HookEntry { state: e.state.clone(), attrs: e.attrs.clone() }
}

fn function_cases(rng: &mut Rng, sink: &mut Sink, n_apply: usize, n_filter: usize) {
    let rt = tokio::runtime::Builder::new_current_thread().enable_all().build().expect("rt");
    rt.block_on(async {
        let ct = Duration::from_secs(T0);
        let qs = open_server(ct);
        qs.initialise_helper(ct, DOMAIN_TGT_LEVEL).await.expect("init");
        let mut r = qs.read().await.expect("read");
        let mut sids: Vec<Uuid> = (0..3).map(|i| Uuid::from_u128(UBASE + 0xe000 + i as u128)).collect();
        sids.sort();
        let trim = Cid { ts: Duration::from_secs(1), s_uuid: sids[0] };
        let uuid = Uuid::from_u128(UBASE + 0xf001);
        for _ in 0..n_apply {
            let mut canon = Canon::new(sids.clone(), T0);
            let schema = r.get_schema();
            let is_repl = |a: &Attribute| schema.is_replicated(a);
            let inc = gen_entry(rng, &sids, None);
            // half of the time the same creation id (a merge), else independent (mostly a uuid conflict)
            let same_at = match (&inc.state, rng.chance(1, 2)) {
                (HookState::Live { at, .. }, true) => Some(at.clone()),
                _ => None,
            };
            let mut dbe = gen_entry(rng, &sids, same_at);
            if rng.chance(1, 12) {
                dbe = clone_entry(&inc); // idempotence
            }
            let txn = Cid { ts: Duration::from_secs(T0 + 9), s_uuid: sids[rng.below(3) as usize] };
            let out = apply_entry(uuid, &inc, &dbe, &txn, schema, &trim);
            let mut dv = vec![];
            let m_inc = canon.est(&inc, &is_repl, &mut dv);
            let m_db = canon.est(&dbe, &is_repl, &mut dv);
            let m_res = canon.est(&out.result, &is_repl, &mut dv);
            let m_copy = out.copy.as_ref().map(|(_, c)| canon.est(c, &is_repl, &mut dv));
            let kind = match (&m_inc, &m_db) {
                (MEst::Tomb(_), MEst::Tomb(_)) => "tomb_tomb",
                (MEst::Tomb(_), _) => "tomb_live",
                (_, MEst::Tomb(_)) => "live_tomb",
                _ if out.add_conflict && m_copy.is_some() => "uuid_conflict_with_copy",
                _ if out.add_conflict => "uuid_conflict",
                _ => "merge",
            };
            sink.bump(&format!("apply_{}", kind));
            let nontrivial = match (&m_inc, &m_db) {
                (MEst::Live(_, a), MEst::Live(_, b)) => out.add_conflict || a.iter().zip(b.iter()).any(|(x, y)| x.is_some() && y.is_some()),
                _ => true,
            };
            sink.case(
                capp("CApply", &[c_cid(canon.cid(&txn)), c_est(&m_inc), c_est(&m_db), cbool(out.add_conflict), copt(&m_copy, c_est), c_est(&m_res)]),
                format!("apply txn={:?} inc={} db={} => conflict={} copy={} res={}", canon.cid(&txn), t_est(&m_inc), t_est(&m_db), out.add_conflict, m_copy.as_ref().map(t_est).unwrap_or("-".into()), t_est(&m_res)),
                nontrivial,
            );
        }
        for i in 0..n_filter {
            let mut canon = Canon::new(sids.clone(), T0);
            let schema = r.get_schema();
            let is_repl = |a: &Attribute| schema.is_replicated(a);
            let e = gen_entry(rng, &sids, None);
            let mut ranges: BTreeMap<Uuid, (Duration, Duration)> = BTreeMap::new();
            let mut w = vec![];
            for (k, s) in sids.iter().enumerate() {
                if rng.chance(3, 4) {
                    let mn = rng.below(5);
                    let mx = mn + rng.below(5 - mn.min(4));
                    ranges.insert(*s, (Duration::from_secs(T0 + mn), Duration::from_secs(T0 + mx)));
                    w.push(format!("({}, ({}, {}))", cn(k as u64), cn(mn), cn(mx)));
                }
            }
            let sealed = entry_build(uuid, &e.state, &e.attrs, 7 + i as u64);
            let (_, back) = entry_repl_incremental_roundtrip(&sealed, &r, &ranges).expect("incremental round trip");
            let mut dv = vec![];
            let m_e = canon.est(&e, &is_repl, &mut dv);
            let m_b = canon.est(&back, &is_repl, &mut dv);
            sink.bump("filter");
            let nontrivial = m_e != m_b;
            sink.case(
                capp("CFilter", &[clist_s(&w), c_est(&m_e), c_est(&m_b)]),
                format!("filter w={:?} e={} => {}", w, t_est(&m_e), t_est(&m_b)),
                nontrivial,
            );
        }
        drop(r);
    });
}

// ------------------------------------------------------------------ system-level histories
#[derive(Clone, Debug)]
enum Op {
    Create(usize, usize, bool, Option<usize>), // replica, uuid idx, posix, description
    SetDesc(usize, Vec<usize>, Option<usize>), // replica, uuids, value (None = purge)
    SetGid(usize, usize, usize),               // replica, uuid, variant
    Member(usize, usize, usize, bool),         // replica, group, member, add
    Delete(usize, usize),
    Repl(usize, usize),    // to, from
    Refresh(usize, usize), // to, from
}

struct Group {
    srv: Vec<QueryServer>,
    sids: Vec<Uuid>,    // all server ids ever seen in this group; index = model id; 0..2 sorted (ranked)
    cur: Vec<usize>,    // replica -> index into sids
    t: u64,
}

async fn server_sid(qs: &QueryServer, t: u64) -> Uuid {
    let w = qs.write(Duration::from_secs(t)).await.expect("write");
    let sid = w.verif_cid().s_uuid;
    drop(w);
    sid
}

async fn do_refresh(from: &QueryServer, to: &QueryServer, t: u64) -> Result<(), String> {
    let mut w = to.write(Duration::from_secs(t)).await.expect("write");
    let mut r = from.read().await.expect("read");
    let ctx = r.supplier_provide_refresh().map_err(|e| format!("refresh ctx {:?}", e))?;
    w.consumer_apply_refresh(ctx).map_err(|e| format!("refresh {:?}", e))?;
    drop(r);
    w.commit().map_err(|e| format!("commit {:?}", e))
}

async fn new_group() -> Group {
    let ct = Duration::from_secs(T0);
    let mut raw = vec![];
    for _ in 0..3 {
        let qs = open_server(ct);
        qs.initialise_helper(ct, DOMAIN_TGT_LEVEL).await.expect("init");
        raw.push(qs);
    }
    let mut t = T0 + 10;
    for i in 1..3 {
        t += 1;
        do_refresh(&raw[0], &raw[i], t).await.expect("initial refresh");
    }
    let mut v = vec![];
    for qs in raw.into_iter() {
        t += 1;
        let sid = server_sid(&qs, t).await;
        v.push((sid, qs));
    }
    v.sort_by_key(|(s, _)| *s);
    let sids: Vec<Uuid> = v.iter().map(|(s, _)| *s).collect();
    let srv: Vec<QueryServer> = v.into_iter().map(|(_, q)| q).collect();
    Group { srv, sids, cur: vec![0, 1, 2], t }
}

async fn repl_incremental(from: &QueryServer, to: &QueryServer, t: Duration) -> Result<(), String> {
    let mut w = to.write(t).await.expect("write");
    let mut r = from.read().await.expect("read");
    let range = w.consumer_get_state().map_err(|e| format!("get_state {:?}", e))?;
    let changes = r.supplier_provide_changes(range).map_err(|e| format!("provide {:?}", e))?;
    let st = w.consumer_apply_changes(changes).map_err(|e| format!("apply {:?}", e))?;
    if !matches!(st, kanidmd_lib::repl::proto::ConsumerState::Ok) {
        return Err("consumer state: refresh required".to_string());
    }
    drop(r);
    w.commit().map_err(|e| format!("commit {:?}", e))
}

struct Hist {
    h: u64,
    canon: Canon,
    known: BTreeMap<Uuid, u64>, // conflict copies (random uuids) -> id
    copies_seen: u64,
}
impl Hist {
    fn uuid_of(&self, i: usize) -> Uuid {
        Uuid::from_u128(UBASE + ((self.h as u128) << 16) + i as u128 + 1)
    }
    fn name_of(&self, i: usize) -> String {
        format!("c08h{}u{}", self.h, i + 1)
    }
    fn gid_of(&self, i: usize, variant: usize) -> u32 {
        (200_000 + self.h * 16 + (i as u64) * 2 + variant as u64) as u32
    }
    fn pool_id(&self, u: &Uuid) -> Option<u64> {
        (0..NU).find(|i| self.uuid_of(*i) == *u).map(|i| i as u64 + 1)
    }
}

type Derived = Vec<(u64, Vec<(u64, u64)>)>;

/// tracked entries of one replica (all life-cycle states) with their complete change state
async fn snapshot(qs: &QueryServer, hist: &mut Hist, base: Option<u64>, prev: &MDb) -> (MDb, Derived) {
    let mut r = qs.read().await.expect("read");
    let all: Vec<std::sync::Arc<Entry<EntrySealed, EntryCommitted>>> = r.internal_search(filter_all!(f_pres(Attribute::Class))).expect("search all");
    let schema = r.get_schema();
    let is_repl = |a: &Attribute| schema.is_replicated(a);
    let mut out: MDb = vec![];
    let mut der: Derived = vec![];
    for e in all.iter() {
        let u = e.get_uuid();
        let parts = entry_parts(e.as_ref());
        let id = if let Some(i) = hist.pool_id(&u) {
            i
        } else if let Some(i) = hist.known.get(&u) {
            *i
        } else {
            let src: Vec<u64> = e
                .get_ava_set(Attribute::SourceUuid)
                .and_then(|vs| vs.as_uuid_set())
                .map(|s| s.iter().filter_map(|x| hist.pool_id(x)).collect())
                .unwrap_or_default();
            if src.is_empty() {
                continue; // built-in entry or another history's
            }
            let b = base.unwrap_or_else(|| panic!("conflict copy {:?} appeared outside an incremental replication", u));
            if let HookState::Tombstone { .. } = &parts.state {
                panic!("conflict copy is a tombstone");
            }
            // the loser = the source uuid this replica held before the transaction
            let pick = src
                .iter()
                .copied()
                .find(|c| prev.iter().any(|(pu, pe)| pu == c && matches!(pe, MEst::Live(..))) && !hist.known.values().any(|k| *k == b + *c))
                .unwrap_or_else(|| panic!("cannot attribute conflict copy {:?} sources {:?}", e, src));
            let id = b + pick;
            hist.known.insert(u, id);
            id
        };
        if id >= 1000 {
            hist.copies_seen += 1;
        }
        let mut dv = vec![];
        let est = hist.canon.est(&parts, &is_repl, &mut dv);
        out.push((id, est));
        der.push((id, dv));
    }
    out.sort_by_key(|(u, _)| *u);
    der.sort();
    (out, der)
}

fn pick_live(rng: &mut Rng, snap: &MDb, live_bias: bool) -> usize {
    let have: Vec<usize> = snap.iter().filter(|(u, e)| *u < 1000 && matches!(e, MEst::Live(..))).map(|(u, _)| *u as usize - 1).collect();
    if live_bias && !have.is_empty() && rng.chance(4, 5) {
        *rng.pick(&have)
    } else {
        rng.below(NU as u64) as usize
    }
}

fn gen_op(rng: &mut Rng, nrep: usize, snaps: &[MDb], allow_refresh: bool) -> Op {
    let r = rng.below(nrep as u64) as usize;
    let k = rng.below(100);
    if k < 22 {
        let mut from = rng.below(nrep as u64) as usize;
        if from == r {
            from = (r + 1) % nrep;
        }
        if allow_refresh && rng.chance(1, 12) {
            Op::Refresh(r, from)
        } else {
            Op::Repl(r, from)
        }
    } else if k < 46 {
        let d = if rng.chance(1, 2) { Some(rng.below(3) as usize) } else { None };
        Op::Create(r, rng.below(NU as u64) as usize, rng.chance(1, 2), d)
    } else if k < 66 {
        let mut us = vec![pick_live(rng, &snaps[r], true)];
        if rng.chance(1, 5) {
            us.push(pick_live(rng, &snaps[r], true));
        }
        let v = if rng.chance(1, 5) { None } else { Some(rng.below(3) as usize) };
        Op::SetDesc(r, us, v)
    } else if k < 74 {
        Op::SetGid(r, pick_live(rng, &snaps[r], true), rng.below(2) as usize)
    } else if k < 90 {
        Op::Member(r, pick_live(rng, &snaps[r], true), pick_live(rng, &snaps[r], true), rng.chance(2, 3))
    } else {
        Op::Delete(r, pick_live(rng, &snaps[r], true))
    }
}

fn uuid_filter(hist: &Hist, us: &[usize]) -> Filter<FilterInvalid> {
    filter!(f_or(us.iter().map(|i| f_eq(Attribute::Uuid, PartialValue::Uuid(hist.uuid_of(*i)))).collect()))
}

fn finish(w: QueryServerWriteTransaction<'_>, res: Result<(), OperationError>) -> Result<(), OperationError> {
    match res {
        Ok(()) => w.commit(),
        Err(e) => {
            drop(w);
            Err(e)
        }
    }
}

async fn run_history(g: &mut Group, h: u64, nrep: usize, n_rand: usize, rng: &mut Rng, sink: &mut Sink) {
    let allow_refresh = rng.chance(1, 3);
    // quiescence: three full-mesh rounds, each in a random order
    let mut ops: Vec<Option<Op>> = vec![None; n_rand];
    for round in 0..3 {
        let mut pairs = vec![];
        for to in 0..nrep {
            for from in 0..nrep {
                if to != from {
                    pairs.push((to, from));
                }
            }
        }
        rng.shuffle(&mut pairs);
        for (i, (to, from)) in pairs.into_iter().enumerate() {
            if round == 0 && i == 0 && allow_refresh && rng.chance(1, 2) {
                ops.push(Some(Op::Refresh(to, from)));
            } else {
                ops.push(Some(Op::Repl(to, from)));
            }
        }
    }
    g.t += 2;
    let mut hist = Hist { h, canon: Canon::new(g.sids.clone(), g.t), known: BTreeMap::new(), copies_seen: 0 };
    let start_sids: Vec<u64> = (0..nrep).map(|r| g.cur[r] as u64).collect();
    let mut last_w: Vec<u64> = vec![g.t; 3];
    let mut sec_shared_ok = true; // every writer of the current second has a ranked server id
    let mut steps: Vec<String> = vec![];
    let mut txt = format!("hist#{} nrep={} sids={:?}:", h, nrep, start_sids);
    let (mut n_repl, mut n_fixups, mut n_merges, mut n_refresh, mut n_conc) = (0u64, 0u64, 0u64, 0u64, 0u64);
    let mut prev: Vec<MDb> = vec![vec![]; 3];
    for (k, op) in ops.iter().enumerate() {
        let op = &match op {
            Some(o) => o.clone(),
            None => gen_op(rng, nrep, &prev, allow_refresh),
        };
        let rep = match op {
            Op::Create(r, ..) | Op::SetDesc(r, ..) | Op::SetGid(r, ..) | Op::Member(r, ..) | Op::Delete(r, _) => *r,
            Op::Repl(to, _) | Op::Refresh(to, _) => *to,
        };
        let local = !matches!(op, Op::Repl(..) | Op::Refresh(..));
        let ranked = g.cur[rep] < 3;
        // time: normally advance; a local op may share the current second with other replicas' transactions when
        // all server ids involved are ranked (the numeric ids then order like the real uuids)
        if local && ranked && sec_shared_ok && last_w[rep] < g.t && k < n_rand && rng.chance(1, 5) {
            n_conc += 1;
        } else {
            g.t += 1;
            sec_shared_ok = ranked;
        }
        last_w[rep] = g.t;
        let ct = Duration::from_secs(g.t);
        let rt = g.t - hist.canon.tbase;
        let base = 1000 * (k as u64 + 1);
        let label = match op {
            Op::Create(r, u, posix, d) => {
                let mut w = g.srv[*r].write(ct).await.expect("write");
                let mut e: Entry<EntryInit, EntryNew> = kanidmd_lib::entry_init!(
                    (Attribute::Class, EntryClass::Object.to_value()),
                    (Attribute::Class, EntryClass::Group.to_value()),
                    (Attribute::Name, Value::new_iname(&hist.name_of(*u))),
                    (Attribute::Uuid, Value::Uuid(hist.uuid_of(*u)))
                );
                if *posix {
                    e.add_ava(Attribute::Class, EntryClass::PosixGroup.to_value());
                    e.add_ava(Attribute::GidNumber, Value::Uint32(hist.gid_of(*u, 0)));
                }
                if let Some(d) = d {
                    e.add_ava(Attribute::Description, Value::new_utf8s(&format!("d{}", d)));
                }
                let res = w.internal_create(vec![e]);
                let res = finish(w, res);
                format!("create@{} t{} u{}{}{} => {:?}", r, rt, u + 1, if *posix { " posix" } else { "" }, d.map(|x| format!(" d{}", x)).unwrap_or_default(), res)
            }
            Op::SetDesc(r, us, v) => {
                let mut w = g.srv[*r].write(ct).await.expect("write");
                let ml = match v {
                    Some(v) => ModifyList::new_purge_and_set(Attribute::Description, Value::new_utf8s(&format!("d{}", v))),
                    None => ModifyList::new_purge(Attribute::Description),
                };
                let res = w.internal_modify(&uuid_filter(&hist, us), &ml);
                let res = finish(w, res);
                format!("desc@{} t{} {:?}:={:?} => {:?}", r, rt, us.iter().map(|u| u + 1).collect::<Vec<_>>(), v, res)
            }
            Op::SetGid(r, u, var) => {
                let mut w = g.srv[*r].write(ct).await.expect("write");
                let ml = ModifyList::new_purge_and_set(Attribute::GidNumber, Value::Uint32(hist.gid_of(*u, *var)));
                let res = w.internal_modify(&uuid_filter(&hist, &[*u]), &ml);
                let res = finish(w, res);
                format!("gid@{} t{} u{}:=v{} => {:?}", r, rt, u + 1, var, res)
            }
            Op::Member(r, gidx, m, add) => {
                let mut w = g.srv[*r].write(ct).await.expect("write");
                let ml = if *add {
                    ModifyList::new_list(vec![Modify::Present(Attribute::Member, Value::Refer(hist.uuid_of(*m)))])
                } else {
                    ModifyList::new_list(vec![Modify::Removed(Attribute::Member, PartialValue::Refer(hist.uuid_of(*m)))])
                };
                let res = w.internal_modify(&uuid_filter(&hist, &[*gidx]), &ml);
                let res = finish(w, res);
                format!("member@{} t{} u{} {} u{} => {:?}", r, rt, gidx + 1, if *add { "+=" } else { "-=" }, m + 1, res)
            }
            Op::Delete(r, u) => {
                let mut w = g.srv[*r].write(ct).await.expect("write");
                let res = w.internal_delete(&uuid_filter(&hist, &[*u]));
                let res = finish(w, res);
                format!("delete@{} t{} u{} => {:?}", r, rt, u + 1, res)
            }
            Op::Repl(to, from) => {
                let res = repl_incremental(&g.srv[*from], &g.srv[*to], ct).await;
                if k < n_rand {
                    n_repl += 1;
                }
                format!("repl {}<-{} t{} => {:?}", to, from, rt, res)
            }
            Op::Refresh(to, from) => {
                let res = do_refresh(&g.srv[*from], &g.srv[*to], g.t).await;
                n_refresh += 1;
                // the consumer has a new server id now
                g.t += 1;
                sec_shared_ok = false;
                let sid = server_sid(&g.srv[*to], g.t).await;
                let idx = match g.sids.iter().position(|x| *x == sid) {
                    Some(i) => i,
                    None => {
                        g.sids.push(sid);
                        hist.canon.sids.push(sid);
                        g.sids.len() - 1
                    }
                };
                g.cur[*to] = idx;
                format!("refresh {}<-{} t{} newsid={} => {:?}", to, from, rt, idx, res)
            }
        };
        if std::env::var("C08_DEBUG").is_ok() {
            eprintln!("h{} k{} {}", h, k, label);
        }
        let failed_repl = matches!(op, Op::Repl(..) | Op::Refresh(..)) && !label.ends_with("Ok(())");
        let (snap, _) = snapshot(&g.srv[rep], &mut hist, if matches!(op, Op::Repl(..)) { Some(base) } else { None }, &prev[rep]).await;
        let cop = match op {
            Op::Repl(to, from) => {
                // statistics: merges of two versions and plugin fix-ups stamped with this transaction
                for (u, e) in snap.iter() {
                    if let MEst::Live(_, m) = e {
                        if m.iter().any(|c| matches!(c, Some((c, _)) if *c == (rt, g.cur[*to] as u64))) {
                            n_fixups += 1;
                        }
                    }
                    if prev[*to].iter().any(|(pu, pe)| pu == u && pe != e) {
                        n_merges += 1;
                    }
                }
                let from = if failed_repl { *to } else { *from }; // a failed replication can never agree
                capp("ORepl", &[cn(*to as u64), cn(from as u64), cn(rt), c_db(&snap)])
            }
            Op::Refresh(to, from) => {
                let from = if failed_repl { *to } else { *from };
                capp("ORefresh", &[cn(*to as u64), cn(from as u64), cn(g.cur[*to] as u64), c_db(&snap)])
            }
            _ => capp("OLocal", &[cn(rep as u64), cn(rt), c_db(&snap)]),
        };
        sink.bump(match op {
            Op::Create(..) => "op_create",
            Op::SetDesc(..) => "op_desc",
            Op::SetGid(..) => "op_gid",
            Op::Member(..) => "op_member",
            Op::Delete(..) => "op_delete",
            Op::Repl(..) => "op_repl",
            Op::Refresh(..) => "op_refresh",
        });
        let _ = std::fmt::Write::write_fmt(&mut txt, format_args!(" [{} | {}]", label, t_db(&snap)));
        prev[rep] = snap;
        steps.push(cop);
    }
    let mut finals = vec![];
    let mut ders = vec![];
    for r in 0..nrep {
        let (snap, der) = snapshot(&g.srv[r], &mut hist, None, &vec![]).await;
        let _ = std::fmt::Write::write_fmt(&mut txt, format_args!(" final{}={{{}}} derived{}={:?}", r, t_db(&snap), r, der));
        finals.push(c_db(&snap));
        ders.push(clist(&der, |(u, v)| format!("({}, {})", cn(*u), clist(v, |p| format!("({}, {})", cn(p.0), cn(p.1))))));
    }
    sink.add_stat("conflict_copy_sightings", hist.copies_seen);
    sink.add_stat("entries_with_plugin_fixups_after_replication", n_fixups);
    sink.add_stat("entries_changed_by_replication", n_merges);
    sink.add_stat("refreshes", n_refresh);
    sink.add_stat("transactions_sharing_a_second", n_conc);
    let nontrivial = n_repl > 0 && n_merges > 2;
    sink.case(capp("CHist", &[clist(&start_sids, |s| cn(*s)), clist_s(&steps), clist_s(&finals), clist_s(&ders)]), txt, nontrivial);
    // housekeeping (outside the case): bring all three servers to the same content for the next history
    for _ in 0..2 {
        for to in 0..3 {
            for from in 0..3 {
                if to != from {
                    g.t += 1;
                    repl_incremental(&g.srv[from], &g.srv[to], Duration::from_secs(g.t)).await.expect("housekeeping replication");
                }
            }
        }
    }
}

fn main() {
    let args = parse_args();
    let mut rng = Rng::new(args.seed);
    let mut sink = Sink::new(&args, "KV.C08.Model", 12);
    sink.rule = "(CHist) random histories on 2-3 real in-memory QueryServers of one domain: group creates (the same uuid on several \
replicas), concurrent description / gidnumber edits and purges, member adds/removals, deletes, incremental replication in random \
directions, occasional full refreshes, harness-chosen transaction times (sometimes equal on two replicas), then three full-mesh \
rounds in random order; every transaction's resulting change state is dumped. non-trivial = at least one replication before \
quiescence and more than two entries changed by replications. (CApply) real is_add_conflict/resolve_add_conflict/merge_state on \
random pairs of change states over a 4x3 grid of change ids; non-trivial = a tombstone is involved, a uuid conflict, or an \
attribute recorded on both sides. (CFilter) real ReplIncrementalEntryV1::new on random entries and windows; non-trivial = \
something was filtered out"
        .into();
    // function-level cases first (cheap), in their own shards
    let (n_apply, n_filter) = if args.thorough { (4000, 1000) } else { (900, 240) };
    function_cases(&mut rng, &mut sink, n_apply, n_filter);
    let rt = tokio::runtime::Builder::new_current_thread().enable_all().build().expect("rt");
    let n_hist: u64 = if args.thorough { 600 } else { 96 };
    let group_size: u64 = 8;
    let max_len = if args.thorough { 40 } else { 24 };
    rt.block_on(async {
        let mut group: Option<Group> = None;
        for h in 0..n_hist {
            if h % group_size == 0 {
                group = Some(new_group().await);
            }
            let g = group.as_mut().expect("group");
            let nrep = if rng.chance(1, 3) { 2 } else { 3 };
            let len = rng.range(10, max_len) as usize;
            run_history(g, h, nrep, len, &mut rng, &mut sink).await;
        }
    });
    sink.finish();
}
