//! C48 — upgrading the domain level preserves data and consistency.
//!
//! A REAL in-memory QueryServer is bootstrapped at the previous supported domain level,
//! filled with random user content (people, groups, service accounts, OAuth2 clients,
//! memberships, credentials, edits of built-in groups / policy, deletes), dumped, upgraded
//! with `initialise_helper(.., DOMAIN_TGT_LEVEL)` (the code path a new binary takes on an
//! old database) and dumped again.  `QueryServer::verify()` runs before and after.  The
//! Coq model KV.C48.Model replays the migration on the "before" dump with the built-in
//! definitions dumped from `migration_data` (hook c48) and must reproduce the "after" dump.
use kanidmd_lib::entry::{Entry, EntryInit, EntryNew};
use kanidmd_lib::prelude::*;
use kanidmd_lib::schema::SchemaTransaction;
use kanidmd_lib::valueset::{ValueSet, ValueSetRefer};
use kanidmd_lib::testkit::{setup_test, TestConfiguration};
use kanidmd_lib::verif_hooks::{c36, c48};
use kvh::*;
use std::collections::BTreeSet;
use std::panic::AssertUnwindSafe;

// fixed attribute ids shared with Model.v
const FIXED_ATTRS: &[&str] = &[
    "class",                    // 0
    "name",                     // 1
    "member",                   // 2
    "member_create_once",       // 3
    "credential_type_minimum",  // 4
    "version",                  // 5
    "acp_receiver_group",       // 6   (6..=13: the attributes gen_modlist_assert purges first)
    "acp_create_attr",          // 7
    "acp_create_class",         // 8
    "acp_modify_presentattr",   // 9
    "acp_modify_removedattr",   // 10
    "acp_modify_class",         // 11
    "systemmust",               // 12
    "systemmay",                // 13
];

/// attributes that are computed by plugins / the change machinery, never set by a user or a definition
const DERIVED: &[&str] = &[
    "uuid",
    "memberof",
    "directmemberof",
    "dynmember",
    "last_modified_cid",
    "created_at_cid",
    "spn",
];

struct Ctx {
    attrs: Intern<String>,
    vals: Intern<String>,
    fps: Intern<String>,
}

impl Ctx {
    fn new() -> Self {
        let mut attrs = Intern::new();
        for (i, a) in FIXED_ATTRS.iter().enumerate() {
            assert_eq!(attrs.id(&a.to_string()), i as u64);
        }
        Ctx { attrs, vals: Intern::new(), fps: Intern::new() }
    }
    fn uuid(&mut self, u: Uuid) -> u64 {
        self.vals.id(&u.as_hyphenated().to_string())
    }
}

#[derive(Clone, Debug, PartialEq)]
struct DEntry {
    u: u64,
    live: bool,
    attrs: Vec<(u64, u64, Vec<u64>)>, // attr, fingerprint of the stored value set, values
    refs: Vec<u64>,
    // derived membership data (checked by pcheck against a recomputation)
    dmo: Vec<u64>,
    mo: Vec<u64>,
    dynm: Vec<u64>,
}

fn sorted(mut v: Vec<u64>) -> Vec<u64> {
    v.sort();
    v.dedup();
    v
}

fn dump_entry<V, S>(cx: &mut Ctx, e: &Entry<V, S>, uuid: Uuid) -> DEntry {
    let mut live = true;
    // deterministic traversal: attributes by name
    let mut names: Vec<(String, &ValueSet)> = e.get_ava_iter().map(|(a, vs)| (a.to_string(), vs)).collect();
    names.sort_by(|a, b| a.0.cmp(&b.0));
    let mut attrs = vec![];
    let mut refs = vec![];
    let (mut dmo, mut mo, mut dynm) = (vec![], vec![], vec![]);
    for (an, vs) in names {
        let mut strs: Vec<String> = vs.to_proto_string_clone_iter().collect();
        strs.sort();
        if an == "class" && strs.iter().any(|s| s == "recycled" || s == "tombstone") {
            live = false;
        }
        if let Some(it) = vs.as_ref_uuid_iter() {
            let mut us: Vec<Uuid> = it.collect();
            us.sort();
            for u in us {
                let id = cx.uuid(u);
                match an.as_str() {
                    "directmemberof" => dmo.push(id),
                    "memberof" => mo.push(id),
                    "dynmember" => { dynm.push(id); refs.push(id) }
                    _ => refs.push(id),
                }
            }
        }
        if DERIVED.contains(&an.as_str()) {
            continue;
        }
        let a = cx.attrs.id(&an);
        let fp = cx.fps.id(&serde_json::to_string(&vs.to_db_valueset_v2()).unwrap_or_else(|_| "?".into()));
        let vals = sorted(strs.iter().map(|s| cx.vals.id(s)).collect());
        attrs.push((a, fp, vals));
    }
    attrs.sort();
    DEntry { u: cx.uuid(uuid), live, attrs, refs: sorted(refs), dmo: sorted(dmo), mo: sorted(mo), dynm: sorted(dynm) }
}

async fn dump_db(cx: &mut Ctx, qs: &QueryServer) -> Vec<DEntry> {
    let mut rd = qs.read().await.expect("read");
    let es = rd
        .internal_search(kanidmd_lib::filter_all!(f_pres(Attribute::Class)))
        .expect("search all");
    let mut es: Vec<_> = es.into_iter().collect();
    es.sort_by_key(|e| e.get_uuid());
    let mut out: Vec<DEntry> = es.iter().map(|e| dump_entry(cx, e.as_ref(), e.get_uuid())).collect();
    out.sort_by_key(|e| e.u);
    out
}

fn c_dentry(e: &DEntry) -> String {
    format!(
        "(mkD {} {} {} {} {} {} {})",
        cn(e.u),
        cbool(e.live),
        clist(&e.attrs, |(a, fp, vs)| format!("({},{},{})", cn(*a), cn(*fp), clist(vs, |v| cn(*v)))),
        clist(&e.refs, |v| cn(*v)),
        clist(&e.dmo, |v| cn(*v)),
        clist(&e.mo, |v| cn(*v)),
        clist(&e.dynm, |v| cn(*v)),
    )
}

fn c_db(d: &[DEntry]) -> String {
    clist(d, c_dentry)
}

struct Defs {
    coq: String,
    n: usize,
    /// (uuid, name) of every definition
    names: Vec<(Uuid, Option<String>)>,
}

fn dump_defs(cx: &mut Ctx, level: DomainVersion) -> Defs {
    let defs = c48::builtin_defs(level).expect("level").expect("defs");
    let mut items = vec![];
    let mut names = vec![];
    for (phase, e) in defs.iter() {
        let u = e.get_uuid().expect("def uuid");
        let d = dump_entry(cx, e, u);
        let name = e.get_ava_set(Attribute::Name).and_then(|vs| vs.to_proto_string_clone_iter().next());
        names.push((u, name));
        items.push(format!(
            "(mkB {} {} {})",
            cn(*phase as u64),
            cn(d.u),
            clist(&d.attrs, |(a, _fp, vs)| format!("({},{})", cn(*a), clist(vs, |v| cn(*v)))),
        ));
    }
    Defs { coq: clist_s(&items), n: items.len(), names }
}

fn ident_uuid(hid: u64, n: u64) -> Uuid {
    Uuid::from_u128(0xc480_0000_0000_4000_8000_0000_0000_0000u128 + ((hid as u128) << 32) + n as u128)
}

#[derive(Clone, Debug)]
struct UserEnt {
    u: Uuid,
    kind: &'static str,
}

fn person(u: Uuid, name: &str, rng: &mut Rng) -> Entry<EntryInit, EntryNew> {
    let mut e: Entry<EntryInit, EntryNew> = kanidmd_lib::entry_init!(
        (Attribute::Class, EntryClass::Object.to_value()),
        (Attribute::Class, EntryClass::Account.to_value()),
        (Attribute::Class, EntryClass::Person.to_value()),
        (Attribute::Name, Value::new_iname(name)),
        (Attribute::Uuid, Value::Uuid(u)),
        (Attribute::DisplayName, Value::new_utf8s(&format!("Person {}", name)))
    );
    if rng.chance(1, 2) {
        e.add_ava(Attribute::Description, Value::new_utf8s(&format!("desc of {}", name)));
    }
    if rng.chance(1, 2) {
        e.add_ava(Attribute::Mail, Value::new_email_address_primary_s(&format!("{}@example.com", name)).expect("mail"));
    }
    if rng.chance(1, 3) {
        e.add_ava(Attribute::LegalName, Value::new_utf8s(&format!("Legal {}", name)));
    }
    if rng.chance(1, 2) {
        let c = c36::cred_new_password(&format!("c48-password-{}", name));
        e.add_ava(Attribute::PrimaryCredential, Value::new_credential("primary", c));
    }
    e
}

fn group(u: Uuid, name: &str, members: &[Uuid]) -> Entry<EntryInit, EntryNew> {
    let mut e: Entry<EntryInit, EntryNew> = kanidmd_lib::entry_init!(
        (Attribute::Class, EntryClass::Object.to_value()),
        (Attribute::Class, EntryClass::Group.to_value()),
        (Attribute::Name, Value::new_iname(name)),
        (Attribute::Uuid, Value::Uuid(u)),
        (Attribute::Description, Value::new_utf8s(&format!("group {}", name)))
    );
    for m in members {
        e.add_ava(Attribute::Member, Value::Refer(*m));
    }
    e
}

fn service(u: Uuid, name: &str) -> Entry<EntryInit, EntryNew> {
    kanidmd_lib::entry_init!(
        (Attribute::Class, EntryClass::Object.to_value()),
        (Attribute::Class, EntryClass::Account.to_value()),
        (Attribute::Class, EntryClass::ServiceAccount.to_value()),
        (Attribute::Name, Value::new_iname(name)),
        (Attribute::Uuid, Value::Uuid(u)),
        (Attribute::DisplayName, Value::new_utf8s(&format!("Service {}", name)))
    )
}

fn oauth2(u: Uuid, name: &str, scope_group: Uuid) -> Entry<EntryInit, EntryNew> {
    kanidmd_lib::entry_init!(
        (Attribute::Class, EntryClass::Object.to_value()),
        (Attribute::Class, EntryClass::Account.to_value()),
        (Attribute::Class, EntryClass::OAuth2ResourceServer.to_value()),
        (Attribute::Class, EntryClass::OAuth2ResourceServerBasic.to_value()),
        (Attribute::Uuid, Value::Uuid(u)),
        (Attribute::Name, Value::new_iname(name)),
        (Attribute::DisplayName, Value::new_utf8s(&format!("Client {}", name))),
        (Attribute::OAuth2RsOriginLanding, Value::new_url_s(&format!("https://{}.example.com", name)).expect("url")),
        (
            Attribute::OAuth2RsScopeMap,
            Value::new_oauthscopemap(scope_group, BTreeSet::from(["openid".to_string(), "email".to_string()])).expect("scopemap")
        )
    )
}

fn outcome_code(r: &Result<Result<(), OperationError>, String>) -> (u64, String) {
    match r {
        Ok(Ok(())) => (0, "ok".into()),
        Err(p) => (1, format!("panic({})", p.chars().take(60).collect::<String>())),
        Ok(Err(OperationError::MG0008SkipUpgradeAttempted)) => (2, "skip-refused".into()),
        Ok(Err(OperationError::MG0010DowngradeNotAllowed)) => (3, "downgrade-refused".into()),
        Ok(Err(e)) => (4, format!("err({:?})", e)),
    }
}

struct Schema {
    single: Vec<u64>,
    uniq: Vec<u64>,
    refa: Vec<u64>,
}

async fn schema_facts(cx: &mut Ctx, qs: &QueryServer) -> Schema {
    let rd = qs.read().await.expect("read");
    let sch = rd.get_schema();
    let mut all: Vec<(String, bool, bool, bool)> = sch
        .get_attributes()
        .iter()
        .map(|(a, sa)| (a.to_string(), sa.multivalue, sa.unique, sa.syntax == SyntaxType::ReferenceUuid))
        .collect();
    all.sort();
    let mut s = Schema { single: vec![], uniq: vec![], refa: vec![] };
    for (a, multi, unique, isref) in all {
        if DERIVED.contains(&a.as_str()) {
            continue;
        }
        let id = cx.attrs.id(&a);
        if !multi {
            s.single.push(id);
        }
        if unique {
            s.uniq.push(id);
        }
        if isref {
            s.refa.push(id);
        }
    }
    s.single.sort();
    s.uniq.sort();
    s.refa.sort();
    s
}

fn verify_count(rt: &tokio::runtime::Runtime, qs: &QueryServer, tag: &str) -> u64 {
    let r = rt.block_on(qs.verify());
    let bad: Vec<_> = r.iter().filter(|x| x.is_err()).collect();
    if !bad.is_empty() {
        eprintln!("verify {} -> {:?}", tag, bad);
    }
    bad.len() as u64
}

fn main() {
    let args = parse_args();
    let mut rng = Rng::new(args.seed);
    let mut sink = Sink::new(&args, "KV.C48.Model", 2);
    sink.rule = "a real in-memory QueryServer bootstrapped at DOMAIN_PREVIOUS_TGT_LEVEL receives random user content \
(3-6 people with optional mail/legal name/password credential, 2-5 groups with acyclic random memberships, 0-2 service accounts, \
0-2 OAuth2 clients, users added to / default members removed from built-in groups, account-policy edits on idm_all_persons, \
bad-list / denied-name / domain display name edits, deletes into the recycle bin; names are drawn from a pool that contains the \
names of the built-in entries that are NEW at the target level), is dumped, upgraded by initialise_helper(DOMAIN_TGT_LEVEL), \
verified and dumped again; extra cases: restart at the target level (development builds re-migrate), refused downgrade, fresh \
bootstrap at the target level. non-trivial = the history edited at least one built-in entry AND has a user membership edge AND \
(a recycled entry or a credential)".into();
    let rt = tokio::runtime::Builder::new_current_thread().enable_all().build().expect("rt");
    let probe = args.extra.iter().any(|a| a == "--probe");

    let tgt = DOMAIN_TGT_LEVEL;
    let prev = DOMAIN_PREVIOUS_TGT_LEVEL;

    let n_hist: u64 = if probe { 2 } else if args.thorough { 80 } else { 16 };
    let mut defect_seen = 0u64;

    for hid in 0..n_hist {
        // every history has its own interning so that case files are self-contained and small
        let mut cx = Ctx::new();
        let mut hr = rng.fork();
        let rng = &mut hr;
        let kind = if probe {
            hid // 0 = plain, 1 = collision
        } else if hid == 0 {
            10 // fresh bootstrap at target
        } else if hid == 1 {
            11 // downgrade
        } else {
            rng.below(8)
        };
        // ---------- server at the start level
        let start_level = if kind == 10 || kind == 11 { tgt } else { prev };
        let qs = rt.block_on(setup_test(TestConfiguration { domain_level: start_level, ..Default::default() }));
        let defs = dump_defs(&mut cx, tgt);
        let dels: Vec<u64> = sorted(c48::delete_uuids(tgt).expect("dels").into_iter().map(|u| cx.uuid(u)).collect());
        let prev_defs = c48::builtin_defs(prev).expect("level").expect("defs");
        let prev_names: BTreeSet<String> = prev_defs
            .iter()
            .filter_map(|(_, e)| e.get_ava_set(Attribute::Name).and_then(|vs| vs.to_proto_string_clone_iter().next()))
            .collect();
        let new_names: Vec<String> = defs.names.iter().filter_map(|(_, n)| n.clone()).filter(|n| !prev_names.contains(n)).collect();
        let sch = rt.block_on(schema_facts(&mut cx, &qs));

        let mut txt = format!("hist {} kind={} start={} ", hid, kind, start_level);
        let mut users: Vec<UserEnt> = vec![];
        let mut n_builtin_edits = 0u64;
        let mut n_edges = 0u64;
        let mut n_recycled = 0u64;
        let mut n_creds = 0u64;
        let mut collide = false;

        if kind != 10 {
            // ---------- random user content
            let ct = duration_from_epoch_now();
            let mut w = rt.block_on(qs.write(ct)).expect("write");
            let forced = !probe && hid == 2; // every run contains one definite collision (a live group)
            let collide_here = (probe && hid == 1) || forced || (!probe && kind < 8 && rng.chance(1, 4));
            let collide_kind = if forced { 1 } else { rng.below(5) }; // person, group, service, oauth2, recycled group
            let mut names_used: BTreeSet<String> = BTreeSet::new();
            let mut fresh_name = |rng: &mut Rng, pfx: &str, want_collide: bool| -> (String, bool) {
                if want_collide && !new_names.is_empty() {
                    let n = rng.pick(&new_names).clone();
                    if names_used.insert(n.clone()) {
                        return (n, true);
                    }
                }
                loop {
                    let n = format!("{}{}", pfx, rng.below(40));
                    if names_used.insert(n.clone()) {
                        return (n, false);
                    }
                }
            };
            let mut colliders: Vec<Uuid> = vec![];
            let mut seq = 0u64;
            let mut next_uuid = || {
                seq += 1;
                ident_uuid(hid, seq)
            };
            let mut people = vec![];
            let np = rng.range(3, 6);
            for i in 0..np {
                let u = next_uuid();
                let (name, pooled) = fresh_name(rng, "p", collide_here && collide_kind == 0 && i == 0);
                if pooled {
                    colliders.push(u);
                }
                let e = person(u, &name, rng);
                if e.get_ava_set(Attribute::PrimaryCredential).is_some() {
                    n_creds += 1;
                }
                w.internal_create(vec![e]).expect("create person");
                people.push(u);
                users.push(UserEnt { u, kind: "person" });
            }
            let mut groups: Vec<Uuid> = vec![];
            let ng = rng.range(2, 5);
            let mut recycled_collider: Option<Uuid> = None;
            for i in 0..ng {
                let u = next_uuid();
                let is_coll = collide_here && (collide_kind == 1 || collide_kind == 4) && i == 0;
                let (name, pooled) = fresh_name(rng, "g", is_coll);
                if pooled {
                    colliders.push(u);
                }
                let mut ms = vec![];
                for p in people.iter() {
                    if rng.chance(1, 3) {
                        ms.push(*p);
                    }
                }
                for g in groups.iter() {
                    if rng.chance(1, 4) {
                        ms.push(*g);
                    }
                }
                n_edges += ms.len() as u64;
                w.internal_create(vec![group(u, &name, &ms)]).expect("create group");
                if is_coll && collide_kind == 4 {
                    recycled_collider = Some(u);
                }
                groups.push(u);
                users.push(UserEnt { u, kind: "group" });
            }
            let ns = rng.below(3);
            for i in 0..ns {
                let u = next_uuid();
                let (name, pooled) = fresh_name(rng, "s", collide_here && collide_kind == 2 && i == 0);
                if pooled {
                    colliders.push(u);
                }
                w.internal_create(vec![service(u, &name)]).expect("create service");
                users.push(UserEnt { u, kind: "service" });
            }
            let no = rng.below(3);
            for i in 0..no {
                let u = next_uuid();
                let (name, pooled) = fresh_name(rng, "o", collide_here && collide_kind == 3 && i == 0);
                if pooled {
                    colliders.push(u);
                }
                let sg = if rng.chance(1, 2) { *rng.pick(&groups) } else { UUID_IDM_ALL_ACCOUNTS };
                w.internal_create(vec![oauth2(u, &name, sg)]).expect("create oauth2");
                users.push(UserEnt { u, kind: "oauth2" });
            }
            // ---------- edits of built-in entries that delegated administrators can make
            let bgroups = [
                UUID_IDM_ADMINS,
                UUID_SYSTEM_ADMINS,
                UUID_IDM_PEOPLE_ADMINS,
                UUID_IDM_GROUP_ADMINS,
                UUID_IDM_SERVICE_DESK,
                UUID_IDM_HIGH_PRIVILEGE,
                UUID_IDM_PEOPLE_SELF_NAME_WRITE,
                UUID_IDM_OAUTH2_ADMINS,
                UUID_IDM_ACCOUNT_POLICY_ADMINS,
            ];
            for _ in 0..rng.below(5) {
                let bg = *rng.pick(&bgroups);
                let r = match rng.below(4) {
                    0 | 1 => {
                        let m = if rng.chance(2, 3) { *rng.pick(&people) } else { *rng.pick(&groups) };
                        n_edges += 1;
                        w.internal_modify_uuid(bg, &ModifyList::new_append(Attribute::Member, Value::Refer(m)))
                    }
                    2 => w.internal_modify_uuid(bg, &ModifyList::new_purge(Attribute::Member)),
                    _ => {
                        let m = *rng.pick(&people);
                        n_edges += 1;
                        w.internal_modify_uuid(bg, &ModifyList::new_set(Attribute::Member, ValueSetRefer::new(m)))
                    }
                };
                r.expect("builtin group edit");
                n_builtin_edits += 1;
            }
            if rng.chance(1, 2) {
                use kanidmd_lib::value::CredentialType;
                use kanidmd_lib::valueset::ValueSetCredentialType;
                let ctm = *rng.pick(&[CredentialType::Any, CredentialType::Mfa, CredentialType::Passkey]);
                w.internal_modify_uuid(
                    UUID_IDM_ALL_PERSONS,
                    &ModifyList::new_set(Attribute::CredentialTypeMinimum, ValueSetCredentialType::new(ctm)),
                )
                .expect("ctm");
                n_builtin_edits += 1;
            }
            if rng.chance(1, 2) {
                w.internal_modify_uuid(
                    UUID_IDM_ALL_PERSONS,
                    &ModifyList::new_purge_and_set(Attribute::AuthSessionExpiry, Value::Uint32(600 + rng.below(1000) as u32)),
                )
                .expect("session expiry");
                n_builtin_edits += 1;
            }
            if rng.chance(1, 3) {
                w.internal_modify_uuid(
                    UUID_SYSTEM_CONFIG,
                    &ModifyList::new_append(Attribute::BadlistPassword, Value::new_iutf8(&format!("c48-bad-password-{}", rng.below(9)))),
                )
                .expect("badlist");
                n_builtin_edits += 1;
            }
            if rng.chance(1, 3) {
                // remove a shipped bad-list entry: the migration puts it back (multi-valued assert)
                w.internal_modify_uuid(
                    UUID_SYSTEM_CONFIG,
                    &ModifyList::new_remove(Attribute::BadlistPassword, PartialValue::new_iutf8("100preteamare")),
                )
                .expect("badlist remove");
                n_builtin_edits += 1;
            }
            if rng.chance(1, 3) {
                w.internal_modify_uuid(
                    UUID_SYSTEM_CONFIG,
                    &ModifyList::new_append(Attribute::DeniedName, Value::new_iname(&format!("denied{}", rng.below(9)))),
                )
                .expect("denied");
                n_builtin_edits += 1;
            }
            if rng.chance(1, 3) {
                w.internal_modify_uuid(
                    UUID_DOMAIN_INFO,
                    &ModifyList::new_purge_and_set(Attribute::DomainDisplayName, Value::new_utf8s(&format!("Domain {}", rng.below(9)))),
                )
                .expect("domain display");
                n_builtin_edits += 1;
            }
            // ---------- deletes into the recycle bin
            let mut dels_u = vec![];
            if let Some(u) = recycled_collider {
                dels_u.push(u);
            }
            for ue in users.iter() {
                if rng.chance(1, 8) && Some(ue.u) != recycled_collider && !(forced && colliders.contains(&ue.u)) {
                    dels_u.push(ue.u);
                }
            }
            for u in dels_u {
                w.internal_delete_uuid(u).expect("delete");
                colliders.retain(|c| *c != u);
                n_recycled += 1;
            }
            collide = !colliders.is_empty();
            w.commit().expect("commit content");
            txt.push_str(&format!(
                "users={} ({}) builtin_edits={} edges={} recycled={} creds={} collide={} ",
                users.len(),
                users.iter().map(|u| u.kind).collect::<Vec<_>>().join(","),
                n_builtin_edits,
                n_edges,
                n_recycled,
                n_creds,
                if collide { format!("live-kind{}", collide_kind) } else if collide_here { format!("recycled-or-none-kind{}", collide_kind) } else { "no".into() }
            ));
        }

        // current stored level + development taint as the server sees them
        let (cur_level, devel) = {
            let mut rd = rt.block_on(qs.read()).expect("read");
            let d = rd.internal_search_uuid(UUID_DOMAIN_INFO).expect("domain info");
            (
                d.get_ava_single_uint32(Attribute::Version).unwrap_or(0),
                d.get_ava_single_bool(Attribute::DomainDevelopmentTaint).unwrap_or(false),
            )
        };
        let vb = if kind == 10 { 0 } else { verify_count(&rt, &qs, "before") };
        let before = if kind == 10 { vec![] } else { rt.block_on(dump_db(&mut cx, &qs)) };

        // ---------- the upgrade (or restart / downgrade)
        let target = match kind {
            10 => tgt,
            11 => prev,
            _ => tgt,
        };
        let mut restart_first = false;
        let res = if kind == 10 {
            Ok(Ok(()))
        } else {
            let ct = duration_from_epoch_now();
            let r = guarded(AssertUnwindSafe(|| rt.block_on(qs.initialise_helper(ct, target))));
            if kind == 7 && matches!(r, Ok(Ok(()))) {
                // a second start at the target level: development builds re-migrate from the previous level
                restart_first = true;
            }
            r
        };
        let (oc, octxt) = outcome_code(&res);
        // a panic inside the write transaction poisons the in-memory server (a real process would have
        // died); nothing was committed, so the database is what it was before
        let (va, after) = if oc == 1 {
            (vb, before.clone())
        } else {
            (verify_count(&rt, &qs, "after"), rt.block_on(dump_db(&mut cx, &qs)))
        };
        let vtgt = cx.vals.id(&format!("{}", target));
        let v_builtin = cx.vals.id(&"builtin".to_string());
        let u_dom = cx.uuid(UUID_DOMAIN_INFO);
        let user_ids: Vec<u64> = sorted(users.iter().map(|u| cx.uuid(u.u)).collect());

        let cfg = format!(
            "(mkCfg {} {} {} true {} {} {} {} {} {})",
            clist(&sch.single, |v| cn(*v)),
            clist(&sch.uniq, |v| cn(*v)),
            clist(&sch.refa, |v| cn(*v)),
            cn(v_builtin),
            cn(u_dom),
            cn(DOMAIN_MIGRATION_FROM_MIN as u64),
            cn(DOMAIN_MIN_REMIGRATION_LEVEL as u64),
            cn(DOMAIN_PREVIOUS_TGT_LEVEL as u64),
            cbool(devel),
        );
        let coq = if kind == 10 {
            format!("(CFresh {} {} {} {})", cfg, defs.coq, c_db(&after), cn(va))
        } else {
            format!(
                "(CHist {} {} {} {} {} {} {} {} {} {} {} {})",
                cfg,
                defs.coq,
                clist(&dels, |v| cn(*v)),
                cn(cur_level as u64),
                cn(target as u64),
                cn(vtgt),
                clist(&user_ids, |v| cn(*v)),
                c_db(&before),
                cn(oc),
                c_db(&after),
                cn(vb),
                cn(va),
            )
        };
        txt.push_str(&format!(
            "cur={} target={} defs={} before={} after={} outcome={} verify_before={} verify_after={}",
            cur_level,
            target,
            defs.n,
            before.len(),
            after.len(),
            octxt,
            vb,
            va
        ));
        if probe {
            eprintln!("{}", txt);
            eprintln!("coq bytes = {}", coq.len());
        }
        let nontrivial = n_builtin_edits > 0 && n_edges > 0 && (n_recycled > 0 || n_creds > 0);
        sink.case(coq, txt.clone(), nontrivial);
        sink.bump(match kind {
            10 => "fresh_bootstrap",
            11 => "downgrade_refused",
            _ => "upgrade",
        });
        if collide {
            sink.bump("name_collision_with_new_builtin");
        }
        if oc == 1 {
            sink.bump("upgrade_panicked");
            defect_seen += 1;
        }

        // ---------- a restart at the target level with more content (re-migration in development builds)
        if restart_first {
            let before2 = after.clone();
            let ct = duration_from_epoch_now();
            let r = guarded(AssertUnwindSafe(|| rt.block_on(qs.initialise_helper(ct, tgt))));
            let (oc2, octxt2) = outcome_code(&r);
            let va2 = verify_count(&rt, &qs, "after-restart");
            let after2 = rt.block_on(dump_db(&mut cx, &qs));
            let coq = format!(
                "(CHist {} {} {} {} {} {} {} {} {} {} {} {})",
                cfg,
                defs.coq,
                clist(&dels, |v| cn(*v)),
                cn(tgt as u64),
                cn(tgt as u64),
                cn(vtgt),
                clist(&user_ids, |v| cn(*v)),
                c_db(&before2),
                cn(oc2),
                c_db(&after2),
                cn(va),
                cn(va2),
            );
            let t2 = format!("restart {} cur={} target={} outcome={} verify_after={}", hid, tgt, tgt, octxt2, va2);
            sink.case(coq, t2, nontrivial);
            sink.bump("restart_at_target");
        }
        drop(qs);
    }
    if probe {
        eprintln!("probe: upgrades that panicked = {}", defect_seen);
        sink.finish();
        std::process::exit(if defect_seen > 0 { 1 } else { 0 });
    }
    sink.finish();
}
