//! C04 — failed or abandoned write transactions leave no trace.
//!
//! A REAL IdmServer on a file-backed SQLite database. For every transaction of the plan the
//! harness arms the storage fault hook (`kanidmd_lib::verif_hooks::c04`, called before every
//! SQLite statement / BEGIN / COMMIT of be/idl_sqlite.rs) with Fail(k) for k = 1, 2, ... until a
//! run passes fewer than k storage points (that run commits); after each run it opens a read
//! transaction and dumps what readers see (entries, an access decision that depends on the
//! profile under test, domain display name, OAuth2 client lookup), then drops the server,
//! reopens it on the same file and dumps again. The reopened server is the start of the next
//! run. Abandon-at-every-operation-boundary and self-failing operations likewise.
//! `--probe` shows the confirmed defects on the real code (exit 1 when present).
use kanidm_proto::internal::{Filter as ProtoFilter, FsType};
use kanidmd_lib::be::{Backend, BackendConfig};
use kanidmd_lib::entry::{Entry, EntryInit, EntryNew};
use kanidmd_lib::filter;
use kanidmd_lib::idm::server::{IdmServer, IdmServerAudit, IdmServerDelayed};
use kanidmd_lib::prelude::*;
use kanidmd_lib::schema::Schema;
use kanidmd_lib::verif_hooks::c04 as hook;
use kvh::*;
use std::path::Path;

const NE: u64 = 4; // entry universe c04e0..3
const NC: u64 = 3; // oauth2 client universe c04rs0..2
const U_READER: Uuid = Uuid::from_u128(0xc04_0000_0000_0000_0000_0000_0000_0001);
const U_GROUP: Uuid = Uuid::from_u128(0xc04_0000_0000_0000_0000_0000_0000_0002);
const U_TARGET: Uuid = Uuid::from_u128(0xc04_0000_0000_0000_0000_0000_0000_0003);
const BASE: u64 = 1_900_000_000;

#[derive(Clone, Debug, PartialEq)]
enum Op {
    Create(u64, u64),
    Modify(u64, u64),
    Delete(u64),
    Acp(bool),
    Domain(u64),
    Oauth2(u64, bool),
}

#[derive(Clone, Debug, PartialEq, Eq)]
struct View {
    ents: Vec<(u64, u64)>,
    acp: bool,
    dom: u64,
    o2: Vec<u64>,
}

struct Srv {
    idms: IdmServer,
    _d: IdmServerDelayed,
    _a: IdmServerAudit,
}

struct Ctx {
    rt: tokio::runtime::Runtime,
    tick: u64,
    uuidc: u128,
    pool: u32,
}

impl Ctx {
    fn now(&mut self) -> Duration {
        self.tick += 1;
        Duration::from_secs(BASE + self.tick)
    }
    fn fresh(&mut self) -> Uuid {
        self.uuidc += 1;
        Uuid::from_u128(0xc04_0000_0000_0000_0000_0001_0000_0000u128 + self.uuidc)
    }
}

fn open_server(ctx: &mut Ctx, path: &Path) -> Srv {
    let ct = ctx.now();
    let pool = ctx.pool;
    ctx.rt.block_on(async {
        let schema_outer = Schema::new().expect("schema");
        let idxmeta = {
            let schema_txn = schema_outer.write();
            schema_txn.reload_idxmeta()
        };
        let cfg = BackendConfig::new(Some(path), pool, FsType::Generic, Some(2048));
        let be = Backend::new(cfg, idxmeta, false).expect("be");
        let qs = QueryServer::new(be, schema_outer, "example.com".to_string(), ct).expect("qs");
        qs.initialise_helper(ct, DOMAIN_TGT_LEVEL).await.expect("init");
        let (idms, d, a) = IdmServer::new(qs, &Url::parse("https://idm.example.com").expect("url"), true, ct)
            .await
            .expect("idms");
        Srv { idms, _d: d, _a: a }
    })
}

fn ename(e: u64) -> String {
    format!("c04e{e}")
}
fn rsname(c: u64) -> String {
    format!("c04rs{c}")
}

fn group_entry(u: Uuid, name: &str, desc: &str) -> Entry<EntryInit, EntryNew> {
    kanidmd_lib::entry_init!(
        (Attribute::Class, EntryClass::Object.to_value()),
        (Attribute::Class, EntryClass::Group.to_value()),
        (Attribute::Name, Value::new_iname(name)),
        (Attribute::Uuid, Value::Uuid(u)),
        (Attribute::Description, Value::new_utf8s(desc))
    )
}

/// fixed world: reader person in a group, and a target group whose description the profile
/// under test makes visible to the reader
fn build_world(ctx: &mut Ctx, srv: &Srv) {
    let ct = ctx.now();
    let mut w = ctx.rt.block_on(srv.idms.proxy_write(ct)).expect("write");
    let person: Entry<EntryInit, EntryNew> = kanidmd_lib::entry_init!(
        (Attribute::Class, EntryClass::Object.to_value()),
        (Attribute::Class, EntryClass::Account.to_value()),
        (Attribute::Class, EntryClass::Person.to_value()),
        (Attribute::Name, Value::new_iname("c04reader")),
        (Attribute::Uuid, Value::Uuid(U_READER)),
        (Attribute::Description, Value::new_utf8s("c04reader")),
        (Attribute::DisplayName, Value::new_utf8s("c04reader"))
    );
    let mut g = group_entry(U_GROUP, "c04readers", "readers");
    g.add_ava(Attribute::Member, Value::Refer(U_READER));
    let t = group_entry(U_TARGET, "c04target", "secret");
    w.qs_write.internal_create(vec![person, g, t]).expect("world");
    w.commit().expect("commit world");
}

fn apply_op(ctx: &mut Ctx, w: &mut kanidmd_lib::idm::server::IdmServerProxyWriteTransaction<'_>, op: &Op) -> Result<(), OperationError> {
    match op {
        Op::Create(e, d) => {
            let u = ctx.fresh();
            w.qs_write.internal_create(vec![group_entry(u, &ename(*e), &format!("d{d}"))])
        }
        Op::Modify(e, d) => w.qs_write.internal_modify(
            &filter!(f_eq(Attribute::Name, PartialValue::new_iname(&ename(*e)))),
            &ModifyList::new_purge_and_set(Attribute::Description, Value::new_utf8s(&format!("d{d}"))),
        ),
        Op::Delete(e) => w
            .qs_write
            .internal_delete(&filter!(f_eq(Attribute::Name, PartialValue::new_iname(&ename(*e))))),
        Op::Acp(true) => {
            let u = ctx.fresh();
            let mut e: Entry<EntryInit, EntryNew> = kanidmd_lib::entry_init!(
                (Attribute::Class, EntryClass::Object.to_value()),
                (Attribute::Class, EntryClass::AccessControlProfile.to_value()),
                (Attribute::Class, EntryClass::AccessControlSearch.to_value()),
                (Attribute::Class, EntryClass::AccessControlReceiverGroup.to_value()),
                (Attribute::Class, EntryClass::AccessControlTargetScope.to_value()),
                (Attribute::Name, Value::new_iname("c04acp")),
                (Attribute::Uuid, Value::Uuid(u)),
                (Attribute::Description, Value::new_utf8s("c04 profile under test")),
                (Attribute::AcpReceiverGroup, Value::Refer(U_GROUP)),
                (
                    Attribute::AcpTargetScope,
                    Value::new_json_filter(ProtoFilter::Eq("name".to_string(), "c04target".to_string()))
                )
            );
            for a in ["name", "description", "class", "uuid"] {
                e.add_ava(Attribute::AcpSearchAttr, Value::new_iutf8(a));
            }
            w.qs_write.internal_create(vec![e])
        }
        Op::Acp(false) => w
            .qs_write
            .internal_delete(&filter!(f_eq(Attribute::Name, PartialValue::new_iname("c04acp")))),
        Op::Domain(d) => w.qs_write.internal_modify_uuid(
            UUID_DOMAIN_INFO,
            &ModifyList::new_purge_and_set(Attribute::DomainDisplayName, Value::new_utf8s(&format!("c04dom{d}"))),
        ),
        Op::Oauth2(c, true) => {
            let u = ctx.fresh();
            let e: Entry<EntryInit, EntryNew> = kanidmd_lib::entry_init!(
                (Attribute::Class, EntryClass::Object.to_value()),
                (Attribute::Class, EntryClass::Account.to_value()),
                (Attribute::Class, EntryClass::OAuth2ResourceServer.to_value()),
                (Attribute::Class, EntryClass::OAuth2ResourceServerBasic.to_value()),
                (Attribute::Uuid, Value::Uuid(u)),
                (Attribute::Name, Value::new_iname(&rsname(*c))),
                (Attribute::DisplayName, Value::new_utf8s(&rsname(*c))),
                (Attribute::OAuth2RsOriginLanding, Value::new_url_s("https://app.example.com").expect("url")),
                (Attribute::OAuth2RsOrigin, Value::new_url_s("https://app.example.com/cb").expect("url")),
                (
                    Attribute::OAuth2RsScopeMap,
                    Value::new_oauthscopemap(U_GROUP, ["openid".to_string()].into_iter().collect()).expect("scopemap")
                )
            );
            w.qs_write.internal_create(vec![e])
        }
        Op::Oauth2(c, false) => w
            .qs_write
            .internal_delete(&filter!(f_eq(Attribute::Name, PartialValue::new_iname(&rsname(*c))))),
    }
}

fn num_suffix(s: &str, prefix: &str) -> u64 {
    s.strip_prefix(prefix).and_then(|r| r.parse::<u64>().ok()).map(|n| n + 1).unwrap_or(0)
}

/// what a later reader sees
fn view(ctx: &mut Ctx, srv: &Srv) -> Result<View, String> {
    let ct = ctx.now();
    let mut rd = ctx.rt.block_on(srv.idms.proxy_read()).map_err(|e| format!("proxy_read: {e:?}"))?;
    let _ = ct;
    let mut ents = vec![];
    for e in 0..NE {
        let r = rd
            .qs_read
            .internal_search(filter!(f_eq(Attribute::Name, PartialValue::new_iname(&ename(e)))))
            .map_err(|e| format!("search: {e:?}"))?;
        if let Some(x) = r.first() {
            let d = x
                .get_ava_set(Attribute::Description)
                .and_then(|vs| vs.to_proto_string_single())
                .unwrap_or_default();
            ents.push((e, num_suffix(&d, "d")));
        }
    }
    let reader = rd.qs_read.internal_search_uuid(U_READER).map_err(|e| format!("reader: {e:?}"))?;
    let ident = Identity::from_impersonate_entry_readwrite(reader);
    let f = filter!(f_eq(Attribute::Name, PartialValue::new_iname("c04target")));
    let acp = match rd.qs_read.impersonate_search_ext(f.clone(), f, &ident) {
        Ok(v) => v.iter().any(|e| e.get_ava_set(Attribute::Description).is_some()),
        Err(_) => false,
    };
    let dom = num_suffix(rd.qs_read.get_domain_display_name(), "c04dom");
    let mut o2 = vec![];
    for c in 0..NC {
        if rd.oauth2_openid_discovery(&rsname(c)).is_ok() {
            o2.push(c);
        }
    }
    Ok(View { ents, acp, dom, o2 })
}

fn label_code(l: &str) -> u64 {
    match l {
        "w:ts_max" => 1,
        "w:ruv" => 2,
        "w:identry" | "w:identry_del" => 3,
        "w:idl" => 4,
        "w:name" => 5,
        "commit" => 6,
        "post_commit" => 7,
        "begin_w" => 8,
        x if x.starts_with("r:") => 0,
        _ => 9,
    }
}

struct RunOut {
    res: u64, // 0 commit ok, 1 commit err, 2 op err, 3 begin err, 4 abandoned, 5 panic
    opsdone: u64,
    optrace: Vec<u64>,
    ctrace: Vec<u64>,
    labels: Vec<&'static str>,
    hit: bool,
    count: u64,
    err: String,
}

/// one write transaction under a policy; `abandon = Some(j)`: drop after j operations
fn run_txn(ctx: &mut Ctx, srv: &Srv, ops: &[Op], abandon: Option<usize>, policy: hook::Policy) -> RunOut {
    let ct = ctx.now();
    hook::install(policy);
    let mut pre: Option<u64> = None;
    let mut opsdone = 0u64;
    let mut err = String::new();
    let res = (|| {
        let mut w = match ctx.rt.block_on(srv.idms.proxy_write(ct)) {
            Ok(w) => w,
            Err(e) => {
                err = format!("{e:?}");
                return 3;
            }
        };
        if abandon == Some(0) {
            drop(w);
            return 4;
        }
        for (j, op) in ops.iter().enumerate() {
            if let Err(e) = apply_op(ctx, &mut w, op) {
                err = format!("{e:?}");
                drop(w);
                return 2;
            }
            opsdone += 1;
            if abandon == Some(j + 1) {
                drop(w);
                return 4;
            }
        }
        pre = Some(hook::count());
        match w.commit() {
            Ok(()) => 0,
            Err(e) => {
                err = format!("{e:?}");
                1
            }
        }
    })();
    let (count, labels, hit) = hook::take();
    let codes: Vec<u64> = labels.iter().map(|l| label_code(l)).collect();
    let split = pre.unwrap_or(count) as usize;
    RunOut {
        res,
        opsdone,
        optrace: codes[..split.min(codes.len())].to_vec(),
        ctrace: codes[split.min(codes.len())..].to_vec(),
        labels,
        hit: hit.is_some(),
        count,
        err,
    }
}

fn apply_model(v: &View, ops: &[Op]) -> Option<View> {
    let mut v = v.clone();
    for op in ops {
        match op {
            Op::Create(e, d) => {
                if v.ents.iter().any(|x| x.0 == *e) {
                    return None;
                }
                v.ents.push((*e, *d + 1));
                v.ents.sort();
            }
            Op::Modify(e, d) => {
                for x in v.ents.iter_mut() {
                    if x.0 == *e {
                        x.1 = *d + 1;
                    }
                }
            }
            Op::Delete(e) => {
                if !v.ents.iter().any(|x| x.0 == *e) {
                    return None;
                }
                v.ents.retain(|x| x.0 != *e);
            }
            Op::Acp(b) => {
                if v.acp == *b {
                    return None;
                }
                v.acp = *b;
            }
            Op::Domain(d) => v.dom = *d + 1,
            Op::Oauth2(c, b) => {
                if v.o2.contains(c) == *b {
                    return None;
                }
                if *b {
                    v.o2.push(*c);
                    v.o2.sort();
                } else {
                    v.o2.retain(|x| x != c);
                }
            }
        }
    }
    Some(v)
}

fn c_view(v: &View) -> String {
    capp(
        "mkcells",
        &[
            clist(&v.ents, |(e, d)| format!("({}, {})", cn(*e), cn(*d))),
            cbool(v.acp),
            cn(v.dom),
            clist(&v.o2, |c| cn(*c)),
        ],
    )
}
fn c_op(o: &Op) -> String {
    match o {
        Op::Create(e, d) => capp("OCreate", &[cn(*e), cn(*d + 1)]),
        Op::Modify(e, d) => capp("OModify", &[cn(*e), cn(*d + 1)]),
        Op::Delete(e) => capp("ODelete", &[cn(*e)]),
        Op::Acp(b) => capp("OAcp", &[cbool(*b)]),
        Op::Domain(d) => capp("ODomain", &[cn(*d + 1)]),
        Op::Oauth2(c, b) => capp("OOauth2", &[cn(*c), cbool(*b)]),
    }
}

fn changes_setting(before: &View, ops: &[Op]) -> bool {
    match apply_model(before, ops) {
        Some(a) => a.acp != before.acp || a.dom != before.dom || a.o2 != before.o2,
        None => false,
    }
}

#[allow(clippy::too_many_arguments)]
fn emit(sink: &mut Sink, before: &View, ops: &[Op], abandon: Option<usize>, k: u64, out: &RunOut, mem: &View, re: &View) {
    let coq = capp(
        "CTxn",
        &[
            c_view(before),
            clist(ops, c_op),
            copt(&abandon.map(|j| j as u64), |j| cn(*j)),
            cbool(out.hit),
            clist(&out.optrace, |l| cn(*l)),
            clist(&out.ctrace, |l| cn(*l)),
            cn(out.res),
            c_view(mem),
            c_view(re),
        ],
    );
    let failed = if out.hit { out.labels.last().copied().unwrap_or("?") } else { "-" };
    let txt = format!(
        "txn ops={:?} abandon={:?} fail_at={} label={} res={} ({}) opsdone={} points={} before={:?} mem={:?} reopened={:?}",
        ops, abandon, k, failed, out.res, out.err, out.opsdone, out.count, before, mem, re
    );
    // non-trivial: a fault hit inside commit, or an abandon / op failure after at least one applied operation
    let nontrivial = (out.hit && !out.ctrace.is_empty() && changes_setting(before, ops))
        || (abandon.is_some() && out.opsdone > 0)
        || (out.res == 2 && !out.hit && out.opsdone > 0);
    sink.case(coq, txt, nontrivial);
    sink.bump(match out.res {
        0 => "res_commit_ok",
        1 => "res_commit_err",
        2 => "res_op_err",
        3 => "res_begin_err",
        4 => "res_abandoned",
        _ => "res_other",
    });
    if out.hit {
        sink.bump(&format!("fault_at_{}", failed));
    }
}

fn remove_db(path: &Path) {
    let _ = std::fs::remove_file(path);
    let _ = std::fs::remove_file(path.with_extension("db-wal"));
    let _ = std::fs::remove_file(path.with_extension("db-shm"));
}

fn probe(args: &Args) -> i32 {
    let dir = args.out.join("scratch");
    std::fs::create_dir_all(&dir).expect("scratch");
    let path = dir.join("c04_probe.db");
    remove_db(&path);
    let rt = tokio::runtime::Builder::new_current_thread().enable_all().build().expect("rt");
    let mut ctx = Ctx { rt, tick: 0, uuidc: 0, pool: 4 };
    let srv = open_server(&mut ctx, &path);
    build_world(&mut ctx, &srv);
    let before = view(&mut ctx, &srv).expect("view");
    // find the COMMIT point of a transaction that changes the domain display name and the profile
    let ops = vec![Op::Domain(7), Op::Acp(true), Op::Oauth2(0, true), Op::Create(0, 1)];
    let mut bad = 0;
    let log = run_txn(&mut ctx, &srv, &[Op::Modify(0, 0)], None, hook::Policy::Log);
    println!("probe: a no-op transaction passes {} storage points: {:?}", log.count, log.labels);
    // Fail at COMMIT: count the points with a dry run that is abandoned before commit, then walk k upwards
    let mut k = 1;
    loop {
        let out = run_txn(&mut ctx, &srv, &ops, None, hook::Policy::Fail(k));
        if !out.hit {
            println!("probe: no COMMIT failure reached (k={k}, res={})", out.res);
            break;
        }
        if out.labels.last() == Some(&"commit") {
            let mem = view(&mut ctx, &srv).expect("view");
            println!("probe: storage failure at COMMIT (point {k}), commit() = Err({})", out.err);
            println!("probe:   before   = {:?}", before);
            println!("probe:   readers  = {:?}", mem);
            drop(srv);
            let srv2 = open_server(&mut ctx, &path);
            let re = view(&mut ctx, &srv2).expect("view");
            println!("probe:   reopened = {:?}", re);
            if mem != before {
                println!("probe: DEFECT publish-before-commit: readers see settings of a transaction whose commit FAILED");
                bad = 1;
            }
            if re != before {
                println!("probe: DEFECT the database changed although commit failed");
                bad = 1;
            }
            break;
        }
        k += 1;
    }
    // pool leak: pool of 1, COMMIT fails, the connection is not returned
    let path2 = dir.join("c04_probe2.db");
    remove_db(&path2);
    ctx.pool = 1;
    let srv = open_server(&mut ctx, &path2);
    build_world(&mut ctx, &srv);
    let mut k = 2; // (a failed BEGIN at k = 1 loses the connection in the same way)
    let out = loop {
        let out = run_txn(&mut ctx, &srv, &[Op::Create(2, 1)], None, hook::Policy::Fail(k));
        if !out.hit || out.labels.last() == Some(&"commit") {
            break out;
        }
        k += 1;
    };
    println!("probe: pool=1: Fail({k}) hit {:?}, commit() = {} {}", out.labels.last(), out.res, out.err);
    if out.hit && out.labels.last() == Some(&"commit") {
        match view(&mut ctx, &srv) {
            Ok(v) => println!("probe: pool=1, after a failed COMMIT a read still works: {:?}", v),
            Err(e) => {
                println!("probe: SIDE FINDING connection-leak: pool=1, after ONE failed COMMIT every later transaction fails: {e}");
            }
        }
    }
    drop(srv);
    remove_db(&path);
    remove_db(&path2);
    let _ = std::fs::remove_dir_all(&dir);
    bad
}

fn main() {
    let args = parse_args();
    if args.extra.iter().any(|a| a == "--probe") {
        std::process::exit(probe(&args));
    }
    let mut rng = Rng::new(args.seed);
    let mut sink = Sink::new(&args, "KV.C04.Model", 60);
    sink.rule = "plan of write transactions (entry create/modify/delete, access profile create/delete, domain display name, OAuth2 client create/delete, \
mixed) on a real file-backed IdmServer; for each: Fail(k) for EVERY storage point k (exhaustive: until a run passes fewer than k points and commits), \
abandon after every operation boundary, and self-failing operations; after each run a read transaction and a reopened server are dumped. \
non-trivial = the fault hit inside commit of a transaction that changes a published setting, or an abandon / operation failure after at least one applied operation".into();
    let rt = tokio::runtime::Builder::new_current_thread().enable_all().build().expect("rt");
    let dir = args.out.join("scratch");
    std::fs::create_dir_all(&dir).expect("scratch");
    let path = dir.join("c04.db");
    remove_db(&path);
    let mut ctx = Ctx { rt, tick: 0, uuidc: 0, pool: 4 };
    let mut srv = open_server(&mut ctx, &path);
    build_world(&mut ctx, &srv);

    // the plan: fixed representative transactions + random mixed ones
    let mut plan: Vec<Vec<Op>> = vec![
        vec![Op::Create(0, 1)],
        vec![Op::Domain(1)],
        vec![Op::Acp(true)],
        vec![Op::Oauth2(0, true)],
    ];
    if args.thorough {
        plan.extend(vec![
            vec![Op::Modify(0, 2)],
            vec![Op::Create(1, 1), Op::Domain(2), Op::Acp(false)],
            vec![Op::Delete(0)],
            vec![Op::Oauth2(0, false), Op::Oauth2(1, true)],
            vec![Op::Acp(true), Op::Oauth2(2, true), Op::Modify(1, 3), Op::Domain(3)],
        ]);
    } else {
        plan.push(vec![Op::Modify(0, 2), Op::Delete(0), Op::Acp(false), Op::Domain(2)]);
    }
    let n_random = if args.thorough { 6 } else { 0 };
    let mut before = view(&mut ctx, &srv).expect("view0");
    let total = plan.len() + n_random;
    for ti in 0..total {
        let ops: Vec<Op> = if ti < plan.len() {
            plan[ti].clone()
        } else {
            // random valid transaction on the current state
            let mut cur = before.clone();
            let mut ops = vec![];
            for _ in 0..rng.range(1, 4) {
                for _try in 0..20 {
                    let o = match rng.below(6) {
                        0 => Op::Create(rng.below(NE), rng.below(4)),
                        1 => Op::Modify(rng.below(NE), rng.below(4)),
                        2 => Op::Delete(rng.below(NE)),
                        3 => Op::Acp(!cur.acp),
                        4 => Op::Domain(rng.below(5)),
                        _ => Op::Oauth2(rng.below(NC), rng.chance(1, 2)),
                    };
                    if let Some(n) = apply_model(&cur, std::slice::from_ref(&o)) {
                        cur = n;
                        ops.push(o);
                        break;
                    }
                }
            }
            ops
        };
        // (a) abandon at every operation boundary
        for j in 0..=ops.len() {
            let out = run_txn(&mut ctx, &srv, &ops, Some(j), hook::Policy::Log);
            let mem = view(&mut ctx, &srv).expect("view");
            drop(srv);
            srv = open_server(&mut ctx, &path);
            let re = view(&mut ctx, &srv).expect("view");
            emit(&mut sink, &before, &ops, Some(j), 0, &out, &mem, &re);
            before = re;
        }
        // (b) a self-failing operation after the real ones (delete of an absent entry / duplicate create)
        {
            let mut bad = ops.clone();
            let absent = (0..NE).find(|e| apply_model(&before, &ops).map(|v| !v.ents.iter().any(|x| x.0 == *e)).unwrap_or(false));
            if let Some(e) = absent {
                bad.push(Op::Delete(e));
                let out = run_txn(&mut ctx, &srv, &bad, None, hook::Policy::Log);
                let mem = view(&mut ctx, &srv).expect("view");
                drop(srv);
                srv = open_server(&mut ctx, &path);
                let re = view(&mut ctx, &srv).expect("view");
                emit(&mut sink, &before, &bad, None, 0, &out, &mem, &re);
                before = re;
            }
        }
        // (c) every storage point
        let mut k = 1u64;
        loop {
            let out = run_txn(&mut ctx, &srv, &ops, None, hook::Policy::Fail(k));
            let mem = match view(&mut ctx, &srv) {
                Ok(v) => v,
                Err(e) => {
                    eprintln!("view after fault failed: {e}");
                    View { ents: vec![], acp: false, dom: 999, o2: vec![] }
                }
            };
            drop(srv);
            srv = open_server(&mut ctx, &path);
            let re = view(&mut ctx, &srv).expect("view");
            emit(&mut sink, &before, &ops, None, k, &out, &mem, &re);
            sink.bump("fault_runs");
            let finished = !out.hit;
            before = re;
            if finished {
                sink.add_stat("storage_points_total", out.count);
                break;
            }
            k += 1;
            if k > 2000 {
                panic!("runaway");
            }
        }
    }
    drop(srv);
    remove_db(&path);
    let _ = std::fs::remove_dir_all(&dir);
    sink.finish();
}
