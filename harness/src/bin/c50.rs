//! C50 — synchronisation agreements stay inside their own scope.
//!
//! One history = one fresh in-memory IdmServer with two sync agreements (A1, A2), three native
//! entries (group, person, recycled group), the built-in group idm_admins, and a read-write user
//! whose access profiles let him search everything and modify ACP_ATTRS on everything.
//! Every operation of a random history is run against the REAL server:
//!   OSync  — `IdmServerProxyWriteTransaction::scim_sync_apply` with a random ScimSyncRequest (entry
//!            ids: unused, owned by this agreement, owned by the other one, native, recycled, unused
//!            ids in the protected system range, a built-in entry; random schemas / attributes /
//!            external ids / retention mode; refresh or active with right or wrong cookie; sync,
//!            user, internal or wrong-scope identity); committed only on Ok, as the server's actor does
//!   OYield — internal modify of sync_yield_authority of an agreement
//!   OUser  — `impersonate_modify` of one attribute of one entry as the user.
//! After every operation all tracked entries and both agreements are read back. One case =
//! (state before, operation, answer, state after); the Coq model (KV.C50.Model) must reproduce
//! answer and state (`agree`), the property predicate is evaluated on the observed states (`pcheck`).
//! `c50 --probe` replays the two defects this check found (a stub created in the protected uuid range and
//! tagged built-in; password_import replacing a yielded primary credential) and exits 1 if either is
//! back (both were repaired by /repo 7a11b7d, /verif/fixes/C50.patch).
use kanidm_proto::internal::Filter as ProtoFilter;
use kanidm_proto::scim_v1::*;
use kanidmd_lib::entry::{Entry, EntryCommitted, EntryInit, EntryNew, EntrySealed};
use kanidmd_lib::idm::scim::ScimSyncUpdateEvent;
use kanidmd_lib::idm::server::IdmServer;
use kanidmd_lib::prelude::*;
use kanidmd_lib::schema::SchemaTransaction;
use kanidmd_lib::server::identity::AccessScope;
use kanidmd_lib::testkit::{setup_idm_test, TestConfiguration};
use kanidmd_lib::verif_hooks::c23::{ident_internal, ident_synch, ident_user};
use kanidmd_lib::verif_hooks::c28::cred_uuid;
use kvh::*;
use std::collections::BTreeMap;

const PW: [&str; 2] = [
    "{SSHA512}JwrSUHkI7FTAfHRVR6KoFlSN0E3dmaQWARjZ+/UsShYlENOqDtFVU77HJLLrY2MuSp0jve52+pwtdVl2QUAHukQ0XUf5LDtM",
    "{SHA}W6ph5Mm5Pz8GgiULbPgzG37mj9g=",
];
const T0: u64 = 2_000_000_000;

// ---- tables shared with KV.C50.Model
const ATTRS: [(u64, &str); 12] = [
    (0, "name"),
    (1, "displayname"),
    (2, "description"),
    (3, "legalname"),
    (4, "grant_ui_hint"),
    (5, "primary_credential"),
    (6, "password_import"),
    (7, "c50bogus"),
    (10, "user_auth_token_session"),
    (11, "oauth2_session"),
    (12, "oauth2_consent_scope_map"),
    (13, "credential_update_intent_token"),
];
const CLASSES: [(u64, &str); 7] = [(0, "object"), (1, "sync_object"), (2, "group"), (3, "account"), (4, "person"), (5, "builtin"), (9, "c50nosuchclass")];
const ACP_ATTRS: [u64; 5] = [0, 1, 2, 3, 10];
const OBS_ATTRS: [u64; 4] = [0, 1, 2, 3];

fn aname(c: u64) -> &'static str {
    ATTRS.iter().find(|(k, _)| *k == c).map(|(_, n)| *n).expect("attr code")
}
fn acode(n: &str) -> Option<u64> {
    ATTRS.iter().find(|(_, m)| *m == n).map(|(k, _)| *k)
}
fn kname(c: u64) -> &'static str {
    CLASSES.iter().find(|(k, _)| *k == c).map(|(_, n)| *n).expect("class code")
}
fn kcode(n: &str) -> Option<u64> {
    CLASSES.iter().find(|(_, m)| *m == n).map(|(k, _)| *k)
}
fn vprefix(a: u64) -> &'static str {
    match a {
        0 => "c50n",
        1 => "d",
        2 => "desc",
        3 => "l",
        _ => "v",
    }
}
fn vstr(a: u64, v: u64) -> String {
    if a == 6 {
        PW[(v % 2) as usize].to_string()
    } else {
        format!("{}{}", vprefix(a), v)
    }
}

fn d(s: u64) -> Duration {
    Duration::from_secs(s)
}
fn agr_uuid(k: u64) -> Uuid {
    Uuid::from_u128(0xc50a_0000_0000_0000_0000_0000_0000_0000 + k as u128)
}
/// index -> uuid of the entry pool: 1..=8 unused dynamic ids, 10 native group, 11 native person,
/// 12 native recycled group, 20/21 unused ids in the protected range, 30 idm_admins
fn pool_uuid(ix: u64) -> Uuid {
    match ix {
        20 | 21 => Uuid::from_u128(0xfffe_0000_c500 + (ix - 19) as u128),
        30 => UUID_IDM_ADMINS,
        _ => Uuid::from_u128(0xc50e_0000_0000_0000_0000_0000_0000_0000 + ix as u128),
    }
}
const POOL: [u64; 14] = [1, 2, 3, 4, 5, 6, 7, 8, 10, 11, 12, 20, 21, 30];

// ---- model-side data (mirrors the Coq types)
#[derive(Clone, Debug, PartialEq)]
struct MEntry {
    live: bool,
    owner: Option<u128>,
    cls: Vec<u64>,
    scls: Vec<u64>,
    ext: Option<u64>,
    spn: bool,
    attrs: Vec<(u64, u64)>,
}
#[derive(Clone, Debug, PartialEq)]
struct MAgr {
    cookie: Option<u64>,
    yld: Vec<u64>,
}
#[derive(Clone, Debug, PartialEq)]
struct MState {
    ents: Vec<(u128, MEntry)>,
    agrs: Vec<(u128, MAgr)>,
    tick: u64,
}
#[derive(Clone, Debug)]
enum Sch {
    Cls(u64),
    Bad,
}
#[derive(Clone, Debug)]
struct SEnt {
    ix: u64,
    sch: Vec<Sch>,
    ext: Option<u64>,
    attrs: Vec<(u64, u64)>,
}
#[derive(Clone, Debug)]
enum Retain {
    Ignore,
    Retain(Vec<u64>),
    Delete(Vec<u64>),
}
#[derive(Clone, Debug)]
enum SState {
    Refresh,
    Active(u64),
}
#[derive(Clone, Copy, Debug, PartialEq)]
enum IKind {
    Synch,
    SynchRW,
    User,
    Internal,
}
#[derive(Clone, Debug)]
struct SReq {
    ik: IKind,
    agr: u64,
    from: SState,
    to: SState,
    ents: Vec<SEnt>,
    retain: Retain,
}
#[derive(Clone, Debug)]
enum UMod {
    Set(u64, u64),
    Purge(u64),
}
#[derive(Clone, Debug)]
enum Op {
    Sync(SReq),
    Yield(u64, Vec<u64>),
    User(u64, UMod),
}

// ---- Coq printers
fn c_optn(o: &Option<u64>) -> String {
    copt(o, |x| cn(*x))
}
fn c_ln(l: &[u64]) -> String {
    clist(l, |x| cn(*x))
}
fn c_pairs(l: &[(u64, u64)]) -> String {
    clist(l, |(a, b)| format!("({}, {})", cn(*a), cn(*b)))
}
fn c_entry(e: &MEntry) -> String {
    capp("mkE", &[cbool(e.live), copt(&e.owner, |x| cn128(*x)), c_ln(&e.cls), c_ln(&e.scls), c_optn(&e.ext), cbool(e.spn), c_pairs(&e.attrs)])
}
fn c_state(s: &MState) -> String {
    let ents = clist(&s.ents, |(u, e)| format!("({}, {})", cn128(*u), c_entry(e)));
    let agrs = clist(&s.agrs, |(u, a)| format!("({}, {})", cn128(*u), capp("mkA", &[c_optn(&a.cookie), c_ln(&a.yld)])));
    capp("mkS", &[ents, agrs, cn(s.tick)])
}
fn c_sstate(s: &SState) -> String {
    match s {
        SState::Refresh => "SRefresh".into(),
        SState::Active(c) => capp("SActive", &[cn(*c)]),
    }
}
fn c_ids(l: &[u64]) -> String {
    clist(l, |ix| cn128(pool_uuid(*ix).as_u128()))
}
fn c_op(o: &Op) -> String {
    match o {
        Op::Sync(r) => {
            let ik = match r.ik {
                IKind::Synch => "IKSynch",
                IKind::SynchRW => "IKSynchRW",
                IKind::User => "IKUser",
                IKind::Internal => "IKInternal",
            };
            let ents = clist(&r.ents, |se| {
                let sch = clist(&se.sch, |s| match s {
                    Sch::Cls(c) => capp("SCls", &[cn(*c)]),
                    Sch::Bad => "SBad".into(),
                });
                capp("mkSE", &[cn128(pool_uuid(se.ix).as_u128()), sch, c_optn(&se.ext), c_pairs(&se.attrs)])
            });
            let rt = match &r.retain {
                Retain::Ignore => "RIgnore".to_string(),
                Retain::Retain(l) => capp("RRetain", &[c_ids(l)]),
                Retain::Delete(l) => capp("RDelete", &[c_ids(l)]),
            };
            capp("OSync", &[capp("mkR", &[ik.into(), cn128(agr_uuid(r.agr).as_u128()), c_sstate(&r.from), c_sstate(&r.to), ents, rt])])
        }
        Op::Yield(a, ys) => capp("OYield", &[cn128(agr_uuid(*a).as_u128()), c_ln(ys)]),
        Op::User(t, m) => {
            let mm = match m {
                UMod::Set(a, v) => capp("USet", &[cn(*a), cn(*v)]),
                UMod::Purge(a) => capp("UPurge", &[cn(*a)]),
            };
            capp("OUser", &[cn128(pool_uuid(*t).as_u128()), mm])
        }
    }
}
fn err_name(e: &OperationError) -> &'static str {
    match e {
        OperationError::AccessDenied => "EDenied",
        OperationError::InvalidSyncState => "ESyncState",
        OperationError::InvalidEntryState => "EEntryState",
        OperationError::ModifyAssertionFailed => "EAssert",
        OperationError::SchemaViolation(_) => "ESchema",
        OperationError::EmptyRequest => "EEmpty",
        OperationError::NoMatchingEntries => "ENoMatch",
        _ => "EOther",
    }
}

// ---- the server side
struct World {
    rt: tokio::runtime::Runtime,
    idms: IdmServer,
    user: Identity,
    user_entry: std::sync::Arc<Entry<EntrySealed, EntryCommitted>>,
    strs: Intern<String>,
    creds: BTreeMap<Uuid, u64>,
    now: u64,
}

fn decode(strs: &mut Intern<String>, a: u64, s: &str) -> u64 {
    if let Some(rest) = s.strip_prefix(vprefix(a)) {
        if let Ok(v) = rest.parse::<u64>() {
            if v < 1_000_000 {
                return v;
            }
        }
    }
    1_000_000 + strs.id(&s.to_string())
}

impl World {
    fn new() -> World {
        let rt = tokio::runtime::Builder::new_current_thread().enable_all().build().expect("rt");
        let (idms, _delayed, _audit) = rt.block_on(setup_idm_test(TestConfiguration::default()));
        let user_u = Uuid::from_u128(0xc50f_0000_0000_0000_0000_0000_0000_0001);
        let users_u = Uuid::from_u128(0xc50f_0000_0000_0000_0000_0000_0000_0002);
        {
            let mut w = rt.block_on(idms.proxy_write(d(T0))).expect("w");
            let mut es: Vec<Entry<EntryInit, EntryNew>> = vec![];
            for k in 1..=2u64 {
                es.push(kanidmd_lib::entry_init!(
                    (Attribute::Class, EntryClass::Object.to_value()),
                    (Attribute::Class, EntryClass::SyncAccount.to_value()),
                    (Attribute::Name, Value::new_iname(&format!("c50agr{k}"))),
                    (Attribute::Uuid, Value::Uuid(agr_uuid(k)))
                ));
            }
            for ix in [10u64, 12] {
                es.push(kanidmd_lib::entry_init!(
                    (Attribute::Class, EntryClass::Object.to_value()),
                    (Attribute::Class, EntryClass::Group.to_value()),
                    (Attribute::Name, Value::new_iname(&vstr(0, ix * 10))),
                    (Attribute::Description, Value::new_utf8s(&vstr(2, 0))),
                    (Attribute::Uuid, Value::Uuid(pool_uuid(ix)))
                ));
            }
            es.push(kanidmd_lib::entry_init!(
                (Attribute::Class, EntryClass::Object.to_value()),
                (Attribute::Class, EntryClass::Account.to_value()),
                (Attribute::Class, EntryClass::Person.to_value()),
                (Attribute::Name, Value::new_iname(&vstr(0, 110))),
                (Attribute::DisplayName, Value::new_utf8s(&vstr(1, 0))),
                (Attribute::Uuid, Value::Uuid(pool_uuid(11)))
            ));
            es.push(kanidmd_lib::entry_init!(
                (Attribute::Class, EntryClass::Object.to_value()),
                (Attribute::Class, EntryClass::Account.to_value()),
                (Attribute::Class, EntryClass::Person.to_value()),
                (Attribute::Name, Value::new_iname("c50user")),
                (Attribute::DisplayName, Value::new_utf8s("c50user")),
                (Attribute::Uuid, Value::Uuid(user_u))
            ));
            es.push(kanidmd_lib::entry_init!(
                (Attribute::Class, EntryClass::Object.to_value()),
                (Attribute::Class, EntryClass::Group.to_value()),
                (Attribute::Name, Value::new_iname("c50users")),
                (Attribute::Member, Value::Refer(user_u)),
                (Attribute::Uuid, Value::Uuid(users_u))
            ));
            let mut acp_s: Entry<EntryInit, EntryNew> = kanidmd_lib::entry_init!(
                (Attribute::Class, EntryClass::Object.to_value()),
                (Attribute::Class, EntryClass::AccessControlProfile.to_value()),
                (Attribute::Class, EntryClass::AccessControlSearch.to_value()),
                (Attribute::Class, EntryClass::AccessControlReceiverGroup.to_value()),
                (Attribute::Class, EntryClass::AccessControlTargetScope.to_value()),
                (Attribute::Name, Value::new_iname("c50acpsearch")),
                (Attribute::Uuid, Value::Uuid(Uuid::from_u128(0xc50f_0000_0000_0000_0000_0000_0000_0003))),
                (Attribute::Description, Value::new_utf8s("c50 search everything")),
                (Attribute::AcpReceiverGroup, Value::Refer(users_u)),
                (Attribute::AcpTargetScope, Value::new_json_filter(ProtoFilter::Pres("class".to_string())))
            );
            for a in ["class", "uuid", "name", "displayname", "description", "legalname", "spn"] {
                acp_s.add_ava(Attribute::AcpSearchAttr, Value::new_iutf8(a));
            }
            es.push(acp_s);
            let mut acp_m: Entry<EntryInit, EntryNew> = kanidmd_lib::entry_init!(
                (Attribute::Class, EntryClass::Object.to_value()),
                (Attribute::Class, EntryClass::AccessControlProfile.to_value()),
                (Attribute::Class, EntryClass::AccessControlModify.to_value()),
                (Attribute::Class, EntryClass::AccessControlReceiverGroup.to_value()),
                (Attribute::Class, EntryClass::AccessControlTargetScope.to_value()),
                (Attribute::Name, Value::new_iname("c50acpmodify")),
                (Attribute::Uuid, Value::Uuid(Uuid::from_u128(0xc50f_0000_0000_0000_0000_0000_0000_0004))),
                (Attribute::Description, Value::new_utf8s("c50 modify ACP_ATTRS on everything")),
                (Attribute::AcpReceiverGroup, Value::Refer(users_u)),
                (Attribute::AcpTargetScope, Value::new_json_filter(ProtoFilter::Pres("class".to_string())))
            );
            for a in ACP_ATTRS {
                acp_m.add_ava(Attribute::AcpModifyRemovedAttr, Value::new_iutf8(aname(a)));
                acp_m.add_ava(Attribute::AcpModifyPresentAttr, Value::new_iutf8(aname(a)));
            }
            es.push(acp_m);
            w.qs_write.internal_create(es).expect("population");
            w.qs_write.internal_delete_uuid(pool_uuid(12)).expect("recycle native");
            w.commit().expect("commit");
        }
        let user_entry = {
            let mut w = rt.block_on(idms.proxy_write(d(T0 + 1))).expect("w");
            w.qs_write.internal_search_uuid(user_u).expect("user")
        };
        let user = ident_user(user_entry.clone(), AccessScope::ReadWrite);
        World { rt, idms, user, user_entry, strs: Intern::new(), creds: BTreeMap::new(), now: T0 + 10 }
    }

    fn snapshot(&mut self, tick: u64) -> MState {
        let mut w = self.rt.block_on(self.idms.proxy_write(d(self.now))).expect("w");
        let mut ents = vec![];
        let mut pool: Vec<Uuid> = POOL.iter().map(|ix| pool_uuid(*ix)).collect();
        pool.sort();
        for u in pool {
            let found = w
                .qs_write
                .internal_search(kanidmd_lib::filter_all!(f_eq(Attribute::Uuid, PartialValue::Uuid(u))))
                .expect("search");
            let Some(e) = found.first() else { continue };
            let classes: Vec<String> = e.get_ava_set(Attribute::Class).map(|vs| vs.to_proto_string_clone_iter().collect()).unwrap_or_default();
            assert!(!classes.iter().any(|c| c == "tombstone"), "tombstone in pool");
            let live = !classes.iter().any(|c| c == "recycled");
            let mut cls: Vec<u64> = classes.iter().filter_map(|c| kcode(c)).collect();
            cls.sort();
            let mut scls: Vec<u64> = e
                .get_ava_set(Attribute::SyncClass)
                .map(|vs| vs.to_proto_string_clone_iter().map(|c| kcode(&c).unwrap_or(999)).collect())
                .unwrap_or_default();
            scls.sort();
            let owner = e.get_ava_refer(Attribute::SyncParentUuid).and_then(|s| s.iter().next().copied()).map(|u| u.as_u128());
            let ext = e.get_ava_set(Attribute::SyncExternalId).and_then(|vs| vs.to_proto_string_clone_iter().next()).map(|s| {
                s.strip_prefix('x').and_then(|r| r.parse::<u64>().ok()).unwrap_or(999_999)
            });
            let spn = e.attribute_pres(Attribute::Spn);
            let mut attrs = vec![];
            for a in OBS_ATTRS {
                if let Some(vs) = e.get_ava_set(Attribute::from(aname(a))) {
                    let vals: Vec<String> = vs.to_proto_string_clone_iter().collect();
                    assert_eq!(vals.len(), 1, "single valued");
                    attrs.push((a, decode(&mut self.strs, a, &vals[0])));
                }
            }
            if let Some(c) = e.get_ava_single_credential(Attribute::PrimaryCredential) {
                let cu = cred_uuid(c);
                // a credential is named by the tick of the operation after which it was first seen
                let v = *self.creds.entry(cu).or_insert(tick.saturating_sub(1));
                attrs.push((5, v));
            }
            attrs.sort();
            ents.push((u.as_u128(), MEntry { live, owner, cls, scls, ext, spn, attrs }));
        }
        let mut agrs = vec![];
        for k in 1..=2u64 {
            let e = w.qs_write.internal_search_uuid(agr_uuid(k)).expect("agreement");
            let cookie = e.get_ava_single_private_binary(Attribute::SyncCookie).map(|b| b.first().copied().unwrap_or(0) as u64);
            let mut yld: Vec<u64> = e
                .get_ava_set(Attribute::SyncYieldAuthority)
                .map(|vs| vs.to_proto_string_clone_iter().map(|s| acode(&s).unwrap_or(999)).collect())
                .unwrap_or_default();
            yld.sort();
            agrs.push((agr_uuid(k).as_u128(), MAgr { cookie, yld }));
        }
        MState { ents, agrs, tick }
    }

    fn scim_request(r: &SReq) -> ScimSyncRequest {
        let st = |s: &SState| match s {
            SState::Refresh => ScimSyncState::Refresh,
            SState::Active(c) => ScimSyncState::Active { cookie: vec![*c as u8] },
        };
        let entries = r
            .ents
            .iter()
            .map(|se| {
                let mut attrs = BTreeMap::new();
                for (a, v) in &se.attrs {
                    attrs.insert(aname(*a).to_string(), ScimValue::Simple(ScimAttr::String(vstr(*a, *v))));
                }
                ScimEntry {
                    schemas: se
                        .sch
                        .iter()
                        .map(|s| match s {
                            Sch::Cls(c) => format!("{}{}", SCIM_SCHEMA_SYNC_1, kname(*c)),
                            Sch::Bad => "urn:ietf:params:scim:schemas:core:2.0:User".to_string(),
                        })
                        .collect(),
                    id: pool_uuid(se.ix),
                    external_id: se.ext.map(|x| format!("x{x}")),
                    meta: None,
                    attrs,
                }
            })
            .collect();
        let ids = |l: &Vec<u64>| l.iter().map(|ix| pool_uuid(*ix)).collect::<Vec<_>>();
        ScimSyncRequest {
            from_state: st(&r.from),
            to_state: st(&r.to),
            entries,
            retain: match &r.retain {
                Retain::Ignore => ScimSyncRetentionMode::Ignore,
                Retain::Retain(l) => ScimSyncRetentionMode::Retain(ids(l)),
                Retain::Delete(l) => ScimSyncRetentionMode::Delete(ids(l)),
            },
        }
    }

    fn apply(&mut self, o: &Op) -> Result<(), OperationError> {
        self.now += 1;
        let ct = d(self.now);
        let mut w = self.rt.block_on(self.idms.proxy_write(ct)).expect("w");
        let r = match o {
            Op::Sync(r) => {
                let ident = match r.ik {
                    IKind::Synch => ident_synch(agr_uuid(r.agr)),
                    IKind::SynchRW => ident_synch(agr_uuid(r.agr)).project_with_scope(AccessScope::ReadWrite),
                    IKind::User => ident_user(self.user_entry.clone(), AccessScope::Synchronise),
                    IKind::Internal => ident_internal(0),
                };
                let req = Self::scim_request(r);
                w.scim_sync_apply(&ScimSyncUpdateEvent { ident }, &req, ct)
            }
            Op::Yield(a, ys) => {
                let mut ml = vec![Modify::Purged(Attribute::SyncYieldAuthority)];
                for y in ys {
                    ml.push(Modify::Present(Attribute::SyncYieldAuthority, Value::new_iutf8(aname(*y))));
                }
                w.qs_write.internal_modify_uuid(agr_uuid(*a), &ModifyList::new_list(ml))
            }
            Op::User(t, m) => {
                let val = |a: u64, v: u64| if a == 0 { Value::new_iname(&vstr(a, v)) } else { Value::new_utf8s(&vstr(a, v)) };
                let ml = match m {
                    UMod::Set(a, v) => vec![Modify::Purged(Attribute::from(aname(*a))), Modify::Present(Attribute::from(aname(*a)), val(*a, *v))],
                    UMod::Purge(a) => vec![Modify::Purged(Attribute::from(aname(*a)))],
                };
                let f = kanidmd_lib::filter!(f_eq(Attribute::Uuid, PartialValue::Uuid(pool_uuid(*t))));
                w.qs_write.impersonate_modify(&f, &f, &ModifyList::new_list(ml), &self.user)
            }
        };
        if r.is_ok() {
            w.commit().expect("commit");
        }
        r
    }
}

// ---- generator
fn gen_sent(rng: &mut Rng, ix: u64) -> SEnt {
    let combo = rng.below(100);
    let mut sch: Vec<Sch> = if combo < 40 {
        vec![Sch::Cls(2)]
    } else if combo < 78 {
        vec![Sch::Cls(3), Sch::Cls(4)]
    } else if combo < 84 {
        vec![Sch::Cls(2), Sch::Cls(3), Sch::Cls(4)]
    } else if combo < 87 {
        vec![Sch::Cls(4)]
    } else if combo < 89 {
        vec![Sch::Cls(3)]
    } else if combo < 92 {
        vec![Sch::Cls(2), Sch::Cls(4)]
    } else if combo < 94 {
        vec![Sch::Cls(2), Sch::Cls(5)]
    } else if combo < 95 {
        vec![Sch::Cls(0)]
    } else if combo < 97 {
        vec![Sch::Cls(9)]
    } else if combo < 99 {
        vec![Sch::Cls(2), Sch::Bad]
    } else {
        vec![]
    };
    rng.shuffle(&mut sch);
    let has = |c: u64| sch.iter().any(|s| matches!(s, Sch::Cls(k) if *k == c));
    let mut attrs: Vec<(u64, u64)> = vec![];
    if (has(2) || has(4)) && rng.chance(95, 100) {
        attrs.push((0, ix * 10 + rng.below(3)));
    }
    if has(3) && rng.chance(95, 100) {
        attrs.push((1, rng.below(4)));
    }
    if has(2) && rng.chance(50, 100) {
        attrs.push((2, rng.below(4)));
    }
    if has(4) && rng.chance(50, 100) {
        attrs.push((3, rng.below(4)));
    }
    if has(4) && rng.chance(28, 100) || rng.chance(2, 100) {
        attrs.push((6, rng.below(2)));
    }
    // attributes outside the requested classes / not synchronisable / unknown
    if rng.chance(6, 100) {
        let a = *rng.pick(&[0u64, 1, 2, 3, 4, 7]);
        if !attrs.iter().any(|(k, _)| *k == a) {
            attrs.push((a, if a == 0 { ix * 10 } else { rng.below(4) }));
        }
    }
    attrs.sort();
    let ext = if rng.chance(92, 100) { Some(ix * 10 + rng.below(2)) } else { None };
    SEnt { ix, sch, ext, attrs }
}

fn gen_op(rng: &mut Rng, cur: &MState) -> Op {
    let k = rng.below(100);
    if k < 62 {
        let agr = if rng.chance(3, 100) { 9 } else if rng.chance(62, 100) { 1 } else { 2 };
        let ik = match rng.below(100) {
            0..=2 => IKind::SynchRW,
            3..=5 => IKind::User,
            6..=8 => IKind::Internal,
            _ => IKind::Synch,
        };
        let cookie = cur.agrs.iter().find(|(u, _)| *u == agr_uuid(agr).as_u128()).and_then(|(_, a)| a.cookie);
        let from = match cookie {
            Some(c) => match rng.below(100) {
                0..=71 => SState::Active(c),
                72..=91 => SState::Refresh,
                _ => SState::Active(c + 1),
            },
            None => {
                if rng.chance(92, 100) {
                    SState::Refresh
                } else {
                    SState::Active(rng.range(1, 4))
                }
            }
        };
        let to = if rng.chance(75, 100) { SState::Active(rng.range(1, 4)) } else { SState::Refresh };
        // ids: mostly the dynamic pool; sometimes native / recycled / protected range / built-in
        let n = match rng.below(100) {
            0..=9 => 0,
            10..=44 => 1,
            45..=74 => 2,
            75..=91 => 3,
            _ => 4,
        };
        let mut ents = vec![];
        let me = agr_uuid(agr).as_u128();
        let state_of = |ix: u64| cur.ents.iter().find(|(u, _)| *u == pool_uuid(ix).as_u128()).map(|(_, e)| e);
        let dynamic: Vec<u64> = (1..=8).collect();
        let good: Vec<u64> = dynamic.iter().copied().filter(|ix| state_of(*ix).map(|e| e.live && e.owner == Some(me)).unwrap_or(true)).collect();
        let foreign: Vec<u64> = dynamic.iter().copied().filter(|ix| state_of(*ix).map(|e| e.live && e.owner != Some(me)).unwrap_or(false)).collect();
        let dead: Vec<u64> = dynamic.iter().copied().filter(|ix| state_of(*ix).map(|e| !e.live).unwrap_or(false)).collect();
        for _ in 0..n {
            let ix = match rng.below(100) {
                0..=74 if !good.is_empty() => *rng.pick(&good),
                75..=79 if !foreign.is_empty() => *rng.pick(&foreign),
                80..=82 if !dead.is_empty() => *rng.pick(&dead),
                0..=84 => rng.range(1, 8),
                85..=88 => 10,
                89..=91 => 11,
                92..=93 => 12,
                94..=97 => *rng.pick(&[20u64, 21]),
                _ => 30,
            };
            ents.push(gen_sent(rng, ix));
        }
        // in a refresh keep what the agreement already owns most of the time
        if matches!(from, SState::Refresh) && rng.chance(70, 100) {
            for (u, e) in &cur.ents {
                if e.live && e.owner == Some(agr_uuid(agr).as_u128()) && rng.chance(85, 100) {
                    if let Some(ix) = POOL.iter().find(|ix| pool_uuid(**ix).as_u128() == *u) {
                        if !ents.iter().any(|s: &SEnt| s.ix == *ix) {
                            let mut se = gen_sent(rng, *ix);
                            // keep it acceptable: same class shape as stored
                            if e.cls.contains(&3) || e.cls.contains(&4) {
                                se.sch = vec![Sch::Cls(3), Sch::Cls(4)];
                                se.attrs = vec![(0, ix * 10), (1, rng.below(4))];
                            } else {
                                se.sch = vec![Sch::Cls(2)];
                                se.attrs = vec![(0, ix * 10)];
                            }
                            ents.push(se);
                        }
                    }
                }
            }
        }
        // a connector configured consistently with the agreement leaves yielded attributes out
        let yl: Vec<u64> = cur.agrs.iter().find(|(u, _)| *u == me).map(|(_, a)| a.yld.clone()).unwrap_or_default();
        if !yl.is_empty() && rng.chance(80, 100) {
            let keep_import = rng.chance(60, 100);
            for se in ents.iter_mut() {
                se.attrs.retain(|(a, _)| if *a == 6 { keep_import || !(yl.contains(&5) || yl.contains(&6)) } else { !yl.contains(a) });
            }
        }
        let sub = |rng: &mut Rng| {
            let mut l = vec![];
            for ix in POOL {
                if rng.chance(25, 100) {
                    l.push(ix);
                }
            }
            l
        };
        let retain = match rng.below(100) {
            0..=71 => Retain::Ignore,
            72..=76 => {
                // retain: usually everything but one or two
                let mut l: Vec<u64> = POOL.to_vec();
                l.retain(|_| !rng.chance(8, 100));
                Retain::Retain(l)
            }
            77..=77 => Retain::Retain(vec![]),
            78..=80 => Retain::Delete(vec![]),
            _ => {
                let mut l = vec![];
                // mostly own entries, sometimes anything
                for (u, e) in &cur.ents {
                    if e.owner == Some(agr_uuid(agr).as_u128()) && rng.chance(25, 100) {
                        if let Some(ix) = POOL.iter().find(|ix| pool_uuid(**ix).as_u128() == *u) {
                            l.push(*ix);
                        }
                    }
                }
                if rng.chance(30, 100) {
                    l.extend(sub(rng));
                }
                l.sort();
                l.dedup();
                Retain::Delete(l)
            }
        };
        Op::Sync(SReq { ik, agr, from, to, ents, retain })
    } else if k < 72 {
        let a = rng.range(1, 2);
        let mut ys = vec![];
        for y in [0u64, 1, 2, 3, 5, 6, 4] {
            if rng.chance(match y { 5 => 34, 4 | 6 => 10, _ => 28 }, 100) {
                ys.push(y);
            }
        }
        Op::Yield(a, ys)
    } else {
        let live: Vec<u64> = [1u64, 2, 3, 4, 5, 6, 7, 8, 10, 11]
            .iter()
            .copied()
            .filter(|ix| cur.ents.iter().any(|(u, e)| *u == pool_uuid(*ix).as_u128() && e.live))
            .collect();
        let synced: Vec<u64> = live.iter().copied().filter(|ix| *ix < 10).collect();
        let t = match rng.below(100) {
            0..=54 if !synced.is_empty() => *rng.pick(&synced),
            0..=79 => *rng.pick(&live),
            _ => *rng.pick(&[1u64, 2, 3, 4, 5, 6, 7, 8, 10, 11, 12]),
        };
        let m = match rng.below(100) {
            0..=19 => UMod::Set(0, t * 10 + 5 + rng.below(3)),
            20..=39 => UMod::Set(1, 10 + rng.below(3)),
            40..=54 => UMod::Set(2, 10 + rng.below(3)),
            55..=69 => UMod::Set(3, 10 + rng.below(3)),
            70..=89 => UMod::Purge(*rng.pick(&[0u64, 1, 2, 3, 10, 10])),
            _ => UMod::Purge(4),
        };
        Op::User(t, m)
    }
}

fn schema_case(w: &mut World) -> (String, String) {
    let wr = w.rt.block_on(w.idms.proxy_write(d(w.now))).expect("w");
    let schema = wr.qs_write.get_schema();
    let attrs = schema.get_attributes();
    let classes = schema.get_classes();
    let mut cl = vec![];
    for c in [0u64, 2, 3, 4, 5, 9] {
        let (allowed, mut l) = match classes.get(kname(c)) {
            Some(sc) => {
                let l: Vec<u64> = sc
                    .systemmay
                    .iter()
                    .chain(sc.may.iter())
                    .chain(sc.systemmust.iter())
                    .chain(sc.must.iter())
                    .filter_map(|a| acode(a.as_str()))
                    .collect();
                (sc.sync_allowed, l)
            }
            None => (false, vec![]),
        };
        l.sort();
        l.dedup();
        cl.push(format!("({}, ({}, {}))", cn(c), cbool(allowed), c_ln(&l)));
    }
    let mut al = vec![];
    for a in [0u64, 1, 2, 3, 4, 5, 6, 7, 10] {
        let (sa, ph) = match attrs.get(&Attribute::from(aname(a))) {
            Some(x) => (x.sync_allowed, x.phantom),
            None => (false, false),
        };
        al.push(format!("({}, ({}, {}))", cn(a), cbool(sa), cbool(ph)));
    }
    let coq = capp("CSchema", &[clist_s(&cl), clist_s(&al)]);
    let txt = format!("schema classes={} attrs={}", clist_s(&cl), clist_s(&al));
    (coq, txt)
}

fn probe() -> i32 {
    let mut w = World::new();
    let mut bad = 0;
    let s0 = w.snapshot(0);
    let mk = |ix: u64, attrs: Vec<(u64, u64)>, sch: Vec<u64>| SEnt { ix, sch: sch.into_iter().map(Sch::Cls).collect(), ext: Some(ix * 10), attrs };
    let o = Op::Sync(SReq { ik: IKind::Synch, agr: 1, from: SState::Refresh, to: SState::Active(1), ents: vec![mk(20, vec![(0, 200)], vec![2])], retain: Retain::Ignore });
    let r = w.apply(&o);
    let s1 = w.snapshot(1);
    let e = s1.ents.iter().find(|(u, _)| *u == pool_uuid(20).as_u128());
    println!("probe reserved-stub: sync of group with id {} -> {:?}; stored: {:?}", pool_uuid(20), r, e);
    if r.is_ok() && e.is_some() {
        println!("  DEFECT: an entry was created in the protected system uuid range (before: {} tracked entries)", s0.ents.len());
        bad = 1;
    }
    let o1 = Op::Sync(SReq { ik: IKind::Synch, agr: 2, from: SState::Refresh, to: SState::Active(2), ents: vec![mk(1, vec![(0, 10), (1, 1), (6, 0)], vec![3, 4])], retain: Retain::Ignore });
    let r1 = w.apply(&o1);
    let s2 = w.snapshot(2);
    let r2 = w.apply(&Op::Yield(2, vec![5]));
    let o3 = Op::Sync(SReq { ik: IKind::Synch, agr: 2, from: SState::Active(2), to: SState::Active(3), ents: vec![mk(1, vec![(0, 10), (1, 1), (6, 1)], vec![3, 4])], retain: Retain::Ignore });
    let r3 = w.apply(&o3);
    let s4 = w.snapshot(4);
    let c = |s: &MState| s.ents.iter().find(|(u, _)| *u == pool_uuid(1).as_u128()).and_then(|(_, e)| e.attrs.iter().find(|(a, _)| *a == 5).map(|(_, v)| *v));
    println!("probe phantom-yield: import -> {:?} cred#{:?}; yield primary_credential -> {:?}; import again -> {:?} cred#{:?}", r1, c(&s2), r2, r3, c(&s4));
    if r3.is_ok() && c(&s2) != c(&s4) {
        println!("  DEFECT: primary_credential was replaced by the sync agreement although authority over it is yielded");
        bad = 1;
    }
    bad
}

fn main() {
    let args = parse_args();
    if args.extra.iter().any(|a| a == "--probe") {
        std::process::exit(probe());
    }
    let mut rng = Rng::new(args.seed);
    let mut sink = Sink::new(&args, "KV.C50.Model", 60);
    sink.rule = "random histories (OSync 62% / OYield 10% / OUser 28%) on a fresh real IdmServer each; one case per operation = \
(state before, operation, answer, state after) read back from the server; sync entry ids from unused / own / other agreement's / native / \
recycled / protected-range / built-in uuids, random schemas, attributes, external ids, retention modes, refresh or active with right or \
wrong cookie, sync / wrong-scope / user / internal identity. non-trivial = a sync request that names entries or a retention set, or a \
user edit of a synchronised entry"
        .into();
    let n_hist = if args.thorough { 260 } else { 34 };
    let len = if args.thorough { 40 } else { 30 };
    for h in 0..n_hist {
        let mut w = World::new();
        if h == 0 {
            let (coq, txt) = schema_case(&mut w);
            sink.case(coq, txt, true);
            sink.bump("schema");
        }
        let mut cur = w.snapshot(0);
        for t in 0..len {
            let o = gen_op(&mut rng, &cur);
            let r = w.apply(&o);
            let next = w.snapshot(t + 1);
            let res = match &r {
                Ok(()) => "ROk".to_string(),
                Err(e) => capp("RErr", &[err_name(e).to_string()]),
            };
            let target_sync = |t: &u64| cur.ents.iter().any(|(u, e)| *u == pool_uuid(*t).as_u128() && e.cls.contains(&1));
            let nontrivial = match &o {
                Op::Sync(rq) => !rq.ents.is_empty() || !matches!(rq.retain, Retain::Ignore),
                Op::Yield(..) => false,
                Op::User(t, _) => target_sync(t),
            };
            let kind = match &o {
                Op::Sync(_) => "sync",
                Op::Yield(..) => "yield",
                Op::User(..) => "user",
            };
            sink.bump(&format!("{}_{}", kind, match &r { Ok(()) => "ok".to_string(), Err(e) => err_name(e).to_string() }));
            if let Err(e) = &r {
                if err_name(e) == "EOther" {
                    sink.bump(&format!("other_{:?}", e).chars().take(60).collect::<String>());
                }
            }
            if let Op::Sync(rq) = &o {
                if rq.ik == IKind::Synch {
                    let missing_reserved = rq.ents.iter().any(|se| {
                        let u = pool_uuid(se.ix).as_u128();
                        u < (1u128 << 48) && !cur.ents.iter().any(|(x, _)| *x == u)
                    });
                    let yl = cur.agrs.iter().find(|(u, _)| *u == agr_uuid(rq.agr).as_u128()).map(|(_, a)| a.yld.clone()).unwrap_or_default();
                    let import_yielded = rq.ents.iter().any(|se| se.attrs.iter().any(|(a, _)| *a == 6)) && (yl.contains(&5) || yl.contains(&6));
                    let rs = match &r { Ok(()) => "ok", Err(_) => "refused" };
                    if missing_reserved {
                        sink.bump(&format!("names_missing_protected_uuid_{rs}"));
                    }
                    if import_yielded {
                        sink.bump(&format!("import_while_yielded_{rs}"));
                    }
                }
            }
            let coq = capp("CStep", &[c_state(&cur), c_op(&o), res.clone(), c_state(&next)]);
            let txt = format!("{kind} h{h} t{t} {:?} => {:?} | before {:?} | after {:?}", o, r, cur, next);
            sink.case(coq, txt, nontrivial);
            cur = next;
        }
    }
    sink.finish();
}
