//! C37 — credential reset links are single use.
//!
//! Drives a REAL IdmServer (in-memory backend) through histories of
//!   init_credential_update_intent / exchange_intent_credential_update /
//!   credential_primary_set_password / commit_credential_update /
//!   cancel_credential_update / revoke_credential_update_intent
//! at harness-chosen times, and after EVERY operation reads back, from the two account
//! entries, the state of every reset link (IntentTokenState) and which password the stored
//! primary credential verifies.  The Coq model (KV.C37.Model) replays the same op list
//! (`agree`), and `pcheck` runs the single-use monitor over the implementation's results.
use kanidmd_lib::credential::Credential;
use kanidmd_lib::entry::{Entry, EntryInit, EntryNew};
use kanidmd_lib::idm::credupdatesession::{
    CredentialUpdateIntentTokenExchange, CredentialUpdateSessionToken, InitCredentialUpdateIntentEvent,
};
use kanidmd_lib::idm::server::IdmServer;
use kanidmd_lib::prelude::*;
use kanidmd_lib::testkit::{setup_idm_test, TestConfiguration};
use kanidmd_lib::value::IntentTokenState;
use kvh::*;

const NS: u64 = 1_000_000_000;
const T0: u64 = 1_000_000 * NS;
/// pool of acceptable passwords; credential id n>0 = PWS[n-1]
const PWS: [&str; 4] = [
    "eicieY7ahchaoCh0eeTa-one",
    "fa9Aiqu2ohghoo7Yahpe-two",
    "Ohb6aiTh8Quaezohxae5-three",
    "mieW4aeNg2ohphee7Voo-four",
];

fn acct_uuid(a: u64) -> Uuid {
    Uuid::from_u128(0xc37c_37c3_0000_0000_0000_0000_0000_0000u128 + a as u128)
}

#[derive(Clone, Debug)]
enum Op {
    Init { acct: u64, ttl: Option<u64> },
    Exchange { link: u64 },
    SetPw { tok: usize, pw: u64 },
    Commit { tok: usize },
    Cancel { tok: usize },
    Revoke { link: u64 },
}

#[derive(Clone, Debug, PartialEq)]
enum Res {
    Ok,
    Intent(u64),
    Tok(u64, u64),
    Err(u64),
}

fn err_code(e: &OperationError) -> u64 {
    match e {
        OperationError::Wait(_) => 0,
        OperationError::SessionExpired => 1,
        OperationError::InvalidState => 2,
        OperationError::CU0004SessionInconsistent => 3,
        OperationError::CU0005IntentTokenConflict => 4,
        OperationError::CU0006IntentTokenInvalidated => 5,
        OperationError::EmptyRequest => 6,
        _ => 7,
    }
}
const ERR_NAMES: [&str; 8] = ["EWait", "ESessionExpired", "EInvalidState", "EInconsistent", "EConflict", "EInvalidated", "EEmptyRequest", "EOther"];

#[derive(Clone, Debug, PartialEq)]
enum LSt {
    Valid(u64),
    InProgress(u64, u64, u64),
    Consumed(u64),
}

struct Tok {
    cust: CredentialUpdateSessionToken,
    sid: u64,
    mttl: u64,
}

/// One history on the shared server.
struct Hist<'a> {
    idms: &'a IdmServer,
    links: Vec<String>,
    toks: Vec<Tok>,
    sids: Intern<Uuid>,
    link_exp: Vec<u64>,
    known_creds: &'a mut Vec<(Credential, u64)>,
}

fn ns(d: Duration) -> u64 {
    d.as_nanos() as u64
}

impl Hist<'_> {
    async fn view(&mut self) -> (Vec<(u64, u64, LSt)>, u64, u64) {
        let mut r = self.idms.proxy_read().await.expect("proxy_read");
        let mut ls = vec![];
        let mut creds = [0u64; 2];
        for a in 0..2u64 {
            let e = r.qs_read.internal_search_uuid(acct_uuid(a)).expect("account");
            if let Some(m) = e.get_ava_set(Attribute::CredentialUpdateIntentToken).and_then(|vs| vs.as_intenttoken_map()) {
                for (id, stt) in m.iter() {
                    let k = self.links.iter().position(|x| x == id).map(|p| p as u64).unwrap_or(9999);
                    let s = match stt {
                        IntentTokenState::Valid { max_ttl, .. } => LSt::Valid(ns(*max_ttl)),
                        IntentTokenState::InProgress { max_ttl, session_id, session_ttl, .. } => {
                            LSt::InProgress(ns(*max_ttl), self.sids.id(session_id), ns(*session_ttl))
                        }
                        IntentTokenState::Consumed { max_ttl } => LSt::Consumed(ns(*max_ttl)),
                    };
                    ls.push((k, a, s));
                }
            }
            creds[a as usize] = match e.get_ava_single_credential(Attribute::PrimaryCredential) {
                None => 0,
                Some(c) => {
                    if let Some((_, id)) = self.known_creds.iter().find(|(k, _)| k == c) {
                        *id
                    } else {
                        let mut id = 99;
                        for (i, pw) in PWS.iter().enumerate() {
                            if c.password_ref().map(|p| p.verify(pw).unwrap_or(false)).unwrap_or(false) {
                                id = i as u64 + 1;
                                break;
                            }
                        }
                        self.known_creds.push((c.clone(), id));
                        if self.known_creds.len() > 4000 {
                            self.known_creds.drain(0..2000);
                        }
                        id
                    }
                }
            };
        }
        ls.sort_by_key(|x| x.0);
        (ls, creds[0], creds[1])
    }

    async fn apply(&mut self, op: &Op, ct: u64) -> Res {
        let d = Duration::from_nanos(ct);
        match op {
            Op::Init { acct, ttl } => {
                let mut w = self.idms.proxy_write(d).await.expect("proxy_write");
                let adm = w.qs_write.internal_search_uuid(UUID_IDM_ADMIN).expect("idm_admin");
                let ident = Identity::from_impersonate_entry_readwrite(adm);
                let ev = InitCredentialUpdateIntentEvent::new(ident, acct_uuid(*acct), ttl.map(Duration::from_nanos));
                match w.init_credential_update_intent(&ev, d) {
                    Ok(t) => {
                        w.commit().expect("commit");
                        self.links.push(t.intent_id.clone());
                        let e = t.expiry_time.unix_timestamp_nanos() as u64;
                        self.link_exp.push(e);
                        Res::Intent(e)
                    }
                    Err(e) => Res::Err(err_code(&e)),
                }
            }
            Op::Exchange { link } => {
                let intent_id = self.links.get(*link as usize).cloned().unwrap_or_else(|| format!("bogus-{}", link));
                let mut w = self.idms.proxy_write(d).await.expect("proxy_write");
                match w.exchange_intent_credential_update(CredentialUpdateIntentTokenExchange { intent_id: intent_id.clone() }, d) {
                    Ok((cust, _status)) => {
                        w.commit().expect("commit");
                        // the session id and its ttl are read from the link state on the account
                        let mut r = self.idms.proxy_read().await.expect("proxy_read");
                        let mut got = None;
                        for a in 0..2u64 {
                            let e = r.qs_read.internal_search_uuid(acct_uuid(a)).expect("account");
                            if let Some(IntentTokenState::InProgress { session_id, session_ttl, .. }) = e
                                .get_ava_set(Attribute::CredentialUpdateIntentToken)
                                .and_then(|vs| vs.as_intenttoken_map())
                                .and_then(|m| m.get(&intent_id))
                            {
                                got = Some((*session_id, ns(*session_ttl)));
                            }
                        }
                        drop(r);
                        let (sid, mttl) = match got {
                            Some((u, t)) => (self.sids.id(&u), t),
                            // link not InProgress after an accepted exchange: report a token the model cannot produce
                            None => (7777, 0),
                        };
                        self.toks.push(Tok { cust, sid, mttl });
                        Res::Tok(sid, mttl)
                    }
                    Err(e) => Res::Err(err_code(&e)),
                }
            }
            Op::SetPw { tok, pw } => {
                let cu = self.idms.cred_update_transaction().await.expect("cutxn");
                match cu.credential_primary_set_password(&self.toks[*tok].cust, d, PWS[(*pw - 1) as usize]) {
                    Ok(_) => Res::Ok,
                    Err(e) => Res::Err(err_code(&e)),
                }
            }
            Op::Commit { tok } => {
                let mut w = self.idms.proxy_write(d).await.expect("proxy_write");
                match w.commit_credential_update(&self.toks[*tok].cust, d) {
                    Ok(()) => {
                        w.commit().expect("commit");
                        Res::Ok
                    }
                    Err(e) => Res::Err(err_code(&e)),
                }
            }
            Op::Cancel { tok } => {
                let mut w = self.idms.proxy_write(d).await.expect("proxy_write");
                match w.cancel_credential_update(&self.toks[*tok].cust, d) {
                    Ok(()) => {
                        w.commit().expect("commit");
                        Res::Ok
                    }
                    Err(e) => Res::Err(err_code(&e)),
                }
            }
            Op::Revoke { link } => {
                let intent_id = self.links.get(*link as usize).cloned().unwrap_or_else(|| format!("bogus-{}", link));
                let mut w = self.idms.proxy_write(d).await.expect("proxy_write");
                match w.revoke_credential_update_intent(CredentialUpdateIntentTokenExchange { intent_id }, d) {
                    Ok(()) => {
                        w.commit().expect("commit");
                        Res::Ok
                    }
                    Err(e) => Res::Err(err_code(&e)),
                }
            }
        }
    }
}

fn c_lst(s: &LSt) -> String {
    match s {
        LSt::Valid(m) => capp("LValid", &[cn(*m)]),
        LSt::InProgress(m, i, t) => capp("LInProgress", &[cn(*m), cn(*i), cn(*t)]),
        LSt::Consumed(m) => capp("LConsumed", &[cn(*m)]),
    }
}
fn c_res(r: &Res) -> String {
    match r {
        Res::Ok => "ROk".into(),
        Res::Intent(e) => capp("RIntent", &[cn(*e)]),
        Res::Tok(s, m) => capp("RTok", &[cn(*s), cn(*m)]),
        Res::Err(c) => capp("RErr", &[ERR_NAMES[*c as usize].to_string()]),
    }
}
fn c_op(op: &Op, ct: u64, toks: &[Tok]) -> String {
    match op {
        Op::Init { acct, ttl } => capp("OInit", &[cn(*acct), copt(ttl, |t| cn(*t)), cn(ct)]),
        Op::Exchange { link } => capp("OExchange", &[cn(*link), cn(ct)]),
        Op::SetPw { tok, pw } => capp("OSetPw", &[cn(toks[*tok].sid), cn(toks[*tok].mttl), cn(*pw), cn(ct)]),
        Op::Commit { tok } => capp("OCommit", &[cn(toks[*tok].sid), cn(toks[*tok].mttl), cn(ct)]),
        Op::Cancel { tok } => capp("OCancel", &[cn(toks[*tok].sid), cn(toks[*tok].mttl), cn(ct)]),
        Op::Revoke { link } => capp("ORevoke", &[cn(*link), cn(ct)]),
    }
}
fn rel(t: u64) -> String {
    // readable time relative to T0
    let d = t as i128 - T0 as i128;
    let s = d.div_euclid(NS as i128);
    let n = d.rem_euclid(NS as i128);
    if n == 0 { format!("{}s", s) } else { format!("{}s+{}ns", s, n) }
}

struct Server {
    idms: IdmServer,
    /// stored credential for password 1, produced by a real reset flow at set-up
    cred1: Option<Credential>,
    known_creds: Vec<(Credential, u64)>,
}

/// Everything recorded about one history.
#[derive(Default)]
struct Rec {
    coq: Vec<String>,
    txt: String,
    commits_ok: u64,
    exchanges_ok: u64,
    refused: u64,
    superseded_refused: u64,
    expired_refused: u64,
}

async fn do_op(h: &mut Hist<'_>, rec: &mut Rec, sink: &mut Sink, op: &Op, ct: u64) -> Res {
    let r = h.apply(op, ct).await;
    let (ls, c0, c1) = h.view().await;
    let v = format!(
        "({}, {}, {})",
        clist(&ls, |(k, a, s)| format!("({}, {}, {})", cn(*k), cn(*a), c_lst(s))),
        cn(c0),
        cn(c1)
    );
    rec.coq.push(format!("({}, {}, {})", c_op(op, ct, &h.toks), c_res(&r), v));
    let opname = match op {
        Op::Init { acct, ttl } => format!("init(a{},ttl={:?})", acct, ttl.map(|t| t / NS)),
        Op::Exchange { link } => format!("exchange(L{})", link),
        Op::SetPw { tok, pw } => format!("setpw(S{},pw{})", h.toks[*tok].sid, pw),
        Op::Commit { tok } => format!("commit(S{})", h.toks[*tok].sid),
        Op::Cancel { tok } => format!("cancel(S{})", h.toks[*tok].sid),
        Op::Revoke { link } => format!("revoke(L{})", link),
    };
    let rs = match &r {
        Res::Ok => "ok".to_string(),
        Res::Intent(e) => format!("link exp {}", rel(*e)),
        Res::Tok(s, m) => format!("S{} exp {}", s, rel(*m)),
        Res::Err(c) => ERR_NAMES[*c as usize].to_string(),
    };
    let lv: Vec<String> = ls
        .iter()
        .map(|(k, a, s)| match s {
            LSt::Valid(_) => format!("L{}@a{}:Valid", k, a),
            LSt::InProgress(_, i, _) => format!("L{}@a{}:InProgress(S{})", k, a, i),
            LSt::Consumed(_) => format!("L{}@a{}:Consumed", k, a),
        })
        .collect();
    let _ = std::fmt::Write::write_fmt(&mut rec.txt, format_args!(" | t={} {} -> {} [{} creds={},{}]", rel(ct), opname, rs, lv.join(" "), c0, c1));
    match (op, &r) {
        (Op::Commit { .. }, Res::Ok) => { rec.commits_ok += 1; sink.bump("commit_ok"); }
        (Op::Commit { .. }, Res::Err(c)) => {
            rec.refused += 1;
            if *c == 4 { rec.superseded_refused += 1; sink.bump("commit_refused_superseded"); }
            else if *c == 5 { sink.bump("commit_refused_link_invalidated"); }
            else if *c == 1 { sink.bump("commit_refused_session_expired"); }
            else if *c == 2 { sink.bump("commit_refused_no_session"); }
            else { sink.bump("commit_refused_other"); }
        }
        (Op::Exchange { .. }, Res::Tok(..)) => { rec.exchanges_ok += 1; sink.bump("exchange_ok"); }
        (Op::Exchange { .. }, Res::Err(c)) => {
            rec.refused += 1;
            if *c == 1 { rec.expired_refused += 1; sink.bump("exchange_refused_consumed_or_expired"); } else { sink.bump("exchange_refused_other"); }
        }
        (Op::Cancel { .. }, Res::Ok) => sink.bump("cancel_ok"),
        (Op::Cancel { .. }, Res::Err(_)) => { rec.refused += 1; sink.bump("cancel_refused"); }
        (Op::Revoke { .. }, Res::Ok) => sink.bump("revoke_ok"),
        (Op::Revoke { .. }, _) => sink.bump("revoke_noop"),
        (Op::SetPw { .. }, Res::Ok) => sink.bump("setpw_ok"),
        (Op::SetPw { .. }, _) => sink.bump("setpw_refused"),
        (Op::Init { .. }, Res::Intent(_)) => sink.bump("init_ok"),
        _ => sink.bump("other"),
    }
    r
}

/// Put both accounts back to: no reset links, primary credential = none (0) or password 1.
async fn reset(srv: &Server, c0: u64, c1: u64) {
    let mut w = srv.idms.proxy_write(Duration::from_nanos(T0)).await.expect("proxy_write");
    for (a, c) in [(0u64, c0), (1u64, c1)] {
        let mut ml = ModifyList::new();
        ml.push_mod(Modify::Purged(Attribute::CredentialUpdateIntentToken));
        ml.push_mod(Modify::Purged(Attribute::PrimaryCredential));
        if c == 1 {
            let cred = srv.cred1.clone().expect("cred1");
            ml.push_mod(Modify::Present(Attribute::PrimaryCredential, Value::new_credential("primary", cred)));
        }
        w.qs_write.internal_modify_uuid(acct_uuid(a), &ml).expect("reset account");
    }
    w.commit().expect("commit");
}

fn emit(sink: &mut Sink, kind: &str, c0: u64, c1: u64, rec: Rec) {
    let nontrivial = rec.commits_ok >= 1 && rec.refused >= 1;
    sink.case(
        capp("CHist", &[cn(c0), cn(c1), clist_s(&rec.coq)]),
        format!("{} creds0={},{}{}", kind, c0, c1, rec.txt),
        nontrivial,
    );
    if rec.commits_ok >= 1 && rec.superseded_refused >= 1 { sink.bump("hist_with_commit_and_superseded_refusal"); }
    if rec.commits_ok >= 1 && rec.expired_refused >= 1 { sink.bump("hist_with_commit_and_refused_exchange"); }
}

async fn setup() -> Server {
    let (idms, _delayed, _audit) = setup_idm_test(TestConfiguration::default()).await;
    let d = Duration::from_nanos(T0);
    let mut w = idms.proxy_write(d).await.expect("proxy_write");
    // as in kanidm's own credential update tests: drop the default MFA minimum so that a
    // password-only credential can be committed
    w.qs_write
        .internal_modify_uuid(UUID_IDM_ALL_PERSONS, &ModifyList::new_purge(Attribute::CredentialTypeMinimum))
        .expect("purge credential type minimum");
    for a in 0..2u64 {
        let name = format!("c37person{}", a);
        let e: Entry<EntryInit, EntryNew> = kanidmd_lib::entry_init!(
            (Attribute::Class, EntryClass::Object.to_value()),
            (Attribute::Class, EntryClass::Account.to_value()),
            (Attribute::Class, EntryClass::Person.to_value()),
            (Attribute::Name, Value::new_iname(&name)),
            (Attribute::Uuid, Value::Uuid(acct_uuid(a))),
            (Attribute::Description, Value::new_utf8s(&name)),
            (Attribute::DisplayName, Value::new_utf8s(&name))
        );
        w.qs_write.internal_create(vec![e]).expect("create person");
    }
    w.commit().expect("commit");
    let mut srv = Server { idms, cred1: None, known_creds: vec![] };
    // obtain a stored credential for password 1 through a real reset flow
    {
        let mut kc = vec![];
        let mut h = Hist { idms: &srv.idms, links: vec![], toks: vec![], sids: Intern::new(), link_exp: vec![], known_creds: &mut kc };
        assert!(matches!(h.apply(&Op::Init { acct: 0, ttl: None }, T0).await, Res::Intent(_)), "setup init");
        assert!(matches!(h.apply(&Op::Exchange { link: 0 }, T0).await, Res::Tok(..)), "setup exchange");
        assert_eq!(h.apply(&Op::SetPw { tok: 0, pw: 1 }, T0).await, Res::Ok, "setup setpw");
        assert_eq!(h.apply(&Op::Commit { tok: 0 }, T0).await, Res::Ok, "setup commit");
        let (_, c0, _) = h.view().await;
        assert_eq!(c0, 1, "setup: stored credential verifies password 1");
    }
    let c = {
        let mut r = srv.idms.proxy_read().await.expect("proxy_read");
        let e = r.qs_read.internal_search_uuid(acct_uuid(0)).expect("account");
        e.get_ava_single_credential(Attribute::PrimaryCredential).cloned()
    };
    srv.cred1 = c;
    srv
}

/// smallest boundary instant strictly after t (link expiries and session expiries, and 1 ns before)
fn next_instant(t: u64, h: &Hist<'_>) -> u64 {
    let mut best: Option<u64> = None;
    let mut consider = |x: u64| {
        if x > t && best.map(|b| x < b).unwrap_or(true) {
            best = Some(x);
        }
    };
    for e in &h.link_exp {
        consider(*e - 1);
        consider(*e);
    }
    for k in &h.toks {
        consider(k.mttl - 1);
        consider(k.mttl);
    }
    best.unwrap_or(t + 1000 * NS)
}

const LETTERS: [&str; 8] = ["X", "P", "C0", "C1", "K0", "K1", "R", "A"];

/// Exhaustive part: every word over LETTERS up to length `maxlen`, for one link (ttl 300 s) on account 0.
async fn exhaustive(srv: &mut Server, sink: &mut Sink, maxlen: usize) {
    let mut word: Vec<usize> = vec![];
    // odometer over all words of length 1..=maxlen
    for len in 1..=maxlen {
        word.clear();
        word.resize(len, 0);
        'words: loop {
            // --- run this word
            if word[len - 1] != 7 {
                // static validity: token letters need enough tokens at that point
                let mut nt = 0;
                let mut valid = true;
                for l in &word {
                    match *l {
                        0 => nt += 1, // may be refused, then later token letters make the word invalid dynamically
                        1 | 3 | 5 => valid &= nt >= 1,
                        2 | 4 => valid &= nt >= 2,
                        _ => {}
                    }
                }
                if valid {
                    let c0 = 1;
                    reset(srv, c0, 0).await;
                    let mut kc = std::mem::take(&mut srv.known_creds);
                    let mut h = Hist { idms: &srv.idms, links: vec![], toks: vec![], sids: Intern::new(), link_exp: vec![], known_creds: &mut kc };
                    let mut rec = Rec::default();
                    let mut t = T0;
                    let mut npw = 0u64;
                    do_op(&mut h, &mut rec, sink, &Op::Init { acct: 0, ttl: Some(300 * NS) }, t).await;
                    let mut ok = true;
                    for l in &word {
                        let nt = h.toks.len();
                        let op = match *l {
                            0 => Some(Op::Exchange { link: 0 }),
                            1 if nt >= 1 => { npw += 1; Some(Op::SetPw { tok: nt - 1, pw: 2 + (npw % 3) }) }
                            2 if nt >= 2 => Some(Op::Commit { tok: 0 }),
                            3 if nt >= 1 => Some(Op::Commit { tok: nt - 1 }),
                            4 if nt >= 2 => Some(Op::Cancel { tok: 0 }),
                            5 if nt >= 1 => Some(Op::Cancel { tok: nt - 1 }),
                            6 => Some(Op::Revoke { link: 0 }),
                            7 => { t = next_instant(t, &h); None }
                            _ => { ok = false; None }
                        };
                        if !ok { break; }
                        if let Some(op) = op {
                            do_op(&mut h, &mut rec, sink, &op, t).await;
                        }
                    }
                    drop(h);
                    srv.known_creds = kc;
                    if ok {
                        let w: Vec<&str> = word.iter().map(|l| LETTERS[*l]).collect();
                        emit(sink, &format!("word[{}]", w.join(",")), c0, 0, rec);
                        sink.bump("hist_exhaustive_words");
                    } else {
                        sink.bump("words_skipped_dynamic");
                    }
                }
            }
            // --- next word
            let mut i = len;
            loop {
                if i == 0 { break 'words; }
                i -= 1;
                word[i] += 1;
                if word[i] < LETTERS.len() { break; }
                word[i] = 0;
            }
        }
    }
}

/// Random part: one or two accounts, up to three links, any issued token at any time.
async fn random_hist(srv: &mut Server, sink: &mut Sink, rng: &mut Rng, maxlen: usize) {
    let c0 = rng.below(2);
    let c1 = rng.below(2);
    reset(srv, c0, c1).await;
    let mut kc = std::mem::take(&mut srv.known_creds);
    let mut h = Hist { idms: &srv.idms, links: vec![], toks: vec![], sids: Intern::new(), link_exp: vec![], known_creds: &mut kc };
    let mut rec = Rec::default();
    let mut t = T0 + *rng.pick(&[0u64, 1, 5 * NS]);
    let two_accounts = rng.chance(1, 2);
    let ttls: [Option<u64>; 7] = [None, Some(0), Some(300 * NS), Some(300 * NS), Some(600 * NS), Some(1200 * NS), Some(100_000 * NS)];
    let len = rng.range(4, maxlen as u64) as usize;
    for i in 0..len {
        // time
        let k = rng.below(100);
        if k < 45 {
        } else if k < 58 {
            t += 1;
        } else if k < 70 {
            t += rng.range(1, 200) * NS;
        } else if k < 95 {
            // jump to a boundary instant at or after t
            let mut c: Vec<u64> = vec![];
            for e in &h.link_exp { c.extend([*e - 1, *e, *e + 1]); }
            for k in &h.toks { c.extend([k.mttl - 1, k.mttl, k.mttl + 1]); }
            c.retain(|x| *x >= t);
            if !c.is_empty() {
                c.sort();
                // prefer the nearest ones
                let idx = rng.below(c.len().min(4) as u64) as usize;
                t = c[idx];
            }
        } else {
            t += 400 * NS;
        }
        // operation
        let nl = h.links.len() as u64;
        let nt = h.toks.len();
        let pick_tok = |rng: &mut Rng| if rng.chance(1, 2) { nt - 1 } else { rng.below(nt as u64) as usize };
        let k = rng.below(100);
        let op = if nl == 0 || (i > 0 && k < 10 && nl < 3) {
            Op::Init { acct: if two_accounts { rng.below(2) } else { 0 }, ttl: *rng.pick(&ttls) }
        } else if nt == 0 || k < 38 {
            if rng.chance(1, 40) { Op::Exchange { link: nl + 3 } } else { Op::Exchange { link: rng.below(nl) } }
        } else if k < 55 {
            Op::SetPw { tok: pick_tok(rng), pw: rng.range(1, 4) }
        } else if k < 80 {
            Op::Commit { tok: pick_tok(rng) }
        } else if k < 92 {
            Op::Cancel { tok: pick_tok(rng) }
        } else {
            if rng.chance(1, 10) { Op::Revoke { link: nl + 3 } } else { Op::Revoke { link: rng.below(nl) } }
        };
        do_op(&mut h, &mut rec, sink, &op, t).await;
    }
    drop(h);
    srv.known_creds = kc;
    emit(sink, "random", c0, c1, rec);
    sink.bump("hist_random");
}

fn main() {
    let args = parse_args();
    let mut rng = Rng::new(args.seed);
    let mut sink = Sink::new(&args, "KV.C37.Model", 400);
    sink.rule = "Histories on one real IdmServer with two person accounts, all times chosen by the harness (non-decreasing within a history). \
(1) EXHAUSTIVE: every word of length <= 5 (quick) / 6 (thorough) over {X exchange, P set-password on newest session, C0/C1 commit oldest/newest session, \
K0/K1 cancel oldest/newest session, R revoke, A advance the clock to the next boundary instant (1 ns before / exactly at a link expiry or session expiry)} \
for one link with the minimum ttl (words whose session letters have no session to refer to are skipped). \
(2) RANDOM: 4..14 (quick) / 4..24 (thorough) operations over up to 3 links on one or two accounts (default/clamped/short ttls, links of the same account are purged when expired by a later init), \
any previously issued session token may be used at any time, clock steps of 0, 1 ns, seconds, or to within 1 ns of a link/session expiry; unknown link ids included. \
(3) the ttl clamp grid. After every operation the state of every link on both entries and the password verified by each stored primary credential are read back. \
non-trivial = the history contains an accepted commit AND at least one refused exchange/commit/cancel.".into();
    let rt = tokio::runtime::Builder::new_current_thread().enable_all().build().expect("rt");
    rt.block_on(async {
        let mut srv = setup().await;
        // (3) ttl clamp grid through the real init
        let grid: Vec<Option<u64>> = vec![None, Some(0), Some(1), Some(299 * NS), Some(300 * NS - 1), Some(300 * NS), Some(300 * NS + 1),
            Some(3600 * NS), Some(86400 * NS - 1), Some(86400 * NS), Some(86400 * NS + 1), Some(1_000_000 * NS)];
        for ttl in &grid {
            for ct in [T0, T0 + 1, T0 + 777 * NS + 5] {
                reset(&srv, 0, 0).await;
                let mut kc = vec![];
                let mut h = Hist { idms: &srv.idms, links: vec![], toks: vec![], sids: Intern::new(), link_exp: vec![], known_creds: &mut kc };
                if let Res::Intent(e) = h.apply(&Op::Init { acct: 1, ttl: *ttl }, ct).await {
                    sink.case(
                        capp("CClamp", &[copt(ttl, |t| cn(*t)), cn(ct), cn(e)]),
                        format!("clamp ttl={:?} ct={} -> expiry {}", ttl, rel(ct), rel(e)),
                        ttl.map(|t| t < 300 * NS || t > 86400 * NS).unwrap_or(false),
                    );
                    sink.bump("clamp_grid");
                }
            }
        }
        exhaustive(&mut srv, &mut sink, if args.thorough { 6 } else { 5 }).await;
        let n = if args.thorough { 6000 } else { 700 };
        let maxlen = if args.thorough { 24 } else { 14 };
        for _ in 0..n {
            random_hist(&mut srv, &mut sink, &mut rng, maxlen).await;
        }
    });
    sink.finish();
}
