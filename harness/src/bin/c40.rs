//! C40 — the LDAP gateway is read-only and no more privileged than its bind.
//!
//! Per world: a REAL in-memory IdmServer (all built-in access control profiles stay loaded) with a
//! random setting of `ldap_allow_unix_pw_bind` and of the account policy's primary-credential
//! fallback, POSIX persons with POSIX passwords, a person with only a primary password, an expired
//! person, nested groups, a service account with read-only and read-write API tokens, an
//! application with a linked group and application passwords, an OAuth2 client, 4-8 random search
//! access control profiles, a recycled entry. Then LDAP connections are driven through
//! `LdapServer::do_op` exactly as server/core/src/ldaps.rs drives it (the bound token is replaced
//! only by Bind / BindMultiPartResponse): random bind DNs (name, spn, uuid, attr=name, with and
//! without base DN, with app=, dn=token, empty, malformed) x secrets (right POSIX password, another
//! account's, primary password, application password, API token, foreign token, empty, garbage),
//! random searches (all scopes and base kinds) and compares, whoami, unbind.
//!
//! Around EVERY operation the directory is fingerprinted (all entries incl. recycled and
//! tombstones) and the delayed-write queue is polled. For every search / compare the same query is
//! run natively (`search_ext` / `exists`) by the identity the PROPERTY prescribes: anonymous
//! read-only for every password bind, the token's account for an API token.
//!
//! One Coq case = (world facts the bind path reads, tracked entries with observed leaf truth, the
//! loaded search profiles resolved for anonymous and for the token account, the connection's
//! operations with the implementation's answers and the native answers).
use kanidmd_lib::entry::{Entry, EntryInit, EntryNew, EntrySealedCommitted};
use kanidmd_lib::filter::{Filter, FilterResolved, FilterValid};
use kanidmd_lib::idm::application::GenerateApplicationPasswordEvent;
use kanidmd_lib::idm::event::UnixPasswordChangeEvent;
use kanidmd_lib::idm::ldap::{LdapBoundToken, LdapServer, LdapSession};
use kanidmd_lib::idm::server::IdmServerDelayed;
use kanidmd_lib::idm::serviceaccount::GenerateApiTokenEvent;
use kanidmd_lib::prelude::*;
use kanidmd_lib::testkit::{setup_idm_test, TestConfiguration};
use kanidmd_lib::verif_hooks::c23::{
    dump_search_acps, ident_user, HookLdapFilter, HookReceiver, HookSearchAcp,
};
use kanidmd_lib::verif_hooks::c27 as hook27;
use kanidmd_lib::verif_hooks::c40::{do_op, HookOp, HookResp};
use kvh::*;
use std::collections::{BTreeMap, BTreeSet};
use std::sync::Arc;

const BASEDN: &str = "dc=example,dc=com";

// ------------------------------------------------------------------ fixed id tables (= KV.C23.Model)
fn fixed_classes() -> Vec<String> {
    let v: Vec<EntryClass> = vec![
        // MIGRATION_ENTRY_CLASSES 0..13
        EntryClass::Object,
        EntryClass::MemberOf,
        EntryClass::DomainInfo,
        EntryClass::OAuth2ResourceServer,
        EntryClass::OAuth2ResourceServerBasic,
        EntryClass::OAuth2ResourceServerPublic,
        EntryClass::Account,
        EntryClass::Person,
        EntryClass::PosixAccount,
        EntryClass::Group,
        EntryClass::DynGroup,
        EntryClass::AccountPolicy,
        EntryClass::PosixGroup,
        EntryClass::ServiceAccount,
        // MIGRATION_IGNORE_CLASSES 14..20
        EntryClass::KeyObject,
        EntryClass::KeyObjectInternal,
        EntryClass::KeyObjectHkdfS256,
        EntryClass::KeyObjectJwtEs256,
        EntryClass::KeyObjectJwtHs256,
        EntryClass::KeyObjectJwtRs256,
        EntryClass::KeyObjectJweA128GCM,
        // 21..
        EntryClass::Application,
        EntryClass::SyncAccount,
        EntryClass::SyncObject,
        EntryClass::Recycled,
        EntryClass::Tombstone,
        EntryClass::ClassType,
        EntryClass::AttributeType,
        EntryClass::AccessControlProfile,
    ];
    v.into_iter()
        .map(|c| {
            let s: &str = c.into();
            s.to_string()
        })
        .collect()
}
fn fixed_attrs() -> Vec<Attribute> {
    vec![
        Attribute::Class,
        Attribute::Uuid,
        Attribute::Name,
        Attribute::DisplayName,
        Attribute::OAuth2RsOriginLanding,
        Attribute::Image,
        Attribute::LinkedGroup,
        Attribute::SyncCredentialPortal,
    ]
}

/// interning tables of one world
struct Tabs {
    uuids: Intern<Uuid>,
    attrs: Intern<String>,
    vals: Intern<String>,
}
impl Tabs {
    fn new() -> Self {
        let mut t = Tabs { uuids: Intern::new(), attrs: Intern::new(), vals: Intern::new() };
        t.uuids.id(&UUID_ANONYMOUS);
        for a in fixed_attrs() {
            t.attrs.id(&a.as_str().to_string());
        }
        for c in fixed_classes() {
            t.vals.id(&format!("{:?}", PartialValue::new_iutf8(&c)));
        }
        // V_DOMAIN_INFO = 29 in KV.C40.Model
        let v = t.vals.id(&format!("{:?}", PartialValue::Uuid(UUID_DOMAIN_INFO)));
        assert_eq!(v, 29);
        t
    }
    fn attr(&mut self, a: &Attribute) -> u64 {
        self.attrs.id(&a.as_str().to_string())
    }
    fn class(&mut self, c: &str) -> u64 {
        self.vals.id(&format!("{:?}", PartialValue::new_iutf8(c)))
    }
    fn val(&mut self, v: &PartialValue) -> u64 {
        self.vals.id(&format!("{:?}", v))
    }
}
// ------------------------------------------------------------------ filters
#[derive(Clone, Copy, Debug, PartialEq, Eq, PartialOrd, Ord)]
enum K {
    Eq,
    Cnt,
    Stw,
    Enw,
    Pres,
    Lt,
}
impl K {
    fn coq(self) -> &'static str {
        match self {
            K::Eq => "KEq",
            K::Cnt => "KCnt",
            K::Stw => "KStw",
            K::Enw => "KEnw",
            K::Pres => "KPres",
            K::Lt => "KLt",
        }
    }
}
/// a filter as the harness generates or dumps it (SelfUuid still symbolic)
#[derive(Clone, Debug)]
enum F {
    Leaf(K, Attribute, PartialValue),
    SelfU,
    Invalid(Attribute),
    And(Vec<F>),
    Or(Vec<F>),
    Inc(Vec<F>),
    Not(Box<F>),
}
type LeafKey = (K, String, String); // kind, attr, value debug
struct LeafSet {
    seen: BTreeSet<LeafKey>,
    leaves: Vec<(K, Attribute, PartialValue)>,
}
impl LeafSet {
    fn new() -> Self {
        LeafSet { seen: BTreeSet::new(), leaves: vec![] }
    }
    fn add(&mut self, k: K, a: &Attribute, v: &PartialValue) {
        let key = (k, a.as_str().to_string(), if k == K::Pres { String::new() } else { format!("{:?}", v) });
        if self.seen.insert(key) {
            self.leaves.push((k, a.clone(), v.clone()));
        }
    }
}

fn to_fc(f: &F) -> FC {
    match f {
        F::Leaf(K::Eq, a, v) => FC::Eq(a.clone(), v.clone()),
        F::Leaf(K::Cnt, a, v) => FC::Cnt(a.clone(), v.clone()),
        F::Leaf(K::Pres, a, _) => FC::Pres(a.clone()),
        F::Leaf(K::Lt, a, v) => FC::LessThan(a.clone(), v.clone()),
        F::Leaf(_, a, _) => FC::Invalid(a.clone()), // Stw/Enw cannot be built through FC (never generated)
        F::SelfU => FC::SelfUuid,
        F::Invalid(a) => FC::Invalid(a.clone()),
        F::And(l) => FC::And(l.iter().map(to_fc).collect()),
        F::Or(l) => FC::Or(l.iter().map(to_fc).collect()),
        F::Inc(l) => FC::Inclusion(l.iter().map(to_fc).collect()),
        F::Not(g) => FC::AndNot(Box::new(to_fc(g))),
    }
}
fn of_resolved(f: &FilterResolved) -> F {
    match f {
        FilterResolved::Eq(a, v, _) => F::Leaf(K::Eq, a.clone(), v.clone()),
        FilterResolved::Cnt(a, v, _) => F::Leaf(K::Cnt, a.clone(), v.clone()),
        FilterResolved::Stw(a, v, _) => F::Leaf(K::Stw, a.clone(), v.clone()),
        FilterResolved::Enw(a, v, _) => F::Leaf(K::Enw, a.clone(), v.clone()),
        FilterResolved::Pres(a, _) => F::Leaf(K::Pres, a.clone(), PartialValue::Bool(true)),
        FilterResolved::LessThan(a, v, _) => F::Leaf(K::Lt, a.clone(), v.clone()),
        FilterResolved::Or(l, _) => F::Or(l.iter().map(of_resolved).collect()),
        FilterResolved::And(l, _) => F::And(l.iter().map(of_resolved).collect()),
        FilterResolved::Invalid(a) => F::Invalid(a.clone()),
        FilterResolved::Inclusion(l, _) => F::Inc(l.iter().map(of_resolved).collect()),
        FilterResolved::AndNot(g, _) => F::Not(Box::new(of_resolved(g))),
    }
}
/// print as a KV.Base.Filter.filt for the caller `me`, collecting the leaves
fn coq_f(f: &F, me: Option<Uuid>, t: &mut Tabs, ls: &mut LeafSet) -> String {
    match f {
        F::Leaf(k, a, v) => {
            ls.add(*k, a, v);
            let vid = if *k == K::Pres { 0 } else { t.val(v) };
            format!("(FLeaf {} {} {} None)", k.coq(), cn(t.attr(a)), cn(vid))
        }
        F::SelfU => {
            let v = PartialValue::Uuid(me.expect("SelfUuid needs a user caller"));
            coq_f(&F::Leaf(K::Eq, Attribute::Uuid, v), me, t, ls)
        }
        F::Invalid(a) => format!("(FInvalid {})", cn(t.attr(a))),
        F::And(l) => format!("(FAnd {} None)", clist(l, |g| coq_f(g, me, t, ls))),
        F::Or(l) => format!("(FOr {} None)", clist(l, |g| coq_f(g, me, t, ls))),
        F::Inc(l) => format!("(FInclusion {} None)", clist(l, |g| coq_f(g, me, t, ls))),
        F::Not(g) => format!("(FAndNot {} None)", coq_f(g, me, t, ls)),
    }
}
// clist takes Fn, but coq_f needs &mut state: a small local variant
fn clist<T, G: FnMut(&T) -> String>(xs: &[T], mut g: G) -> String {
    let v: Vec<String> = xs.iter().map(|x| g(x)).collect();
    clist_s(&v)
}
fn txt_f(f: &F) -> String {
    match f {
        F::Leaf(K::Pres, a, _) => format!("pres({})", a.as_str()),
        F::Leaf(k, a, v) => format!("{:?}({},{:?})", k, a.as_str(), v),
        F::SelfU => "self".into(),
        F::Invalid(a) => format!("invalid({})", a.as_str()),
        F::And(l) => format!("and[{}]", l.iter().map(txt_f).collect::<Vec<_>>().join(" ")),
        F::Or(l) => format!("or[{}]", l.iter().map(txt_f).collect::<Vec<_>>().join(" ")),
        F::Inc(l) => format!("inc[{}]", l.iter().map(txt_f).collect::<Vec<_>>().join(" ")),
        F::Not(g) => format!("not({})", txt_f(g)),
    }
}
fn to_proto(f: &F) -> ProtoFilter {
    match f {
        F::Leaf(K::Eq, a, v) => ProtoFilter::Eq(a.as_str().to_string(), pv_str(v)),
        F::Leaf(K::Cnt, a, v) => ProtoFilter::Cnt(a.as_str().to_string(), pv_str(v)),
        F::Leaf(_, a, _) => ProtoFilter::Pres(a.as_str().to_string()),
        F::SelfU => ProtoFilter::SelfUuid,
        F::Invalid(a) => ProtoFilter::Pres(a.as_str().to_string()),
        F::And(l) | F::Inc(l) => ProtoFilter::And(l.iter().map(to_proto).collect()),
        F::Or(l) => ProtoFilter::Or(l.iter().map(to_proto).collect()),
        F::Not(g) => ProtoFilter::AndNot(Box::new(to_proto(g))),
    }
}
fn pv_str(v: &PartialValue) -> String {
    match v {
        PartialValue::Iutf8(s) | PartialValue::Iname(s) | PartialValue::Utf8(s) => s.clone(),
        PartialValue::Uuid(u) | PartialValue::Refer(u) => u.as_hyphenated().to_string(),
        other => format!("{:?}", other),
    }
}
fn to_ldap(f: &F) -> HookLdapFilter {
    match f {
        F::Leaf(K::Pres, a, _) => HookLdapFilter::Pres(a.as_str().to_string()),
        F::Leaf(_, a, v) => HookLdapFilter::Eq(a.as_str().to_string(), pv_str(v)),
        F::And(l) | F::Inc(l) => HookLdapFilter::And(l.iter().map(to_ldap).collect()),
        F::Or(l) => HookLdapFilter::Or(l.iter().map(to_ldap).collect()),
        F::Not(g) => HookLdapFilter::Not(Box::new(to_ldap(g))),
        F::SelfU | F::Invalid(_) => HookLdapFilter::Pres("class".to_string()),
    }
}
fn uu(world: u64, n: u64) -> Uuid {
    Uuid::from_u128(0xc40c_40c4_0000_4000_8000_0000_0000_0000u128 + ((world as u128) << 16) + n as u128)
}

fn pool_attrs() -> Vec<Attribute> {
    vec![
        Attribute::Class,
        Attribute::Uuid,
        Attribute::Name,
        Attribute::DisplayName,
        Attribute::Spn,
        Attribute::MemberOf,
        Attribute::Member,
        Attribute::EntryManagedBy,
        Attribute::Description,
        Attribute::OAuth2RsOriginLanding,
        Attribute::OAuth2RsScopeMap,
        Attribute::LinkedGroup,
        Attribute::SyncCredentialPortal,
        Attribute::SyncParentUuid,
        Attribute::DirectMemberOf,
    ]
}

struct Gen<'a> {
    rng: &'a mut Rng,
    w: &'a World,
}
impl Gen<'_> {
    fn any_uuid(&mut self) -> Uuid {
        let r = self.rng.below(10);
        if r == 0 {
            UUID_ANONYMOUS
        } else {
            self.rng.pick(&self.w.all).0
        }
    }
    fn group_uuid(&mut self) -> Uuid {
        if self.rng.chance(1, 8) {
            UUID_IDM_ALL_PERSONS
        } else {
            self.rng.pick(&self.w.groups).0
        }
    }
    fn any_name(&mut self) -> String {
        if self.rng.chance(1, 10) {
            "anonymous".to_string()
        } else {
            self.rng.pick(&self.w.all).1.clone()
        }
    }
    fn class_name(&mut self) -> String {
        let cs = [
            "person", "group", "account", "object", "service_account", "oauth2_resource_server",
            "application", "sync_account", "sync_object", "recycled", "tombstone", "memberof",
        ];
        self.rng.pick(&cs).to_string()
    }
    fn leaf(&mut self, allow_self: bool) -> F {
        match self.rng.below(if allow_self { 13 } else { 12 }) {
            0 | 1 => F::Leaf(K::Eq, Attribute::Class, PartialValue::new_iutf8(&self.class_name())),
            2 | 3 => F::Leaf(K::Eq, Attribute::Name, PartialValue::new_iname(&self.any_name())),
            4 => F::Leaf(K::Eq, Attribute::Uuid, PartialValue::Uuid(self.any_uuid())),
            5 | 6 => F::Leaf(K::Eq, Attribute::MemberOf, PartialValue::Refer(self.group_uuid())),
            7 => {
                let a = self.rng.pick(&pool_attrs()).clone();
                F::Leaf(K::Pres, a, PartialValue::Bool(true))
            }
            8 => F::Leaf(K::Cnt, Attribute::Name, PartialValue::new_iname(["c40", "p", "g1", "anon"][self.rng.below(4) as usize])),
            9 => F::Leaf(K::Eq, Attribute::EntryManagedBy, PartialValue::Refer(self.any_uuid())),
            10 => F::Leaf(K::Eq, Attribute::DisplayName, PartialValue::new_utf8s(["Person 0", "Person 1", "Group"][self.rng.below(3) as usize])),
            11 => {
                if self.rng.chance(1, 2) {
                    F::Invalid(self.rng.pick(&pool_attrs()).clone())
                } else {
                    F::Leaf(K::Eq, Attribute::Member, PartialValue::Refer(self.any_uuid()))
                }
            }
            _ => F::SelfU,
        }
    }
    fn filter(&mut self, depth: u32, allow_self: bool) -> F {
        if depth == 0 || self.rng.chance(2, 5) {
            return self.leaf(allow_self);
        }
        match self.rng.below(5) {
            0 | 1 => {
                let n = self.rng.range(1, 3);
                F::And((0..n).map(|_| self.filter(depth - 1, allow_self)).collect())
            }
            2 | 3 => {
                let n = self.rng.range(1, 3);
                F::Or((0..n).map(|_| self.filter(depth - 1, allow_self)).collect())
            }
            _ => F::Not(Box::new(self.filter(depth - 1, allow_self))),
        }
    }
    /// an equality term the backend can answer from an index (LDAP callers may not run
    /// unindexed searches)
    fn anchor(&mut self) -> F {
        match self.rng.below(4) {
            0 => F::Leaf(K::Eq, Attribute::Class, PartialValue::new_iutf8(&self.class_name())),
            1 => F::Leaf(K::Eq, Attribute::Name, PartialValue::new_iname(&self.any_name())),
            2 => F::Leaf(K::Eq, Attribute::Uuid, PartialValue::Uuid(self.any_uuid())),
            _ => F::Leaf(K::Eq, Attribute::MemberOf, PartialValue::Refer(self.group_uuid())),
        }
    }
    fn ldap_leaf(&mut self) -> F {
        match self.rng.below(6) {
            0 | 1 | 2 => self.anchor(),
            3 => F::Leaf(K::Pres, self.rng.pick(&pool_attrs()).clone(), PartialValue::Bool(true)),
            4 => F::Leaf(K::Eq, Attribute::DisplayName, PartialValue::new_utf8s(["Person 0", "Person 1", "Group"][self.rng.below(3) as usize])),
            _ => F::Not(Box::new(self.anchor())),
        }
    }
    fn ldap_filter(&mut self) -> F {
        match self.rng.below(4) {
            0 => self.anchor(),
            1 => F::And(vec![self.anchor(), self.ldap_leaf()]),
            2 => F::Or(vec![self.anchor(), self.anchor()]),
            _ => F::And(vec![F::Or(vec![self.anchor(), self.anchor()]), self.ldap_leaf()]),
        }
    }
    fn attr_subset(&mut self, lo: u64, hi: u64) -> Vec<Attribute> {
        let mut p = pool_attrs();
        self.rng.shuffle(&mut p);
        let n = self.rng.range(lo, hi) as usize;
        p.truncate(n);
        p
    }
}

fn mk(classes: &[EntryClass], uuid: Uuid, name: &str) -> Entry<EntryInit, EntryNew> {
    let mut e: Entry<EntryInit, EntryNew> = kanidmd_lib::entry_init!(
        (Attribute::Class, EntryClass::Object.to_value()),
        (Attribute::Uuid, Value::Uuid(uuid)),
        (Attribute::Name, Value::new_iname(name))
    );
    for c in classes {
        e.add_ava(Attribute::Class, c.to_value());
    }
    e
}

// ------------------------------------------------------------------ the world
#[derive(Clone)]
struct Person {
    uuid: Uuid,
    name: String,
    unix_pw: Option<String>,
    primary_pw: Option<String>,
    expired: bool,
    app_pws: Vec<(Uuid, String)>,
}

#[derive(Clone)]
struct World {
    flag: bool,
    fallback: bool,
    persons: Vec<Person>,
    groups: Vec<(Uuid, String)>,
    svc: (Uuid, String),
    apps: Vec<(Uuid, String, Uuid)>, // uuid, name, linked group
    o2: Option<(Uuid, String)>,
    recycled: Vec<Uuid>,
    all: Vec<(Uuid, String)>, // every named tracked entry
    tokens: Vec<(String, Uuid, AccessScope)>,
    ghost: Uuid,
    /// a profile lets anonymous read `name` (and nothing else) of the OAuth2 client entry
    classless: bool,
}

fn system_ident(anon: Arc<EntrySealedCommitted>) -> Identity {
    let mut ident = Identity::from_impersonate_entry_readwrite(anon);
    ident.origin = IdentType::Internal(InternalRole::System);
    ident
}

async fn build_world(idms: &IdmServer, rng: &mut Rng, wn: u64, sink: &mut Sink) -> World {
    let ct = duration_from_epoch_now();
    let flag = wn % 2 == 0;
    let fallback = rng.chance(1, 2);
    let ng = rng.range(3, 4);
    let np = rng.range(4, 5);
    let mut next = 1u64;
    let fresh = |next: &mut u64| {
        let u = uu(wn, *next);
        *next += 1;
        u
    };
    let mut persons: Vec<Person> = (0..np)
        .map(|k| Person {
            uuid: fresh(&mut next),
            name: format!("c40p{k}"),
            unix_pw: if k == 2 { None } else { Some(format!("c40-unix-horse-battery-{wn}-{k}")) },
            primary_pw: if k == 0 || k == 2 { Some(format!("c40-primary-staple-correct-{wn}-{k}")) } else { None },
            expired: k == 3,
            app_pws: vec![],
        })
        .collect();
    let groups: Vec<(Uuid, String)> = (0..ng).map(|k| (fresh(&mut next), format!("c40g{k}"))).collect();
    let svc = (fresh(&mut next), "c40s0".to_string());
    let o2 = (fresh(&mut next), "c40o0".to_string());
    let napp = rng.range(1, 2);
    let apps: Vec<(Uuid, String, Uuid)> =
        (0..napp).map(|k| (fresh(&mut next), format!("c40a{k}"), groups[k as usize].0)).collect();
    let ghost = fresh(&mut next);
    let gx_uuid = fresh(&mut next);

    let mut w = World {
        flag,
        fallback,
        persons: vec![],
        groups: groups.clone(),
        svc: svc.clone(),
        apps: vec![],
        o2: None,
        recycled: vec![],
        all: vec![],
        tokens: vec![],
        ghost,
        classless: false,
    };

    let mut pw = idms.proxy_write(ct).await.expect("proxy_write");
    {
        let qs = &mut pw.qs_write;
        for (k, p) in persons.iter().enumerate() {
            let mut cls = vec![EntryClass::Account, EntryClass::Person];
            if k != 2 || rng.chance(1, 2) {
                cls.push(EntryClass::PosixAccount);
            }
            let mut e = mk(&cls, p.uuid, &p.name);
            e.add_ava(Attribute::DisplayName, Value::new_utf8s(&format!("Person {k}")));
            if rng.chance(1, 2) {
                e.add_ava(Attribute::Description, Value::new_utf8s("a c40 person"));
            }
            qs.internal_create(vec![e]).expect("create person");
        }
        let member_pool: Vec<Uuid> = persons.iter().map(|p| p.uuid).chain([svc.0, UUID_ANONYMOUS]).collect();
        let mut gents = vec![];
        for (k, (u, n)) in groups.iter().enumerate() {
            let mut e = mk(&[EntryClass::Group], *u, n);
            if rng.chance(1, 2) {
                e.add_ava(Attribute::Description, Value::new_utf8s("Group"));
            }
            for m in &member_pool {
                if rng.chance(if k < 2 { 3 } else { 2 }, 5) {
                    e.add_ava(Attribute::Member, Value::Refer(*m));
                }
            }
            for (j, (gu, _)) in groups.iter().enumerate() {
                if j > k && rng.chance(1, 4) {
                    e.add_ava(Attribute::Member, Value::Refer(*gu));
                }
            }
            if rng.chance(1, 2) {
                let mgr = if rng.chance(1, 2) { rng.pick(&persons).uuid } else { rng.pick(&groups).0 };
                e.add_ava(Attribute::EntryManagedBy, Value::Refer(mgr));
            }
            gents.push(e);
        }
        let mut s = mk(&[EntryClass::Account, EntryClass::ServiceAccount], svc.0, &svc.1);
        s.add_ava(Attribute::DisplayName, Value::new_utf8s("Service 0"));
        let mut batch = vec![s];
        batch.extend(gents);
        {
            let mut gx = mk(&[EntryClass::Group], gx_uuid, "c40gx");
            gx.add_ava(Attribute::Member, Value::Refer(UUID_ANONYMOUS));
            batch.push(gx);
        }
        qs.internal_create(batch).expect("create groups/service");

        let mut o = mk(&[EntryClass::Account, EntryClass::OAuth2ResourceServer, EntryClass::OAuth2ResourceServerBasic], o2.0, &o2.1);
        o.add_ava(Attribute::DisplayName, Value::new_utf8s("OAuth2 0"));
        o.add_ava(Attribute::OAuth2RsOriginLanding, Value::new_url_s("https://c40.example.com").expect("url"));
        let g = rng.pick(&groups[..groups.len() - 1]).0;
        o.add_ava(Attribute::OAuth2RsScopeMap, Value::new_oauthscopemap(g, BTreeSet::from(["read".to_string()])).expect("scopemap"));
        match qs.internal_create(vec![o]) {
            Ok(_) => w.o2 = Some(o2.clone()),
            Err(e) => {
                sink.bump("world_oauth2_create_failed");
                eprintln!("oauth2 create failed: {e:?}");
            }
        }
        for (au, an, ag) in &apps {
            let mut a = mk(&[EntryClass::Account, EntryClass::ServiceAccount, EntryClass::Application], *au, an);
            a.add_ava(Attribute::DisplayName, Value::new_utf8s("Application"));
            a.add_ava(Attribute::LinkedGroup, Value::Refer(*ag));
            qs.internal_create(vec![a]).expect("create application");
            w.apps.push((*au, an.clone(), *ag));
        }
    }
    w.all = persons.iter().map(|p| (p.uuid, p.name.clone())).chain(groups.iter().cloned()).collect();
    w.all.push(svc.clone());
    w.all.push((gx_uuid, "c40gx".to_string()));
    if let Some(x) = &w.o2 {
        w.all.push(x.clone());
    }
    for (au, an, _) in &w.apps {
        w.all.push((*au, an.clone()));
    }

    // random search access control profiles (as in C23)
    let mut created_acps: Vec<(Uuid, String)> = vec![];
    {
        let nacp = rng.range(4, 8);
        for k in 0..nacp {
            let (target, attrs, recv) = {
                let mut g = Gen { rng, w: &w };
                let target = g.filter(2, true);
                let attrs = g.attr_subset(1, 6);
                let recv = g.rng.below(8);
                (target, attrs, recv)
            };
            let u = fresh(&mut next);
            let mut e = mk(&[EntryClass::AccessControlProfile, EntryClass::AccessControlSearch], u, &format!("c40acp{k}"));
            e.add_ava(Attribute::Description, Value::new_utf8s("c40 random search profile"));
            match recv {
                0 => {}
                1 | 2 => {
                    e.add_ava(Attribute::Class, EntryClass::AccessControlReceiverEntryManager.to_value());
                }
                _ => {
                    e.add_ava(Attribute::Class, EntryClass::AccessControlReceiverGroup.to_value());
                    let n = rng.range(1, 2);
                    for _ in 0..n {
                        let g = if rng.chance(1, 6) { UUID_IDM_ALL_PERSONS } else { rng.pick(&groups[..groups.len() - 1]).0 };
                        e.add_ava(Attribute::AcpReceiverGroup, Value::Refer(g));
                    }
                }
            }
            if !rng.chance(1, 12) {
                e.add_ava(Attribute::Class, EntryClass::AccessControlTargetScope.to_value());
                e.add_ava(Attribute::AcpTargetScope, Value::new_json_filter(to_proto(&target)));
            }
            for a in &attrs {
                e.add_ava(Attribute::AcpSearchAttr, Value::new_iutf8(a.as_str()));
            }
            match pw.qs_write.internal_create(vec![e]) {
                Ok(_) => {
                    sink.bump("acp_created");
                    created_acps.push((u, format!("c40acp{k}")));
                }
                Err(err) => {
                    sink.bump("acp_create_failed");
                    eprintln!("acp create failed: {err:?} target={}", txt_f(&target));
                }
            }
        }
    }
    // a profile that lets anonymous read ONLY `name` of the OAuth2 client (worlds 0,1,4,5,..)
    if (wn / 2) % 2 == 0 && w.o2.is_some() {
        let u = fresh(&mut next);
        let mut e = mk(&[EntryClass::AccessControlProfile, EntryClass::AccessControlSearch], u, "c40acpnameonly");
        e.add_ava(Attribute::Description, Value::new_utf8s("c40 name-only profile"));
        e.add_ava(Attribute::Class, EntryClass::AccessControlReceiverGroup.to_value());
        e.add_ava(Attribute::AcpReceiverGroup, Value::Refer(gx_uuid));
        e.add_ava(Attribute::Class, EntryClass::AccessControlTargetScope.to_value());
        e.add_ava(
            Attribute::AcpTargetScope,
            Value::new_json_filter(to_proto(&F::Leaf(K::Eq, Attribute::Name, PartialValue::new_iname("c40o0")))),
        );
        e.add_ava(Attribute::AcpSearchAttr, Value::new_iutf8(Attribute::Name.as_str()));
        match pw.qs_write.internal_create(vec![e]) {
            Ok(_) => {
                w.classless = true;
                created_acps.push((u, "c40acpnameonly".to_string()));
            }
            Err(err) => {
                sink.bump("nameonly_acp_create_failed");
                eprintln!("name-only acp create failed: {err:?}");
            }
        }
    }
    // the profile entries are tracked (and nameable by random filters) from here on; the service
    // account may read profile and schema entries natively (access-control / schema admins)
    w.all.extend(created_acps.iter().cloned());
    for g in [UUID_IDM_ACCESS_CONTROL_ADMINS, UUID_IDM_SCHEMA_ADMINS] {
        pw.qs_write
            .internal_modify_uuid(g, &ModifyList::new_append(Attribute::Member, Value::Refer(svc.0)))
            .expect("admin group membership");
    }
    // domain flag, account policy, primary credentials, expiry
    pw.qs_write
        .internal_modify_uuid(UUID_DOMAIN_INFO, &ModifyList::new_purge_and_set(Attribute::LdapAllowUnixPwBind, Value::new_bool(flag)))
        .expect("flag");
    pw.qs_write
        .internal_modify_uuid(UUID_IDM_ALL_ACCOUNTS, &ModifyList::new_purge_and_set(Attribute::AllowPrimaryCredFallback, Value::new_bool(fallback)))
        .expect("fallback");
    for p in &persons {
        if let Some(pp) = &p.primary_pw {
            pw.qs_write
                .internal_modify_uuid(p.uuid, &ModifyList::new_purge_and_set(Attribute::PrimaryCredential, Value::new_credential("primary", hook27::cred_new_password(pp))))
                .expect("primary");
        }
        if p.expired {
            pw.qs_write
                .internal_modify_uuid(p.uuid, &ModifyList::new_purge_and_set(Attribute::AccountExpire, Value::new_datetime_epoch(Duration::from_secs(1000))))
                .expect("expire");
        }
    }
    pw.commit().expect("commit world");

    // POSIX passwords, application passwords, API tokens
    let mut pw = idms.proxy_write(ct + Duration::from_secs(1)).await.expect("proxy_write");
    let anon = pw.qs_write.internal_search_uuid(UUID_ANONYMOUS).expect("anonymous");
    let sys = system_ident(anon);
    for p in persons.iter_mut() {
        let posix = pw
            .qs_write
            .internal_search_uuid(p.uuid)
            .map(|e| e.attribute_equality(Attribute::Class, &EntryClass::PosixAccount.into()))
            .unwrap_or(false);
        if let Some(up) = p.unix_pw.clone() {
            if !posix {
                p.unix_pw = None;
            } else {
                let ev = UnixPasswordChangeEvent::from_parts(sys.clone(), p.uuid, up).expect("event");
                if let Err(e) = pw.set_unix_account_password(&ev) {
                    eprintln!("unix password failed: {e:?}");
                    sink.bump("unix_password_failed");
                    p.unix_pw = None;
                }
            }
        }
        for (au, _, _) in &w.apps {
            if rng.chance(2, 3) {
                let ev = GenerateApplicationPasswordEvent { ident: sys.clone(), target: p.uuid, application: *au, label: "c40".to_string() };
                match pw.generate_application_password(&ev) {
                    Ok((clear, _)) => p.app_pws.push((*au, clear)),
                    Err(e) => {
                        eprintln!("application password failed: {e:?}");
                        sink.bump("app_password_failed");
                    }
                }
            }
        }
    }
    for (rw, compact) in [(false, true), (true, true), (true, false)] {
        let ev = GenerateApiTokenEvent { ident: sys.clone(), target: svc.0, label: format!("c40-{rw}-{compact}"), expiry: None, read_write: rw, compact };
        match pw.service_account_generate_api_token(&ev, ct + Duration::from_secs(1)) {
            Ok(jws) => w.tokens.push((jws.to_string(), svc.0, if rw { AccessScope::ReadWrite } else { AccessScope::ReadOnly })),
            Err(e) => {
                eprintln!("api token failed: {e:?}");
                sink.bump("api_token_failed");
            }
        }
    }
    pw.commit().expect("commit secrets");

    // the last group is recycled (never a receiver / linked group)
    if rng.chance(3, 4) {
        let mut pw = idms.proxy_write(ct + Duration::from_secs(2)).await.expect("proxy_write");
        let v = w.groups.pop().expect("group").0;
        pw.qs_write
            .internal_delete(&kanidmd_lib::filter!(f_eq(Attribute::Uuid, PartialValue::Uuid(v))))
            .expect("delete");
        pw.commit().expect("commit");
        w.recycled.push(v);
    }
    w.persons = persons;
    w
}

// ------------------------------------------------------------------ directory fingerprint
struct FnvW(u64);
impl std::fmt::Write for FnvW {
    fn write_str(&mut self, s: &str) -> std::fmt::Result {
        for b in s.as_bytes() {
            self.0 ^= *b as u64;
            self.0 = self.0.wrapping_mul(0x100000001b3);
        }
        Ok(())
    }
}
async fn fingerprint(idms: &IdmServer) -> (u64, usize) {
    use std::fmt::Write as _;
    let mut pr = idms.proxy_read().await.expect("proxy_read");
    let mut all = pr
        .qs_read
        .internal_search(kanidmd_lib::filter_all!(f_pres(Attribute::Class)))
        .expect("dump");
    all.sort_by_key(|e| e.get_uuid());
    let mut h = FnvW(0xcbf29ce484222325);
    for e in &all {
        let _ = write!(h, "{:?}|", e);
    }
    (h.0, all.len())
}
async fn delayed_pending(delayed: &mut IdmServerDelayed) -> bool {
    let mut buf = Vec::with_capacity(8);
    match tokio::time::timeout(Duration::from_millis(0), delayed.recv_many(&mut buf)).await {
        Ok(n) => n > 0,
        Err(_) => false,
    }
}

// ------------------------------------------------------------------ operations
#[derive(Clone, Debug)]
enum BaseK {
    Empty,
    Domain(String), // the text (base DN, or app=..,base DN)
    Rdn(String, String), // name, text
    Bad(String),
}
impl BaseK {
    fn text(&self) -> String {
        match self {
            BaseK::Empty => String::new(),
            BaseK::Domain(t) | BaseK::Bad(t) => t.clone(),
            BaseK::Rdn(_, t) => t.clone(),
        }
    }
}
#[derive(Clone, Debug)]
enum HOp {
    Bind(String, String),
    Search(BaseK, u8, F, Option<Vec<Attribute>>),
    Compare(BaseK, F),
    Unbind,
    Whoami,
}

fn scope_coq(s: AccessScope) -> &'static str {
    match s {
        AccessScope::ReadOnly => "ScRO",
        AccessScope::ReadWrite => "ScRW",
        AccessScope::Synchronise => "ScSync",
    }
}
fn session_parts(s: &LdapSession) -> Option<(Uuid, Option<AccessScope>)> {
    match s {
        LdapSession::UnixBind(u) => Some((*u, None)),
        LdapSession::ApiToken(apit) => {
            let sc = match format!("{:?}", apit.purpose).as_str() {
                "ReadOnly" => AccessScope::ReadOnly,
                "ReadWrite" => AccessScope::ReadWrite,
                _ => AccessScope::Synchronise,
            };
            Some((apit.account_id, Some(sc)))
        }
        _ => None,
    }
}
fn session_coq(s: &LdapSession, t: &mut Tabs) -> String {
    match session_parts(s) {
        Some((u, None)) => format!("(SUnix {})", cn(t.uuids.id(&u))),
        Some((u, Some(sc))) => format!("(SApi {} {})", cn(t.uuids.id(&u)), scope_coq(sc)),
        // not a session the model's do_bind can produce: printed as an impossible value
        None => "(SUnix 4000000000)".to_string(),
    }
}
fn err_coq(code: &str, msg: &str) -> String {
    match code {
        "InvalidCredentials" => "RInvalidCred".to_string(),
        "ConstraintViolation" => "(RErr EConstraint)".to_string(),
        _ => {
            let e = if msg.starts_with("NoMatchingEntries") {
                "ENoMatch"
            } else if msg.starts_with("NotAuthenticated") {
                "ENotAuth"
            } else if msg.starts_with("SessionExpired") {
                "EExpired"
            } else if msg.starts_with("InvalidUuid") {
                "EInvalidUuid"
            } else if msg.starts_with("MissingClass") || msg.starts_with("MissingAttribute") || msg.starts_with("EmptyFilter") {
                // Account::try_from_entry_with_policy failed: wrong class, or (for an entry without
                // memberof) the account policy lookup built an empty filter
                "ENotAccount"
            } else {
                "EOther"
            };
            format!("(RErr {e})")
        }
    }
}

fn build_filters(qs: &mut QueryServerReadTransaction, f: &F) -> Result<(Filter<FilterValid>, Filter<FilterValid>), String> {
    let inv = Filter::new(to_fc(f));
    let valid = inv.validate(qs.get_schema()).map_err(|e| format!("{e:?}"))?;
    Ok((valid.clone().into_ignore_hidden(), valid))
}

fn ext_coq(v: &[(u64, Vec<u64>)]) -> String {
    clist(v, |(i, at)| format!("({}, {})", cn(*i), clist(at, |x| cn(*x))))
}

struct Conn {
    ops: Vec<HOp>,
    start: Option<LdapBoundToken>,
    tag: &'static str,
}

fn gen_bind(rng: &mut Rng, w: &World, tainted: &BTreeSet<Uuid>, foreign: &[String]) -> (String, String) {
    // who
    let who = rng.below(14);
    let (names, person): (Vec<String>, Option<&Person>) = match who {
        0 => (vec!["anonymous".into(), "anonymous@example.com".into(), UUID_ANONYMOUS.as_hyphenated().to_string()], None),
        1..=7 => {
            let p = rng.pick(&w.persons);
            (vec![p.name.clone(), format!("{}@example.com", p.name), p.uuid.as_hyphenated().to_string(), p.name.to_uppercase()], Some(p))
        }
        8 => (vec![w.svc.1.clone(), w.svc.0.as_hyphenated().to_string()], None),
        9 => {
            let g = rng.pick(&w.groups);
            (vec![g.1.clone(), g.0.as_hyphenated().to_string()], None)
        }
        10 => {
            let a = rng.pick(&w.apps);
            (vec![a.1.clone()], None)
        }
        11 => (vec![w.ghost.as_hyphenated().to_string()], None),
        12 => (vec!["c40nobody".into(), "admin".into()], None),
        _ => (vec![String::new()], None),
    };
    let val = rng.pick(&names).clone();
    let app = if rng.chance(1, 3) {
        let a = rng.pick(&w.apps).1.clone();
        Some(match rng.below(8) {
            0 => a.to_uppercase(),
            1 => "c40noapp".to_string(),
            _ => a,
        })
    } else {
        None
    };
    let mut dn = if val.is_empty() {
        match rng.below(3) {
            0 => "dn=token".to_string(),
            _ => String::new(),
        }
    } else {
        let head = match rng.below(7) {
            0 | 1 => val.clone(),
            2 | 3 => format!("name={val}"),
            4 => format!("uid={val}"),
            5 => format!("spn={val}"),
            _ => format!("cn={val}"),
        };
        let mut s = head;
        if let Some(a) = &app {
            s.push_str(&format!(",app={a}"));
        }
        if rng.chance(1, 2) {
            s.push(',');
            s.push_str(BASEDN);
        }
        s
    };
    // malformed variants
    if !dn.is_empty() && rng.chance(1, 7) {
        dn = match rng.below(9) {
            0 => format!("{dn},"),
            1 => format!("name={val},dc=wrong,dc=com"),
            2 => format!("name={val},dc=example"),
            3 => format!("a=b={val}"),
            4 => format!("name=,{BASEDN}"),
            5 => format!("={val}"),
            6 => format!("name={val},app="),
            7 => format!("name={val},app={},app={}", w.apps[0].1, w.apps[0].1),
            _ => format!("name={val},ou=people,{BASEDN}"),
        };
    }
    // secret
    let via_app = dn.contains(",app=");
    let mut secrets: Vec<String> = vec![String::new(), "c40-garbage-secret".to_string()];
    if let Some(p) = person {
        if via_app {
            for (_, c) in &p.app_pws {
                for _ in 0..5 {
                    secrets.push(c.clone());
                }
            }
            if let Some(u) = &p.unix_pw {
                secrets.push(u.clone());
            }
        } else {
            let locked = w.flag && tainted.contains(&p.uuid);
            if !locked {
                if let Some(u) = &p.unix_pw {
                    for _ in 0..6 {
                        secrets.push(u.clone());
                    }
                }
                if let Some(pp) = &p.primary_pw {
                    for _ in 0..3 {
                        secrets.push(pp.clone());
                    }
                }
            }
            for (_, c) in &p.app_pws {
                secrets.push(c.clone());
            }
        }
        // another account's secret
        let q = rng.pick(&w.persons);
        if q.uuid != p.uuid {
            if let Some(u) = &q.unix_pw {
                secrets.push(u.clone());
            }
        }
    }
    if val.is_empty() || rng.chance(1, 10) {
        for (t, _, _) in &w.tokens {
            secrets.push(t.clone());
            secrets.push(t.clone());
        }
        for t in foreign {
            secrets.push(t.clone());
        }
        secrets.push("not.a.token".to_string());
    }
    let pw = rng.pick(&secrets).clone();
    (dn, pw)
}

fn gen_base(rng: &mut Rng, w: &World) -> BaseK {
    match rng.below(12) {
        0 => BaseK::Empty,
        1 | 2 | 3 | 4 => BaseK::Domain(BASEDN.to_string()),
        5 => BaseK::Domain(format!("app={},{BASEDN}", w.apps[0].1)),
        6 | 7 | 8 | 9 => {
            let n = {
                let mut g = Gen { rng, w };
                g.any_name()
            };
            let t = if rng.chance(1, 5) { format!("name={n},app={},{BASEDN}", w.apps[0].1) } else { format!("name={n},{BASEDN}") };
            BaseK::Rdn(n, t)
        }
        10 => BaseK::Bad("dc=wrong,dc=com".to_string()),
        _ => BaseK::Bad(format!("name=c40p0,dc=example")),
    }
}

fn gen_conn(rng: &mut Rng, w: &World, tainted: &BTreeSet<Uuid>, foreign: &[String]) -> Conn {
    let n = rng.range(4, 7);
    let mut ops = vec![];
    for k in 0..n {
        let r = rng.below(20);
        let op = if (k == 0 && r < 14) || r < 6 {
            let (dn, pw) = gen_bind(rng, w, tainted, foreign);
            HOp::Bind(dn, pw)
        } else if r < 14 {
            let base = gen_base(rng, w);
            let scope = match rng.below(8) {
                0 => 0,
                1 => 1,
                2 => 3,
                _ => 2,
            };
            let mut g = Gen { rng, w };
            let f = g.ldap_filter();
            let req: Option<Vec<Attribute>> = if g.rng.chance(1, 3) { None } else { Some(g.attr_subset(1, 5)) };
            HOp::Search(base, scope, f, req)
        } else if r < 18 {
            let base = match rng.below(8) {
                0 => BaseK::Domain(BASEDN.to_string()),
                1 => BaseK::Bad("dc=wrong".to_string()),
                _ => {
                    let mut g = Gen { rng, w };
                    let n = g.any_name();
                    BaseK::Rdn(n.clone(), format!("name={n},{BASEDN}"))
                }
            };
            let mut g = Gen { rng, w };
            HOp::Compare(base, g.anchor())
        } else if r == 18 {
            HOp::Whoami
        } else if k + 1 == n {
            HOp::Unbind
        } else {
            HOp::Whoami
        };
        ops.push(op);
    }
    Conn { ops, start: None, tag: "random" }
}

fn main() {
    let args = parse_args();
    let mut rng = Rng::new(args.seed);
    let mut sink = Sink::new(&args, "KV.C40.Model", 4);
    sink.rule = "one case = one LDAP connection on a real IdmServer (unix-bind flag alternates per world; primary-credential \
fallback random; POSIX persons, a primary-only person, an expired person, nested groups, service account with RO/RW API \
tokens (compact and JSON), application(s) with linked group and application passwords, OAuth2 client, 4-8 random search \
profiles, a recycled group): 4-7 operations through LdapServer::do_op with the token handling of the connection loop: \
binds (DN forms: bare / attr= / with base DN / with app= / dn=token / empty / malformed; secrets: right POSIX password, \
another account's, primary, application password, API token, foreign-server token, empty, garbage), searches (all \
scopes; base = empty, base DN, app=..,base DN, rdn, wrong), compares, whoami, unbind; plus scripted connections: a bound \
account expires before its next search, and a right password directly after a wrong one (soft lock). Directory \
fingerprint and delayed-write queue checked around every operation; every search/compare repeated natively by the \
prescribed identity. non-trivial = the connection saw a bind by a non-anonymous account or a refused/failed bind, AND a \
search that returned entries".into();
    let rt = tokio::runtime::Builder::new_current_thread().enable_all().build().expect("rt");
    let n_worlds = if args.thorough { 30 } else { 8 };
    let mut foreign: Vec<String> = vec![];
    for wn in 0..n_worlds {
        let toks = rt.block_on(one_world(&mut rng, &mut sink, wn, args.thorough, &foreign));
        foreign = toks;
    }
    sink.finish();
}

struct EntDump {
    uuid: Uuid,
    ent: Arc<EntrySealedCommitted>,
}

async fn one_world(rng: &mut Rng, sink: &mut Sink, wn: u64, thorough: bool, foreign: &[String]) -> Vec<String> {
    let (idms, mut delayed, _audit) = setup_idm_test(TestConfiguration::default()).await;
    let w = build_world(&idms, rng, wn, sink).await;
    let ldap = LdapServer::new(&idms).await.expect("ldap server");
    // drain whatever the set-up queued
    {
        let mut buf = Vec::with_capacity(64);
        let _ = tokio::time::timeout(Duration::from_millis(0), delayed.recv_many(&mut buf)).await;
    }
    sink.bump(if w.flag { "world_flag_on" } else { "world_flag_off" });

    let mut tracked: Vec<Uuid> = vec![UUID_ANONYMOUS];
    tracked.extend(w.all.iter().map(|x| x.0));
    tracked.extend([UUID_ADMIN, UUID_IDM_ALL_PERSONS, UUID_DOMAIN_INFO, UUID_SCHEMA_ATTR_DISPLAYNAME, UUID_SCHEMA_CLASS_PERSON]);

    let mut tainted: BTreeSet<Uuid> = BTreeSet::new();
    let mut st = WState { expired_extra: BTreeSet::new(), locked: BTreeSet::new() };
    // scripted: a right password directly after a wrong one is refused (soft lock)
    if w.flag && w.persons.len() > 4 && w.persons[4].unix_pw.is_some() && !tainted.contains(&w.persons[4].uuid) {
        let p = w.persons[4].clone();
        let t0 = std::time::Instant::now();
        let c = Conn { ops: vec![HOp::Bind(p.name.clone(), "c40-wrong".to_string())], start: None, tag: "lock-fail" };
        let out = run_conn(&idms, &mut delayed, &ldap, &w, &tracked, &c, &st, &mut tainted, sink).await;
        sink.case(out.coq, format!("world {wn} {}", out.txt), out.nontrivial);
        st.locked.insert(p.uuid);
        let c = Conn { ops: vec![HOp::Bind(p.name.clone(), p.unix_pw.clone().unwrap_or_default())], start: None, tag: "lock-try" };
        let out = run_conn(&idms, &mut delayed, &ldap, &w, &tracked, &c, &st, &mut tainted, sink).await;
        // the lock lasts at least 1 s from the failed attempt: only then is the answer determined
        if t0.elapsed() < Duration::from_millis(800) {
            sink.bump("scripted_lock");
            sink.case(out.coq, format!("world {wn} {}", out.txt), true);
        } else {
            sink.bump("scripted_lock_window_missed");
        }
        st.locked.clear();
    }
    // scripted: the bound account expires before its next operation
    if w.flag && w.persons[1].unix_pw.is_some() && !tainted.contains(&w.persons[1].uuid) {
        let p = w.persons[1].clone();
        let c = Conn {
            ops: vec![
                HOp::Bind(format!("name={},{BASEDN}", p.name), p.unix_pw.clone().unwrap_or_default()),
                HOp::Search(BaseK::Domain(BASEDN.to_string()), 2, F::Leaf(K::Eq, Attribute::Class, PartialValue::new_iutf8("group")), None),
            ],
            start: None,
            tag: "expiry-bind",
        };
        let out = run_conn(&idms, &mut delayed, &ldap, &w, &tracked, &c, &st, &mut tainted, sink).await;
        sink.case(out.coq, format!("world {wn} {}", out.txt), out.nontrivial);
        if let Some(tok) = out.last {
            let ct = duration_from_epoch_now();
            let mut pw = idms.proxy_write(ct).await.expect("proxy_write");
            pw.qs_write
                .internal_modify_uuid(p.uuid, &ModifyList::new_purge_and_set(Attribute::AccountExpire, Value::new_datetime_epoch(Duration::from_secs(1000))))
                .expect("expire");
            pw.commit().expect("commit");
            st.expired_extra.insert(p.uuid);
            let (f1, a1) = {
                let mut g = Gen { rng, w: &w };
                (g.ldap_filter(), g.anchor())
            };
            let c = Conn {
                ops: vec![
                    HOp::Whoami,
                    HOp::Search(BaseK::Domain(BASEDN.to_string()), 2, f1, None),
                    HOp::Search(BaseK::Rdn("c40p0".into(), format!("name=c40p0,{BASEDN}")), 1, F::Leaf(K::Eq, Attribute::Class, PartialValue::new_iutf8("person")), None),
                    HOp::Compare(BaseK::Rdn("c40p0".into(), format!("name=c40p0,{BASEDN}")), a1),
                    HOp::Bind(String::new(), String::new()),
                    HOp::Search(BaseK::Domain(BASEDN.to_string()), 2, F::Leaf(K::Eq, Attribute::Class, PartialValue::new_iutf8("group")), None),
                ],
                start: Some(tok),
                tag: "expiry-use",
            };
            let out = run_conn(&idms, &mut delayed, &ldap, &w, &tracked, &c, &st, &mut tainted, sink).await;
            sink.bump("scripted_expiry");
            sink.case(out.coq, format!("world {wn} {}", out.txt), true);
        }
    }
    // scripted: a token identity that may read profile / schema entries natively
    if let Some(tok) = w.tokens.get(1) {
        let acpname = w.all.iter().find(|x| x.1.starts_with("c40acp")).map(|x| x.1.clone()).unwrap_or_else(|| "c40acp0".to_string());
        let c = Conn {
            ops: vec![
                HOp::Bind("dn=token".to_string(), tok.0.clone()),
                HOp::Search(BaseK::Domain(BASEDN.to_string()), 2, F::Leaf(K::Eq, Attribute::Class, PartialValue::new_iutf8("access_control_profile")), Some(vec![Attribute::Name, Attribute::Class])),
                HOp::Search(BaseK::Domain(BASEDN.to_string()), 2, F::Leaf(K::Eq, Attribute::Name, PartialValue::new_iname(&acpname)), None),
                HOp::Search(BaseK::Rdn(acpname.clone(), format!("name={acpname},{BASEDN}")), 0, F::Leaf(K::Eq, Attribute::Class, PartialValue::new_iutf8("object")), None),
                HOp::Compare(BaseK::Rdn(acpname.clone(), format!("name={acpname},{BASEDN}")), F::Leaf(K::Eq, Attribute::Name, PartialValue::new_iname(&acpname))),
                HOp::Search(BaseK::Domain(BASEDN.to_string()), 2, F::Leaf(K::Eq, Attribute::Uuid, PartialValue::Uuid(UUID_SCHEMA_ATTR_DISPLAYNAME)), None),
                HOp::Search(BaseK::Domain(BASEDN.to_string()), 2, F::Or(vec![F::Leaf(K::Eq, Attribute::Uuid, PartialValue::Uuid(UUID_SCHEMA_CLASS_PERSON)), F::Leaf(K::Eq, Attribute::Name, PartialValue::new_iname("c40p0"))]), None),
            ],
            start: None,
            tag: "profile-reader",
        };
        let out = run_conn(&idms, &mut delayed, &ldap, &w, &tracked, &c, &st, &mut tainted, sink).await;
        sink.case(out.coq, format!("world {wn} {}", out.txt), true);
    }
    // scripted: anonymous may read `name` but not `class` of the OAuth2 client
    if w.classless {
        let nm = F::Leaf(K::Eq, Attribute::Name, PartialValue::new_iname("c40o0"));
        let c = Conn {
            ops: vec![
                HOp::Search(BaseK::Domain(BASEDN.to_string()), 2, nm.clone(), None),
                HOp::Search(BaseK::Rdn("c40o0".into(), format!("name=c40o0,{BASEDN}")), 0, nm.clone(), Some(vec![Attribute::Name, Attribute::Class])),
                HOp::Compare(BaseK::Rdn("c40o0".into(), format!("name=c40o0,{BASEDN}")), nm.clone()),
                HOp::Bind(String::new(), w.tokens.first().map(|t| t.0.clone()).unwrap_or_default()),
                HOp::Search(BaseK::Domain(BASEDN.to_string()), 2, nm.clone(), None),
            ],
            start: None,
            tag: "name-only",
        };
        let out = run_conn(&idms, &mut delayed, &ldap, &w, &tracked, &c, &st, &mut tainted, sink).await;
        sink.case(out.coq, format!("world {wn} {}", out.txt), true);
    }
    let n_conn = if thorough { 14 } else { 11 };
    for _ in 0..n_conn {
        // generated one by one: right passwords are not tried on soft locked credentials
        let c = gen_conn(rng, &w, &tainted, foreign);
        let out = run_conn(&idms, &mut delayed, &ldap, &w, &tracked, &c, &st, &mut tainted, sink).await;
        sink.case(out.coq, format!("world {wn} {}", out.txt), out.nontrivial);
    }
    w.tokens.iter().map(|t| t.0.clone()).collect()
}

struct WState {
    /// accounts expired natively after the world was built
    expired_extra: BTreeSet<Uuid>,
    /// accounts whose POSIX credential is soft locked right now
    locked: BTreeSet<Uuid>,
}
struct ConnOut {
    coq: String,
    txt: String,
    nontrivial: bool,
    last: Option<LdapBoundToken>,
}

fn user_coq(e: &EntrySealedCommitted, u: &Uuid, t: &mut Tabs) -> String {
    let mo = e.get_ava_refer(Attribute::MemberOf).map(|s| {
        let mut v: Vec<u64> = s.iter().map(|g| t.uuids.id(g)).collect();
        v.sort_unstable();
        v
    });
    let mut cls: Vec<u64> = e.get_ava_as_iutf8(Attribute::Class).map(|s| s.iter().map(|c| t.class(c)).collect()).unwrap_or_default();
    cls.sort_unstable();
    let sp = e.get_ava_single_refer(Attribute::SyncParentUuid).map(|p| t.uuids.id(&p));
    format!(
        "(mkU {} {} {} {})",
        cn(t.uuids.id(u)),
        copt(&mo, |m| clist(m, |x| cn(*x))),
        clist(&cls, |x| cn(*x)),
        copt(&sp, |x| cn(*x))
    )
}

fn acps_coq(acps: &[HookSearchAcp], me: Uuid, t: &mut Tabs, ls: &mut LeafSet) -> String {
    let v: Vec<String> = acps
        .iter()
        .map(|a| {
            let recv = match &a.receiver {
                HookReceiver::Group(g) => {
                    let mut v: Vec<u64> = g.iter().map(|x| t.uuids.id(x)).collect();
                    v.sort_unstable();
                    format!("(RGroup {})", clist(&v, |x| cn(*x)))
                }
                HookReceiver::EntryManager => "RMgr".to_string(),
                HookReceiver::None => "RNone".to_string(),
            };
            let tgt = match &a.target {
                Some(fr) => format!("(Some {})", coq_f(&of_resolved(fr), Some(me), t, ls)),
                None => "None".to_string(),
            };
            let mut at: Vec<u64> = a.attrs.iter().map(|x| t.attr(x)).collect();
            at.sort_unstable();
            format!("(mkA {} {} {})", recv, tgt, clist(&at, |x| cn(*x)))
        })
        .collect();
    clist_s(&v)
}

#[allow(clippy::too_many_arguments)]
async fn run_conn(
    idms: &IdmServer,
    delayed: &mut IdmServerDelayed,
    ldap: &LdapServer,
    w: &World,
    tracked: &[Uuid],
    conn: &Conn,
    st: &WState,
    tainted: &mut BTreeSet<Uuid>,
    sink: &mut Sink,
) -> ConnOut {
    let mut t = Tabs::new();
    let mut ls = LeafSet::new();
    for c in ["recycled", "tombstone", "classtype", "attributetype", "access_control_profile"] {
        ls.add(K::Eq, &Attribute::Class, &PartialValue::new_iutf8(c));
    }
    ls.add(K::Eq, &Attribute::Uuid, &PartialValue::Uuid(UUID_DOMAIN_INFO));

    // ---- universe, principals
    let mut ents: Vec<EntDump> = vec![];
    let mut dn_map: BTreeMap<String, Uuid> = BTreeMap::new();
    let prin_coq: String;
    {
        let mut pr = idms.proxy_read().await.expect("proxy_read");
        for u in tracked {
            let f = kanidmd_lib::filter_all!(f_eq(Attribute::Uuid, PartialValue::Uuid(*u)));
            let r = pr.qs_read.internal_search(f).expect("internal_search");
            if let Some(e) = r.into_iter().next() {
                t.uuids.id(u);
                ents.push(EntDump { uuid: *u, ent: e });
            }
        }
        for e in &ents {
            if let Ok(rdn) = pr.qs_read.uuid_to_rdn(e.uuid) {
                dn_map.insert(format!("{rdn},{BASEDN}"), e.uuid);
            }
        }
        let mut pv = vec![];
        for pu in [UUID_ANONYMOUS, w.svc.0] {
            let e = pr.qs_read.internal_search_uuid(pu).expect("principal entry");
            let ident = ident_user(e.clone(), AccessScope::ReadOnly);
            let acps = dump_search_acps(&mut pr.qs_read, &ident);
            sink.add_stat("acps_dumped", acps.len() as u64);
            let uc = user_coq(&e, &pu, &mut t);
            let ac = acps_coq(&acps, pu, &mut t, &mut ls);
            pv.push(format!("({}, ({}, {}))", cn(t.uuids.id(&pu)), uc, ac));
        }
        prin_coq = clist_s(&pv);
    }
    let in_world: BTreeMap<Uuid, u64> = ents.iter().map(|e| (e.uuid, t.uuids.id(&e.uuid))).collect();

    let mut cur: Option<LdapBoundToken> = conn.start.clone();
    let cur0_coq = match &cur {
        Some(tk) => format!("(Some {})", session_coq(&tk.effective_session, &mut t)),
        None => "None".to_string(),
    };
    let mut fp = fingerprint(idms).await;
    let mut obs_coq: Vec<String> = vec![];
    let mut obs_txt: Vec<String> = vec![];
    let mut saw_bind_event = false;
    let mut saw_entries = false;

    for hop in &conn.ops {
        // ---- the request
        let (op, op_coq, op_txt) = match hop {
            HOp::Bind(dn, pw0) => {
                // a right password is not tried on a credential that a refused bind of this world may
                // have soft locked (the lock depends on the wall clock): substitute a wrong one
                let l = dn.to_lowercase();
                let mut pw = pw0.clone();
                if w.flag && !dn.contains(",app=") {
                    for p in &w.persons {
                        if tainted.contains(&p.uuid)
                            && !st.locked.contains(&p.uuid)
                            && (l.contains(&p.name) || l.contains(&p.uuid.as_hyphenated().to_string()))
                            && (p.unix_pw.as_ref() == Some(&pw) || p.primary_pw.as_ref() == Some(&pw))
                        {
                            pw = "c40-substituted-wrong-secret".to_string();
                            sink.bump("bind_secret_substituted");
                        }
                    }
                }
                let pw = &pw;
                (
                HookOp::Bind { dn: dn.clone(), pw: pw.clone() },
                format!("(OpBind {} {})", cstr(dn), cstr(pw)),
                format!("bind dn={dn:?} pw={:?}", if pw.len() > 40 { format!("<token {}..>", &pw[..12]) } else { pw.clone() }),
            )
            }
            HOp::Search(b, sc, f, req) => {
                let attrs: Vec<String> = match req {
                    Some(r) => r.iter().map(|a| a.as_str().to_string()).collect(),
                    None => vec!["*".to_string()],
                };
                let req_ids: Option<Vec<u64>> = req.as_ref().map(|r| {
                    let mut v: Vec<u64> = r.iter().map(|a| t.attr(a)).collect();
                    v.sort_unstable();
                    v
                });
                let b_coq = match b {
                    BaseK::Empty => "BEmpty".to_string(),
                    BaseK::Domain(_) => "BDomain".to_string(),
                    BaseK::Bad(_) => "BBad".to_string(),
                    BaseK::Rdn(n, _) => format!("(BRdn {})", coq_f(&F::Leaf(K::Eq, Attribute::Name, PartialValue::new_iname(n)), None, &mut t, &mut ls)),
                };
                let sc_coq = ["LBase", "LOne", "LSub", "LChildren"][*sc as usize];
                (
                    HookOp::Search { base: b.text(), scope: *sc, filter: to_ldap(f), attrs: attrs.clone() },
                    format!("(OpSearch {} {} {} {})", b_coq, sc_coq, coq_f(f, None, &mut t, &mut ls), copt(&req_ids, |v| clist(v, |x| cn(*x)))),
                    format!("search base={:?} scope={} {} attrs={:?}", b.text(), sc, txt_f(f), attrs),
                )
            }
            HOp::Compare(b, ava) => {
                let b_coq = match b {
                    BaseK::Empty => "BEmpty".to_string(),
                    BaseK::Domain(_) => "BDomain".to_string(),
                    BaseK::Bad(_) => "BBad".to_string(),
                    BaseK::Rdn(n, _) => format!("(BRdn {})", coq_f(&F::Leaf(K::Eq, Attribute::Name, PartialValue::new_iname(n)), None, &mut t, &mut ls)),
                };
                let (atype, val) = match ava {
                    F::Leaf(_, a, v) => (a.as_str().to_string(), pv_str(v)),
                    _ => unreachable!(),
                };
                (
                    HookOp::Compare { entry: b.text(), atype: atype.clone(), val: val.clone() },
                    format!("(OpCompare {} {})", b_coq, coq_f(ava, None, &mut t, &mut ls)),
                    format!("compare entry={:?} {}={}", b.text(), atype, val),
                )
            }
            HOp::Unbind => (HookOp::Unbind, "OpUnbind".to_string(), "unbind".to_string()),
            HOp::Whoami => (HookOp::Whoami, "OpWhoami".to_string(), "whoami".to_string()),
        };

        // ---- the real gateway
        let r: HookResp = match do_op(ldap, idms, &op, cur.clone()).await {
            Ok(r) => r,
            Err(e) => {
                sink.bump("do_op_err");
                eprintln!("do_op returned Err: {e}");
                obs_coq.push(format!("(mkO {} (RErr EOther) true None None)", op_coq));
                obs_txt.push(format!("{op_txt} -> do_op Err {e}"));
                continue;
            }
        };
        let fp2 = fingerprint(idms).await;
        let pending = delayed_pending(delayed).await;
        let changed = fp2 != fp || pending || !r.unexpected.is_empty();
        if changed {
            sink.bump("directory_changed");
            eprintln!("directory changed by {op_txt}: fp {:?} -> {:?} pending={pending} unexpected={:?}", fp, fp2, r.unexpected);
        }
        fp = fp2;

        // the token this search / compare ran with
        let used: Option<LdapBoundToken> = if r.state == 5 { r.token.clone() } else { cur.clone() };
        let bound_coq = if r.state == 5 {
            match &r.token {
                Some(tk) => format!("(Some {})", session_coq(&tk.effective_session, &mut t)),
                None => "None".to_string(),
            }
        } else {
            "None".to_string()
        };
        let (code, msg) = r.result.as_ref().map(|x| (x.code.clone(), x.message.clone())).unwrap_or_default();

        let mut native_coq = "None".to_string();
        let mut nexists_coq = "None".to_string();
        let resp_coq: String = match (hop, r.kind, r.state) {
            (HOp::Bind(dn, _), 0, 2) => {
                let tk = r.token.as_ref().expect("token");
                let anon = matches!(&tk.effective_session, LdapSession::UnixBind(u) if *u == UUID_ANONYMOUS);
                if !anon {
                    saw_bind_event = true;
                    sink.bump(match &tk.effective_session {
                        LdapSession::UnixBind(_) => if dn.contains(",app=") { "bind_ok_application" } else { "bind_ok_unix" },
                        LdapSession::ApiToken(_) => "bind_ok_api_token",
                        _ => "bind_ok_other",
                    });
                } else {
                    sink.bump("bind_ok_anonymous");
                }
                format!("(RBound {})", session_coq(&tk.effective_session, &mut t))
            }
            (HOp::Bind(dn, _), 0, 3) => {
                saw_bind_event = true;
                sink.bump(&format!("bind_refused_{}", if code == "InvalidCredentials" { "invalid_credentials".to_string() } else { msg.split('(').next().unwrap_or("").to_string() }));
                // soft lock bookkeeping: any refused bind that names a person may have counted a failure
                let l = dn.to_lowercase();
                if w.flag && !dn.contains(",app=") {
                    for p in &w.persons {
                        if l.contains(&p.name) || l.contains(&p.uuid.as_hyphenated().to_string()) {
                            tainted.insert(p.uuid);
                        }
                    }
                }
                err_coq(&code, &msg)
            }
            (HOp::Search(b, sc, f, req), 1, 4 | 5) if code == "Success" => {
                if matches!(b, BaseK::Empty) {
                    sink.bump("search_rootdse");
                    format!("(RRootDse {})", bound_coq)
                } else {
                    let mut v: Vec<(u64, Vec<u64>)> = vec![];
                    for (dn, ats) in &r.entries {
                        if let Some(u) = dn_map.get(dn) {
                            let mut at: Vec<u64> = ats.iter().map(|n| t.attr(&Attribute::from(n.as_str()))).collect();
                            at.sort_unstable();
                            at.dedup();
                            v.push((in_world[u], at));
                        }
                    }
                    v.sort();
                    if !v.is_empty() {
                        saw_entries = true;
                        sink.bump("search_released_some");
                    }
                    sink.bump("search_ok");
                    // ---- the native twin
                    let rdn = match b {
                        BaseK::Rdn(n, _) => Some(F::Leaf(K::Eq, Attribute::Name, PartialValue::new_iname(n))),
                        _ => None,
                    };
                    let dinfo = F::Leaf(K::Eq, Attribute::Uuid, PartialValue::Uuid(UUID_DOMAIN_INFO));
                    let ext: Option<Option<F>> = match (*sc, rdn) {
                        (1 | 3, Some(_)) => None,
                        (1 | 3, None) => Some(Some(F::Not(Box::new(dinfo)))),
                        (_, Some(l)) => Some(Some(l)),
                        (0, None) => Some(Some(dinfo)),
                        (_, None) => Some(None),
                    };
                    if let (Some(ext), Some(tk)) = (ext, used.as_ref()) {
                        let nf = match ext {
                            Some(x) => F::And(vec![f.clone(), x]),
                            None => f.clone(),
                        };
                        if let Some((pu, psc)) = match session_parts(&tk.effective_session) {
                            Some((_, None)) => Some((UUID_ANONYMOUS, AccessScope::ReadOnly)),
                            Some((a, Some(s))) => Some((a, s)),
                            None => None,
                        } {
                            let mut pr = idms.proxy_read().await.expect("proxy_read");
                            let pe = pr.qs_read.internal_search_uuid(pu).expect("prescribed entry");
                            let ident = ident_user(pe, psc);
                            let mut run = |attrs: Option<BTreeSet<Attribute>>| -> Option<Vec<(u64, Vec<u64>)>> {
                                let (filter, forig) = build_filters(&mut pr.qs_read, &nf).ok()?;
                                let se = SearchEvent { ident: ident.clone(), filter, filter_orig: forig, attrs, effective_access_check: false };
                                let es = pr.qs_read.search_ext(&se).ok()?;
                                let mut v: Vec<(u64, Vec<u64>)> = vec![];
                                for e in es {
                                    if let Some(i) = in_world.get(&e.get_uuid()) {
                                        let mut at: Vec<u64> = e.get_ava_names().map(|n| t.attr(&Attribute::from(n))).collect();
                                        at.sort_unstable();
                                        v.push((*i, at));
                                    }
                                }
                                v.sort();
                                Some(v)
                            };
                            let nreq = run(req.as_ref().map(|r| r.iter().cloned().collect()));
                            let nall = run(None);
                            if let (Some(a), Some(bb)) = (nreq, nall) {
                                if a.len() > v.len() {
                                    sink.bump("search_native_shows_more");
                                }
                                native_coq = format!("(Some ({}, {}))", ext_coq(&a), ext_coq(&bb));
                            } else {
                                sink.bump("native_search_failed");
                            }
                        }
                    }
                    format!("(REntries {} {})", bound_coq, ext_coq(&v))
                }
            }
            (HOp::Compare(b, ava), 3, 4 | 5) if matches!(code.as_str(), "CompareTrue" | "CompareFalse" | "NoSuchObject") => {
                let c = match code.as_str() {
                    "CompareTrue" => 0u64,
                    "CompareFalse" => 1,
                    _ => 2,
                };
                sink.bump(&format!("compare_{code}"));
                if let (BaseK::Rdn(n, _), Some(tk)) = (b, used.as_ref()) {
                    let dn = F::Leaf(K::Eq, Attribute::Name, PartialValue::new_iname(n));
                    if let Some((pu, psc)) = match session_parts(&tk.effective_session) {
                        Some((_, None)) => Some((UUID_ANONYMOUS, AccessScope::ReadOnly)),
                        Some((a, Some(s))) => Some((a, s)),
                        None => None,
                    } {
                        let mut pr = idms.proxy_read().await.expect("proxy_read");
                        let pe = pr.qs_read.internal_search_uuid(pu).expect("prescribed entry");
                        let ident = ident_user(pe, psc);
                        let mut ex = |f: &F| -> Option<bool> {
                            let (filter, forig) = build_filters(&mut pr.qs_read, f).ok()?;
                            let ee = ExistsEvent { ident: ident.clone(), filter, filter_orig: forig };
                            pr.qs_read.exists(&ee).ok()
                        };
                        let e1 = ex(&F::And(vec![dn.clone(), ava.clone()]));
                        let e2 = ex(&dn);
                        if let (Some(a), Some(bb)) = (e1, e2) {
                            nexists_coq = format!("(Some ({}, {}))", cbool(a), cbool(bb));
                        }
                    }
                }
                format!("(RCompare {} {})", bound_coq, cn(c))
            }
            (HOp::Search(..), 1, 3) | (HOp::Compare(..), 3, 3) => {
                sink.bump(&format!("op_error_{}", if msg.is_empty() { code.clone() } else { msg.split('(').next().unwrap_or("").to_string() }));
                err_coq(&code, &msg)
            }
            (HOp::Unbind, 2, 0) => "RUnbind".to_string(),
            (HOp::Whoami, 4, 3) => {
                sink.bump("whoami");
                format!("(RWhoami {})", cbool(code == "Success"))
            }
            _ => {
                sink.bump("response_shape_unexpected");
                eprintln!("unexpected response shape for {op_txt}: kind={} state={} code={code} msg={msg}", r.kind, r.state);
                "(RErr EOther)".to_string()
            }
        };
        obs_coq.push(format!("(mkO {} {} {} {} {})", op_coq, resp_coq, cbool(changed), native_coq, nexists_coq));
        obs_txt.push(format!("{op_txt} -> {resp_coq}{}", if native_coq != "None" { format!(" native={native_coq}") } else { String::new() }));
        sink.bump("ops");
        // the connection loop
        if r.state == 2 || r.state == 5 {
            cur = r.token.clone();
        }
        if matches!(hop, HOp::Unbind) {
            break;
        }
    }

    // ---- world facts the bind path reads
    let mut accts: Vec<String> = vec![];
    let mut names: Vec<String> = vec![];
    {
        let mut pr = idms.proxy_read().await.expect("proxy_read");
        let mut list: Vec<Uuid> = vec![UUID_ANONYMOUS, UUID_ADMIN];
        list.extend(w.persons.iter().map(|p| p.uuid));
        list.extend(w.groups.iter().map(|g| g.0));
        list.push(w.svc.0);
        list.extend(w.apps.iter().map(|a| a.0));
        if let Some(o) = &w.o2 {
            list.push(o.0);
        }
        for u in &list {
            let e = pr.qs_read.internal_search_uuid(*u).expect("acct entry");
            let id = t.uuids.id(u);
            let is_account = e.attribute_equality(Attribute::Class, &EntryClass::Account.into())
                && e.attribute_pres(Attribute::DisplayName)
                && e.attribute_pres(Attribute::Spn);
            let p = w.persons.iter().find(|p| p.uuid == *u);
            let valid = !(p.map(|p| p.expired).unwrap_or(false) || st.expired_extra.contains(u));
            let mut mo: Vec<u64> = e.get_ava_refer(Attribute::MemberOf).map(|s| s.iter().map(|g| t.uuids.id(g)).collect()).unwrap_or_default();
            mo.sort_unstable();
            let apppw: Vec<String> = p
                .map(|p| p.app_pws.iter().map(|(a, c)| format!("({}, {})", cn(t.uuids.id(a)), cstr(c))).collect())
                .unwrap_or_default();
            accts.push(format!(
                "(mkAc {} {} {} {} {} {} {} {} {})",
                cn(id),
                cbool(is_account),
                cbool(valid),
                copt(&p.and_then(|p| p.unix_pw.clone()), |s| cstr(s)),
                copt(&p.and_then(|p| p.primary_pw.clone()), |s| cstr(s)),
                cbool(w.fallback),
                cbool(st.locked.contains(u)),
                clist(&mo, |x| cn(*x)),
                clist_s(&apppw)
            ));
            let name = e.get_ava_set(Attribute::Name).and_then(|v| v.to_proto_string_single());
            let spn = e.get_ava_set(Attribute::Spn).and_then(|v| v.to_proto_string_single());
            for n in [name, spn, Some(u.as_hyphenated().to_string())].into_iter().flatten() {
                names.push(format!("({}, {})", cstr(&n.to_lowercase()), cn(id)));
            }
        }
        names.push(format!("({}, {})", cstr(&w.ghost.as_hyphenated().to_string()), cn(t.uuids.id(&w.ghost))));
    }
    let apps: Vec<String> = w.apps.iter().map(|(u, n, g)| format!("(mkApp {} {} {})", cstr(n), cn(t.uuids.id(u)), cn(t.uuids.id(g)))).collect();
    let toks: Vec<String> = w.tokens.iter().map(|(s, a, sc)| format!("({}, TkLive {} {})", cstr(s), cn(t.uuids.id(a)), scope_coq(*sc))).collect();

    // ---- entries with leaf truth (all leaves are known now)
    let mut ents_coq: Vec<(u64, String)> = vec![];
    for e in &ents {
        let id = in_world[&e.uuid];
        let mut cls: Vec<u64> = e.ent.get_ava_as_iutf8(Attribute::Class).map(|s| s.iter().map(|c| t.class(c)).collect()).unwrap_or_default();
        cls.sort_unstable();
        let mut at: Vec<u64> = e.ent.get_ava_names().map(|n| t.attr(&Attribute::from(n))).collect();
        at.sort_unstable();
        let mut mgr: Vec<u64> = e.ent.get_ava_refer(Attribute::EntryManagedBy).map(|s| s.iter().map(|u| t.uuids.id(u)).collect()).unwrap_or_default();
        mgr.sort_unstable();
        let mut o2: Vec<u64> = e.ent.get_ava_as_oauthscopemaps(Attribute::OAuth2RsScopeMap).map(|m| m.keys().map(|u| t.uuids.id(u)).collect()).unwrap_or_default();
        o2.sort_unstable();
        let linked = e.ent.get_ava_single_refer(Attribute::LinkedGroup).map(|u| t.uuids.id(&u));
        let mut tru: Vec<String> = vec![];
        for (k, a, v) in &ls.leaves {
            let fr = match k {
                K::Eq => FilterResolved::Eq(a.clone(), v.clone(), None),
                K::Cnt => FilterResolved::Cnt(a.clone(), v.clone(), None),
                K::Stw => FilterResolved::Stw(a.clone(), v.clone(), None),
                K::Enw => FilterResolved::Enw(a.clone(), v.clone(), None),
                K::Pres => FilterResolved::Pres(a.clone(), None),
                K::Lt => FilterResolved::LessThan(a.clone(), v.clone(), None),
            };
            if e.ent.entry_match_no_index(&Filter::verif_from_resolved(fr)) {
                let vid = if *k == K::Pres { 0 } else { t.val(v) };
                tru.push(format!("({}, {}, {})", k.coq(), cn(t.attr(a)), cn(vid)));
            }
        }
        ents_coq.push((
            id,
            format!(
                "(mkE {} {} {} {} {} {} {})",
                cn(id),
                clist(&cls, |x| cn(*x)),
                clist(&at, |x| cn(*x)),
                clist(&mgr, |x| cn(*x)),
                clist(&o2, |x| cn(*x)),
                copt(&linked, |x| cn(*x)),
                clist_s(&tru)
            ),
        ));
    }
    ents_coq.sort_by_key(|x| x.0);
    let ents_s: Vec<String> = ents_coq.into_iter().map(|x| x.1).collect();

    let world_coq = format!(
        "(mkW {} {} {} {} {} {} {} {})",
        cbool(w.flag),
        cstr(BASEDN),
        clist_s(&names),
        clist_s(&accts),
        clist_s(&apps),
        clist_s(&toks),
        prin_coq,
        clist_s(&ents_s)
    );
    let coq = format!("(CConn {} {} {})", world_coq, cur0_coq, clist_s(&obs_coq));
    let txt = format!(
        "conn[{}] flag={} fallback={} start={} :: {}",
        conn.tag,
        w.flag,
        w.fallback,
        cur0_coq,
        obs_txt.join(" | ")
    );
    sink.bump(&format!("conn_{}", conn.tag));
    ConnOut { coq, txt, nontrivial: saw_bind_event && saw_entries, last: cur }
}
