//! C44 — offline login accepts only the last password verified online, sealed with this
//! machine's key.
//!
//! Two kinds of cases, both against the REAL code of unix_integration/resolver_common and
//! libs/crypto:
//!  * `CFn`: op sequences on a few `UserToken`s with THREE independent soft TPMs (one HMAC key
//!    each): `kanidm_update_cached_password` (real Argon2id at the minimum test policy + real
//!    TPM HMAC), `kanidm_check_cached_password`, `kanidm_has_offline_credentials`, moving the
//!    cached credential between tokens, clearing it, planting a non-TPM ARGON2ID credential or
//!    junk JSON under the cache key;
//!  * `CRes`: histories on TWO real Resolvers ("machines": own cache db, own soft TPM / machine
//!    key / HMAC key, real KanidmProvider and kanidm_client) that talk to one in-process HTTP
//!    stub of the kanidm server: server-side password changes / account removal, the network of
//!    a machine going down and up (the stub drops the connection => real transport errors),
//!    mark_offline / mark_next_check_now / invalidate, `pam_account_authenticate` logins with
//!    right / old / wrong passwords, and the cached credential of a user being swapped between
//!    / copied across the two machines' cache databases.  After EVERY op the provider's online
//!    flag and the cache rows (expired?, which credential) of both machines are dumped.
#![allow(dead_code)]

use kanidm_client::KanidmClientBuilder;
use kanidm_hsm_crypto::{
    provider::{BoxedDynTpm, SoftTpm, Tpm, TpmHmacS256},
    structures::HmacS256Key,
    AuthValue,
};
use kanidm_lib_crypto::{CryptoPolicy, Password};
use kanidm_proto::internal::OperationError;
use kanidm_proto::v1::UnixUserToken;
use kanidmd_lib::prelude::Cid;
use kvh::*;
use sparkle_resolver_common::db::{Cache, Db};
use sparkle_resolver_common::idprovider::interface::{Id, IdProvider, ProviderOrigin, UserToken};
use sparkle_resolver_common::idprovider::kanidm::KanidmProvider;
use sparkle_resolver_common::idprovider::system::SystemProvider;
use sparkle_resolver_common::resolver::Resolver;
use sparkle_unix_common::constants::{
    DEFAULT_CACHE_TIMEOUT, DEFAULT_GID_ATTR_MAP, DEFAULT_HOME_ALIAS, DEFAULT_HOME_ATTR, DEFAULT_HOME_PREFIX, DEFAULT_SHELL,
    DEFAULT_UID_ATTR_MAP,
};
use sparkle_unix_common::unix_config::KanidmConfig;
use std::collections::BTreeMap;
use std::io::{Read, Write};
use std::net::{TcpListener, TcpStream};
use std::sync::{Arc, Mutex};
use std::time::{Duration, Instant, SystemTime};
use uuid::Uuid;

/// the private constant KANIDM_PWV1_KEY of idprovider/kanidm.rs (checked at run time: after a
/// successful online login the cache row must carry this key)
const PWV1_KEY: &str = "kanidm-pw-v1";

// ------------------------------------------------------------------ passwords

#[derive(Clone, Debug, PartialEq)]
struct Pw {
    s: String,
    coq: String,
    show: String,
}
fn pw_plain(s: &str) -> Pw {
    Pw { s: s.to_string(), coq: cstr(s), show: format!("{:?}", s) }
}
fn pw_rep(b: u8, n: usize) -> Pw {
    Pw { s: String::from_utf8(vec![b; n]).expect("ascii"), coq: format!("(rep {} {})", cn(b as u64), cn(n as u64)), show: format!("'{}'x{}", b as char, n) }
}
/// verify_ctx refuses candidates longer than 512 BYTES: 512 is still fine, 513 is not
fn pw_pool() -> Vec<Pw> {
    vec![
        pw_plain("pw-alpha-0001"),
        pw_plain("pw-beta-0002"),
        pw_plain("Pw-alpha-0001"),
        pw_plain("pw-alpha-0001 "),
        pw_plain("p\u{e4}ssw\u{f6}rd-\u{1f511}"),
        pw_plain(""),
        pw_rep(b'B', 512),
        pw_rep(b'B', 513),
        pw_rep(b'A', 600),
    ]
}

// ------------------------------------------------------------------ the stub kanidm server

#[derive(Default)]
struct Srv {
    /// account name -> unix password
    accounts: BTreeMap<String, String>,
    /// is the server reachable from machine 0 / 1
    up: [bool; 2],
}
type Shared = Arc<Mutex<Srv>>;

const USERS: [&str; 2] = ["alice", "bob"];

fn unix_token(name: &str) -> UnixUserToken {
    let k = USERS.iter().position(|u| *u == name).unwrap_or(9);
    UnixUserToken {
        name: name.to_string(),
        spn: format!("{}@example.com", name),
        displayname: name.to_string(),
        gidnumber: 5000 + k as u32,
        uuid: Uuid::from_u128(0x100 + k as u128),
        shell: None,
        groups: vec![],
        sshkeys: vec![],
        valid: true,
    }
}

fn serve_conn(mut s: TcpStream, srv: Shared, machine: usize) {
    let _ = s.set_nodelay(true);
    let mut buf: Vec<u8> = Vec::new();
    let mut tmp = [0u8; 4096];
    loop {
        let head_end = loop {
            if let Some(p) = buf.windows(4).position(|w| w == b"\r\n\r\n") {
                break p + 4;
            }
            match s.read(&mut tmp) {
                Ok(0) | Err(_) => return,
                Ok(n) => buf.extend_from_slice(&tmp[..n]),
            }
        };
        let head = String::from_utf8_lossy(&buf[..head_end]).to_string();
        buf.drain(..head_end);
        let clen: usize = head
            .lines()
            .filter_map(|l| {
                let (k, v) = l.split_once(':')?;
                if k.trim().eq_ignore_ascii_case("content-length") {
                    v.trim().parse().ok()
                } else {
                    None
                }
            })
            .next()
            .unwrap_or(0);
        while buf.len() < clen {
            match s.read(&mut tmp) {
                Ok(0) | Err(_) => return,
                Ok(n) => buf.extend_from_slice(&tmp[..n]),
            }
        }
        let body_in: Vec<u8> = buf.drain(..clen).collect();
        let line = head.lines().next().unwrap_or("").to_string();
        let mut it = line.split_whitespace();
        let method = it.next().unwrap_or("").to_string();
        let path = it.next().unwrap_or("").to_string();
        let nomatch = serde_json::to_string(&OperationError::NoMatchingEntries).expect("json");
        let (code, reason, body) = {
            let g = srv.lock().expect("srv");
            if !g.up[machine] {
                // the network is down: drop the connection without an answer => ClientError::Transport
                return;
            }
            if path == "/v1/self" {
                // whoami with an unknown bearer token: the client maps 401 to Ok(None) => provider online
                (401u16, "Unauthorized", "null".to_string())
            } else if let Some(id) = path.strip_prefix("/v1/account/").and_then(|r| r.strip_suffix("/_unix/_token")) {
                match g.accounts.get(id) {
                    Some(_) => (200u16, "OK", serde_json::to_string(&unix_token(id)).expect("json")),
                    None => (404u16, "Not Found", nomatch),
                }
            } else if let Some(id) = path.strip_prefix("/v1/account/").and_then(|r| r.strip_suffix("/_unix/_auth")) {
                let cred: Option<String> = serde_json::from_slice::<serde_json::Value>(&body_in)
                    .ok()
                    .and_then(|v| v.get("value").and_then(|x| x.as_str().map(|x| x.to_string())));
                match (method.as_str(), g.accounts.get(id), cred) {
                    ("POST", Some(spw), Some(c)) if *spw == c => (200u16, "OK", serde_json::to_string(&Some(unix_token(id))).expect("json")),
                    ("POST", Some(_), Some(_)) => (200u16, "OK", "null".to_string()),
                    ("POST", None, Some(_)) => (404u16, "Not Found", nomatch),
                    _ => (500u16, "Internal Server Error", "null".to_string()),
                }
            } else {
                (404u16, "Not Found", nomatch)
            }
        };
        let out = format!(
            "HTTP/1.1 {} {}\r\nContent-Type: application/json\r\nX-KANIDM-VERSION: stub\r\nX-KANIDM-OPID: stub\r\nContent-Length: {}\r\nConnection: keep-alive\r\n\r\n{}",
            code,
            reason,
            body.len(),
            body
        );
        if s.write_all(out.as_bytes()).is_err() {
            return;
        }
    }
}

fn start_stub(srv: Shared, machine: usize) -> u16 {
    let l = TcpListener::bind("127.0.0.1:0").expect("bind loopback");
    let port = l.local_addr().expect("addr").port();
    std::thread::spawn(move || {
        for c in l.incoming().flatten() {
            let d = srv.clone();
            std::thread::spawn(move || serve_conn(c, d, machine));
        }
    });
    port
}

// ------------------------------------------------------------------ one machine

struct Machine {
    resolver: Resolver,
    provider: Arc<KanidmProvider>,
    /// a second connection to the same cache database: used to dump rows and to move credentials
    side: Db,
}

static DB_SEQ: std::sync::atomic::AtomicU64 = std::sync::atomic::AtomicU64::new(0);

async fn build_machine(uri: String, out: &std::path::Path) -> Machine {
    let n = DB_SEQ.fetch_add(1, std::sync::atomic::Ordering::SeqCst);
    let dbpath = format!("file:c44db{}_{}?mode=memory&cache=shared", std::process::id(), n);
    let _ = out;
    let client = KanidmClientBuilder::new().address(uri).enable_native_ca_roots(false).no_proxy().build().expect("client");
    let db = Db::new(&dbpath).expect("db");
    let side = Db::new(&dbpath).expect("side db");
    let mut dbtxn = db.write().await;
    dbtxn.migrate().expect("migrate");
    let mut hsm = BoxedDynTpm::new(SoftTpm::default());
    let auth_value = AuthValue::ephemeral().expect("authvalue");
    let lmk = hsm.root_storage_key_create(&auth_value).expect("mk create");
    let machine_key = hsm.root_storage_key_load(&auth_value, &lmk).expect("mk load");
    let provider = KanidmProvider::new(
        client,
        &KanidmConfig {
            conn_timeout: 2,
            request_timeout: 2,
            pam_allowed_login_groups: vec![],
            map_group: vec![],
            service_account_token: Some("stub-token".to_string()),
        },
        SystemTime::now(),
        &mut (&mut dbtxn).into(),
        &mut hsm,
        &machine_key,
    )
    .await
    .expect("provider");
    drop(machine_key);
    dbtxn.commit().expect("commit");
    let provider = Arc::new(provider);
    let system_provider = SystemProvider::new().expect("sysprov");
    let (resolver, _rx) = Resolver::new(
        db,
        Arc::new(system_provider),
        vec![provider.clone()],
        hsm,
        DEFAULT_CACHE_TIMEOUT,
        DEFAULT_SHELL.to_string(),
        DEFAULT_HOME_PREFIX.into(),
        DEFAULT_HOME_ATTR,
        DEFAULT_HOME_ALIAS,
        DEFAULT_UID_ATTR_MAP,
        DEFAULT_GID_ATTR_MAP,
    )
    .await
    .expect("resolver");
    Machine { resolver, provider, side }
}

impl Machine {
    async fn row(&self, user: &str) -> Option<(UserToken, u64)> {
        let mut txn = self.side.write().await;
        txn.get_account(&Id::Name(user.to_string())).expect("get_account")
    }
    async fn put(&self, tok: &UserToken, ex: u64) {
        let mut txn = self.side.write().await;
        txn.update_account(tok, ex).expect("update_account");
        txn.commit().expect("commit");
    }
}

// ------------------------------------------------------------------ resolver-level histories

#[derive(Clone, Debug)]
enum Op {
    SrvSet(usize, Option<usize>),
    Net(usize, bool),
    MarkOffline(usize),
    Recheck(usize),
    Invalidate(usize),
    Swap(usize),
    Steal(usize, usize),
    Login(usize, usize, usize),
}

fn cm(m: usize) -> String {
    cbool(m == 1)
}

struct Out {
    coq: String,
    txt: String,
    nontrivial: bool,
    bumps: Vec<String>,
}

struct Worker {
    rt: tokio::runtime::Runtime,
    srv: Shared,
    uris: [String; 2],
    pool: Vec<Pw>,
    out: std::path::PathBuf,
}

impl Worker {
    fn new(out: std::path::PathBuf) -> Self {
        let srv: Shared = Arc::new(Mutex::new(Srv { accounts: BTreeMap::new(), up: [true, true] }));
        let p0 = start_stub(srv.clone(), 0);
        let p1 = start_stub(srv.clone(), 1);
        Worker {
            rt: tokio::runtime::Builder::new_current_thread().enable_all().build().expect("rt"),
            srv,
            uris: [format!("http://127.0.0.1:{}", p0), format!("http://127.0.0.1:{}", p1)],
            pool: pw_pool(),
            out,
        }
    }

    fn gen_ops(&self, rng: &mut Rng) -> Vec<Op> {
        let np = self.pool.len();
        let mut ops: Vec<Op> = vec![];
        // what the generator believes: server password per user, passwords seen so far per user
        let mut cur: [Option<usize>; 2] = [None, None];
        let mut seen: [Vec<usize>; 2] = [vec![], vec![]];
        let focus_m = rng.below(2) as usize;
        let focus_u = rng.below(2) as usize;
        for u in 0..2 {
            if rng.chance(9, 10) {
                let p = if rng.chance(4, 5) { rng.below(5) as usize } else { rng.below(np as u64) as usize };
                ops.push(Op::SrvSet(u, Some(p)));
                cur[u] = Some(p);
                seen[u].push(p);
            }
        }
        // warm-up: most histories start with a successful online login on one or both machines
        if let Some(p) = cur[focus_u] {
            if rng.chance(4, 5) {
                ops.push(Op::Login(focus_m, focus_u, p));
            }
            if rng.chance(1, 2) {
                ops.push(Op::Login(1 - focus_m, focus_u, p));
            }
        }
        let n = rng.range(8, 22);
        for _ in 0..n {
            let m = if rng.chance(2, 3) { focus_m } else { rng.below(2) as usize };
            let u = if rng.chance(2, 3) { focus_u } else { rng.below(2) as usize };
            let op = match rng.below(100) {
                0..=44 => {
                    let p = match rng.below(8) {
                        0..=3 => cur[u].unwrap_or(0),
                        4 | 5 if !seen[u].is_empty() => *rng.pick(&seen[u]),
                        _ => rng.below(np as u64) as usize,
                    };
                    Op::Login(m, u, p)
                }
                45..=54 => {
                    if rng.chance(1, 6) {
                        cur[u] = None;
                        Op::SrvSet(u, None)
                    } else {
                        let p = if rng.chance(3, 4) { rng.below(5) as usize } else { rng.below(np as u64) as usize };
                        cur[u] = Some(p);
                        seen[u].push(p);
                        Op::SrvSet(u, Some(p))
                    }
                }
                55..=68 => Op::Net(m, rng.chance(2, 5)),
                69..=73 => Op::MarkOffline(m),
                74..=81 => Op::Recheck(m),
                82..=88 => Op::Invalidate(m),
                89..=95 => Op::Swap(u),
                _ => Op::Steal(m, u),
            };
            ops.push(op);
        }
        ops
    }

    /// run one history on the two machines (caches cleared, providers due for an online check,
    /// network up, no accounts)
    fn run_history(&mut self, ms: &[Machine; 2], rng: &mut Rng) -> Option<Out> {
        let ops = self.gen_ops(rng);
        {
            let mut g = self.srv.lock().expect("srv");
            g.accounts.clear();
            g.up = [true, true];
        }
        let srv = self.srv.clone();
        let pool = self.pool.clone();
        let started = Instant::now();
        let mut creds: Intern<String> = Intern::new();
        let mut cops: Vec<String> = vec![];
        let mut cobs: Vec<String> = vec![];
        let mut tsteps: Vec<String> = vec![];
        let mut bumps: Vec<String> = vec![];
        let mut off_acc = 0u32;
        let mut off_den = 0u32;
        let mut tampered = false;
        let mut off_after_tamper = 0u32;
        let odt = (&Cid { ts: Duration::from_secs(1_700_000_000), s_uuid: Uuid::from_u128(0) }).into();

        self.rt.block_on(async {
            for m in ms.iter() {
                m.resolver.clear_cache().await.expect("clear_cache");
                m.resolver.mark_next_check_now(SystemTime::now()).await;
            }
            for op in &ops {
                let mut res: Option<String> = None;
                let (cop, top) = match op {
                    Op::SrvSet(u, p) => {
                        let mut g = srv.lock().expect("srv");
                        match p {
                            Some(p) => {
                                g.accounts.insert(USERS[*u].to_string(), pool[*p].s.clone());
                            }
                            None => {
                                g.accounts.remove(USERS[*u]);
                            }
                        }
                        (
                            capp("OSrvSet", &[cn(*u as u64), copt(p, |p| pool[*p].coq.clone())]),
                            format!("srv[{}]:={}", USERS[*u], p.map(|p| pool[p].show.clone()).unwrap_or("<removed>".into())),
                        )
                    }
                    Op::Net(m, up) => {
                        srv.lock().expect("srv").up[*m] = *up;
                        (capp("ONet", &[cm(*m), cbool(*up)]), format!("net[m{}]:={}", m, if *up { "up" } else { "down" }))
                    }
                    Op::MarkOffline(m) => {
                        ms[*m].resolver.mark_offline().await;
                        (capp("OMarkOffline", &[cm(*m)]), format!("m{}.mark_offline", m))
                    }
                    Op::Recheck(m) => {
                        ms[*m].resolver.mark_next_check_now(SystemTime::now()).await;
                        (capp("ORecheck", &[cm(*m)]), format!("m{}.mark_next_check_now", m))
                    }
                    Op::Invalidate(m) => {
                        ms[*m].resolver.invalidate().await.expect("invalidate");
                        (capp("OInvalidate", &[cm(*m)]), format!("m{}.invalidate", m))
                    }
                    Op::Swap(u) => {
                        let a = ms[0].row(USERS[*u]).await;
                        let b = ms[1].row(USERS[*u]).await;
                        if let (Some((mut ta, ea)), Some((mut tb, eb))) = (a, b) {
                            let ca = ta.extra_keys.remove(PWV1_KEY);
                            let cb = tb.extra_keys.remove(PWV1_KEY);
                            if let Some(c) = cb {
                                ta.extra_keys.insert(PWV1_KEY.into(), c);
                            }
                            if let Some(c) = ca {
                                tb.extra_keys.insert(PWV1_KEY.into(), c);
                            }
                            ms[0].put(&ta, ea).await;
                            ms[1].put(&tb, eb).await;
                        }
                        tampered = true;
                        (capp("OSwap", &[cn(*u as u64)]), format!("swap-cached-cred[{}]", USERS[*u]))
                    }
                    Op::Steal(m, u) => {
                        let mine = ms[*m].row(USERS[*u]).await;
                        let other = ms[1 - *m].row(USERS[*u]).await;
                        if let (Some((mut tm, em)), Some((to, _))) = (mine, other) {
                            tm.extra_keys.remove(PWV1_KEY);
                            if let Some(c) = to.extra_keys.get(PWV1_KEY) {
                                tm.extra_keys.insert(PWV1_KEY.into(), c.clone());
                            }
                            ms[*m].put(&tm, em).await;
                        }
                        tampered = true;
                        (capp("OSteal", &[cm(*m), cn(*u as u64)]), format!("copy-cached-cred[{}] m{}->m{}", USERS[*u], 1 - *m, m))
                    }
                    Op::Login(m, u, p) => {
                        let r = ms[*m].resolver.pam_account_authenticate(USERS[*u], odt, &pool[*p].s).await;
                        let online_after = ms[*m].provider.is_online().await;
                        let (cres, kind) = match r {
                            Ok(Some(true)) => ("(RSome true)", "accepted"),
                            Ok(Some(false)) => ("(RSome false)", "denied"),
                            Ok(None) => ("RNone", "unknown"),
                            Err(()) => ("RErr", "error"),
                        };
                        if !online_after && (kind == "accepted" || kind == "denied") {
                            // decided by the offline path (the online path needs an online provider)
                            if kind == "accepted" {
                                off_acc += 1;
                            } else {
                                off_den += 1;
                            }
                            if tampered {
                                off_after_tamper += 1;
                            }
                            bumps.push(format!("login_offline_{}", kind));
                        } else {
                            bumps.push(format!("login_{}", kind));
                        }
                        res = Some(cres.to_string());
                        (
                            capp("OLogin", &[cm(*m), cn(*u as u64), pool[*p].coq.clone()]),
                            format!("m{}.login({},{})={}{}", m, USERS[*u], pool[*p].show, kind, if online_after { "" } else { "[provider offline]" }),
                        )
                    }
                };
                // ---- dump
                let mut slots: Vec<String> = vec![];
                let mut tslots: Vec<String> = vec![];
                for (mi, m) in ms.iter().enumerate() {
                    for u in USERS.iter() {
                        match m.row(u).await {
                            None => slots.push("None".into()),
                            Some((t, ex)) => {
                                assert!(t.provider == ProviderOrigin::Kanidm);
                                let c = t.extra_keys.get(PWV1_KEY).map(|v| creds.id(&v.to_string()));
                                slots.push(format!("(Some ({}, {}))", cbool(ex != 0), copt(&c, |c| cn(*c))));
                                tslots.push(format!("m{}/{}:{}{}", mi, u, c.map(|c| format!("cred#{}", c)).unwrap_or("nocred".into()), if ex != 0 { "" } else { "(expired)" }));
                            }
                        }
                    }
                }
                let on0 = ms[0].provider.is_online().await;
                let on1 = ms[1].provider.is_online().await;
                cobs.push(capp("mkobs", &[copt(&res, |r| r.clone()), cbool(on0), cbool(on1), clist_s(&slots)]));
                cops.push(cop);
                tsteps.push(format!("{} {{{}{}|{}}}", top, if on0 { "m0:online " } else { "" }, if on1 { "m1:online" } else { "" }, tslots.join(",")));
            }
        });
        // timing hazards: an "offline until later" provider re-checks after >= 170 s, cache rows
        // expire after >= 290 s; a history that took anywhere near that long is dropped.
        if started.elapsed() > Duration::from_secs(90) {
            return None;
        }
        if off_acc > 0 {
            bumps.push("history_with_offline_accept".into());
        }
        if off_after_tamper > 0 {
            bumps.push("history_offline_decision_after_cred_move".into());
        }
        Some(Out {
            coq: capp("CRes", &[clist_s(&cops), clist_s(&cobs)]),
            txt: format!("resolver {}", tsteps.join("; ")),
            nontrivial: (off_acc > 0 && off_den > 0) || off_after_tamper > 0,
            bumps,
        })
    }

    fn run_config(&mut self, rng: &mut Rng, n_hist: usize) -> Vec<Out> {
        let u0 = self.uris[0].clone();
        let u1 = self.uris[1].clone();
        let out = self.out.clone();
        let ms: [Machine; 2] = self.rt.block_on(async { [build_machine(u0, &out).await, build_machine(u1, &out).await] });
        let mut outs = vec![];
        for _ in 0..n_hist {
            let mut r = rng.fork();
            match self.run_history(&ms, &mut r) {
                Some(o) => outs.push(o),
                None => outs.push(Out { coq: String::new(), txt: String::new(), nontrivial: false, bumps: vec!["history_dropped_too_slow".into()] }),
            }
        }
        outs
    }
}

// ------------------------------------------------------------------ function level

struct Tpm1 {
    tpm: BoxedDynTpm,
    key: HmacS256Key,
}
fn new_tpm() -> Tpm1 {
    let mut hsm = BoxedDynTpm::new(SoftTpm::default());
    let auth_value = AuthValue::ephemeral().expect("authvalue");
    let lmk = hsm.root_storage_key_create(&auth_value).expect("mk create");
    let machine_key = hsm.root_storage_key_load(&auth_value, &lmk).expect("mk load");
    let key = {
        let ctx: &mut dyn TpmHmacS256 = &mut *hsm;
        let lk = ctx.hmac_s256_create(&machine_key).expect("hmac create");
        ctx.hmac_s256_load(&machine_key, &lk).expect("hmac load")
    };
    Tpm1 { tpm: hsm, key }
}

fn blank_token(k: usize) -> UserToken {
    UserToken {
        provider: ProviderOrigin::Kanidm,
        name: format!("user{}", k),
        spn: format!("user{}@example.com", k),
        uuid: Uuid::from_u128(0x200 + k as u128),
        gidnumber: 6000 + k as u32,
        displayname: format!("user{}", k),
        shell: None,
        groups: vec![],
        sshkeys: vec![],
        valid: true,
        extra_keys: Default::default(),
    }
}

fn fn_case(rng: &mut Rng, tpms: &mut [Tpm1], pool: &[Pw], policy: &CryptoPolicy) -> Out {
    const NSLOT: usize = 3;
    let nk = tpms.len();
    let mut toks: Vec<UserToken> = (0..NSLOT).map(blank_token).collect();
    // generator's belief of what was sealed where (only to aim the checks)
    let mut last: Vec<Option<(usize, usize)>> = vec![None; NSLOT];
    let n = rng.range(6, 24);
    let mut cops: Vec<String> = vec![];
    let mut cobs: Vec<String> = vec![];
    let mut tsteps: Vec<String> = vec![];
    let mut bumps: Vec<String> = vec![];
    let (mut acc, mut rej_key, mut rej_pw) = (0u32, 0u32, 0u32);
    for _ in 0..n {
        let s = rng.below(NSLOT as u64) as usize;
        let k = rng.below(nk as u64) as usize;
        let p = if rng.chance(3, 4) { rng.below(5) as usize } else { rng.below(pool.len() as u64) as usize };
        match rng.below(100) {
            0..=27 => {
                let t = &mut tpms[k];
                toks[s].kanidm_update_cached_password(policy, &pool[p].s, &mut t.tpm, &t.key);
                last[s] = Some((k, p));
                cops.push(capp("FSeal", &[cn(s as u64), cn(k as u64), pool[p].coq.clone()]));
                tsteps.push(format!("t{}.update(key{},{})", s, k, pool[p].show));
            }
            28..=33 => {
                let pwv = Password::new_argon2id(policy, &pool[p].s).expect("argon2id");
                toks[s].extra_keys.insert(PWV1_KEY.into(), serde_json::to_value(pwv.to_dbpasswordv1()).expect("json"));
                last[s] = None;
                cops.push(capp("FPlant", &[cn(s as u64), pool[p].coq.clone()]));
                tsteps.push(format!("t{}.plant-plain-argon2id({})", s, pool[p].show));
            }
            34..=36 => {
                toks[s].extra_keys.insert(PWV1_KEY.into(), serde_json::json!({"not": "a credential"}));
                last[s] = None;
                cops.push(capp("FJunk", &[cn(s as u64)]));
                tsteps.push(format!("t{}.plant-junk", s));
            }
            37..=48 => {
                let d = rng.below(NSLOT as u64) as usize;
                let v = toks[s].extra_keys.get(PWV1_KEY).cloned();
                toks[d].extra_keys.remove(PWV1_KEY);
                if let Some(v) = v {
                    toks[d].extra_keys.insert(PWV1_KEY.into(), v);
                }
                last[d] = last[s];
                cops.push(capp("FMove", &[cn(s as u64), cn(d as u64)]));
                tsteps.push(format!("t{}.cred:=t{}.cred", d, s));
            }
            49..=53 => {
                toks[s].extra_keys.remove(PWV1_KEY);
                last[s] = None;
                cops.push(capp("FClear", &[cn(s as u64)]));
                tsteps.push(format!("t{}.clear", s));
            }
            54..=60 => {
                let r = toks[s].kanidm_has_offline_credentials();
                cops.push(capp("FHas", &[cn(s as u64)]));
                cobs.push(cbool(r));
                tsteps.push(format!("t{}.has={}", s, r));
            }
            _ => {
                // aim: right key + right pw / wrong key / wrong pw
                let (k2, p2) = match (last[s], rng.below(6)) {
                    (Some((lk, lp)), 0 | 1 | 2) => (lk, lp),
                    (Some((_, lp)), 3) => (k, lp),
                    (Some((lk, _)), 4) => (lk, p),
                    _ => (k, p),
                };
                let t = &mut tpms[k2];
                let r = toks[s].kanidm_check_cached_password(&pool[p2].s, &mut t.tpm, &t.key);
                if r {
                    acc += 1;
                    bumps.push("fn_check_accept".into());
                } else {
                    match last[s] {
                        Some((lk, lp)) if lk != k2 && lp == p2 => {
                            rej_key += 1;
                            bumps.push("fn_check_reject_other_key_right_pw".into());
                        }
                        Some((lk, lp)) if lk == k2 && lp != p2 => {
                            rej_pw += 1;
                            bumps.push("fn_check_reject_wrong_pw".into());
                        }
                        _ => bumps.push("fn_check_reject_other".into()),
                    }
                }
                cops.push(capp("FCheck", &[cn(s as u64), cn(k2 as u64), pool[p2].coq.clone()]));
                cobs.push(cbool(r));
                tsteps.push(format!("t{}.check(key{},{})={}", s, k2, pool[p2].show, r));
            }
        }
    }
    Out {
        coq: capp("CFn", &[clist_s(&cops), clist_s(&cobs)]),
        txt: format!("fn {}", tsteps.join("; ")),
        nontrivial: acc > 0 && (rej_key > 0 || rej_pw > 0),
        bumps,
    }
}

fn main() {
    std::env::set_var("KANIDM_DEV_YOLO", "1");
    let args = parse_args();
    let mut rng = Rng::new(args.seed);
    let mut sink = Sink::new(&args, "KV.C44.Model", 60);
    sink.rule = "(fn) 6..24 random ops on 3 UserTokens with 3 independent soft-TPM HMAC keys: kanidm_update_cached_password (real \
Argon2id at the test-minimum policy + TPM HMAC), plain ARGON2ID / junk planted under the cache key, credential moved between tokens, \
cleared, kanidm_has_offline_credentials, kanidm_check_cached_password aimed at right key+right password / other key / other password \
(passwords incl. case / trailing-space variants, non-ASCII, empty, 512 / 513 / 600 bytes); non-trivial = at least one accept and one \
reject that is due to the key or to the password.  (resolver) histories of 8..26 ops on two real Resolvers with their own cache db and \
soft TPM against one HTTP stub server: server password set/changed/account removed, network of a machine down/up (connection dropped \
=> real transport errors), mark_offline, mark_next_check_now, invalidate, cached credential of a user swapped between / copied across \
the machines' cache dbs, pam_account_authenticate with current / earlier / random passwords; provider online flags and cache rows \
dumped after every op; non-trivial = the offline path both accepted and denied a login, or decided a login after a credential was \
moved between the machines".into();

    // ---- function level (cheap)
    {
        let policy = CryptoPolicy::danger_test_minimum();
        let pool = pw_pool();
        let mut tpms: Vec<Tpm1> = (0..3).map(|_| new_tpm()).collect();
        let n_fn = if args.thorough { 1600 } else { 400 };
        let mut r = rng.fork();
        for _ in 0..n_fn {
            let o = fn_case(&mut r, &mut tpms, &pool, &policy);
            for b in &o.bumps {
                sink.bump(b);
            }
            sink.case(o.coq, o.txt, o.nontrivial);
        }
    }

    // ---- resolver level: KanidmProvider::new calibrates Argon2 (~1 s CPU per provider), so the
    // machine pairs are spread over worker threads; every pair has its own forked PRNG, so the
    // cases do not depend on the scheduling.
    let n_cfg: usize = if args.thorough { 64 } else { 24 };
    let n_hist: usize = if args.thorough { 8 } else { 5 };
    let n_workers: usize = 12;
    let seeds: Vec<Rng> = (0..n_cfg).map(|_| rng.fork()).collect();
    let mut handles = vec![];
    for w in 0..n_workers {
        let mine: Vec<(usize, Rng)> = seeds.iter().cloned().enumerate().filter(|(i, _)| i % n_workers == w).collect();
        let out = args.out.clone();
        handles.push(std::thread::spawn(move || {
            let mut worker = Worker::new(out);
            let mut res: Vec<(usize, Vec<Out>)> = vec![];
            for (i, mut r) in mine {
                res.push((i, worker.run_config(&mut r, n_hist)));
            }
            res
        }));
    }
    let mut all: Vec<(usize, Vec<Out>)> = vec![];
    for h in handles {
        all.extend(h.join().expect("worker panicked"));
    }
    all.sort_by_key(|(i, _)| *i);
    for (_, outs) in all {
        for o in outs {
            for b in &o.bumps {
                sink.bump(b);
            }
            if !o.coq.is_empty() {
                sink.case(o.coq, o.txt, o.nontrivial);
            }
        }
    }
    sink.add_stat("machine_pairs", n_cfg as u64);
    sink.finish();
}
