//! C46 — RADIUS secrets go only to members of required groups; VLAN = last mapped group.
//!
//! The REAL `rlm_kanidm` module logic (`/repo/rlm_kanidm/module/src/logic.rs`, compiled into
//! this binary unchanged via `#[path]`) is driven through its public entry point
//! `Module::authorise`, exactly as the FreeRADIUS glue does.  The only thing replaced is the
//! kanidm server: a tiny in-process HTTP stub on 127.0.0.1 answers
//! `GET /v1/account/{id}/_radius/_token` from a per-case directory (token JSON / HTTP status /
//! garbage body), so `fetch_token`, `user_in_required_groups`, `resolve_group_configs` and the
//! construction of the `AuthResponse` all run for real (through the real `kanidm_client`).
#![allow(dead_code, unexpected_cfgs, unused_imports)]

#[path = "/repo/rlm_kanidm/module/src/error.rs"]
mod error;
#[path = "/repo/rlm_kanidm/module/src/logic.rs"]
mod logic;

use kanidm_proto::internal::{Group, RadiusAuthToken};
use kvh::*;
use logic::{AuthError, AuthRequest, Module};
use rlm_kanidm_shared::config::{KanidmRadiusConfig, RadiusGroupConfig};
use std::collections::BTreeMap;
use std::io::{Read, Write};
use std::marker::PhantomData;
use std::net::{TcpListener, TcpStream};
use std::sync::{Arc, Mutex};

// ------------------------------------------------------------------ the stub kanidm server

#[derive(Clone, Debug)]
enum Resp {
    Token(RadiusAuthToken),
    Status(u16),
    Garbage,
}

type Dir = Arc<Mutex<BTreeMap<String, Resp>>>;

fn reason(code: u16) -> &'static str {
    match code {
        200 => "OK",
        400 => "Bad Request",
        401 => "Unauthorized",
        403 => "Forbidden",
        404 => "Not Found",
        500 => "Internal Server Error",
        502 => "Bad Gateway",
        503 => "Service Unavailable",
        _ => "Other",
    }
}

fn serve_conn(mut s: TcpStream, dir: Dir) {
    let _ = s.set_nodelay(true);
    let mut buf: Vec<u8> = Vec::new();
    let mut tmp = [0u8; 4096];
    loop {
        // read one request head (GET only, no body)
        let head_end = loop {
            if let Some(p) = buf.windows(4).position(|w| w == b"\r\n\r\n") {
                break p + 4;
            }
            match s.read(&mut tmp) {
                Ok(0) | Err(_) => return,
                Ok(n) => buf.extend_from_slice(&tmp[..n]),
            }
        };
        let head = String::from_utf8_lossy(&buf[..head_end]).to_string();
        buf.drain(..head_end);
        let line = head.lines().next().unwrap_or("").to_string();
        let path = line.split_whitespace().nth(1).unwrap_or("").to_string();
        let id = path
            .strip_prefix("/v1/account/")
            .and_then(|r| r.strip_suffix("/_radius/_token"))
            .map(|x| x.to_string());
        let resp = match id {
            Some(id) => dir.lock().expect("dir").get(&id).cloned().unwrap_or(Resp::Status(404)),
            None => Resp::Status(404),
        };
        let (code, body) = match resp {
            Resp::Token(t) => (200u16, serde_json::to_string(&t).expect("json")),
            Resp::Status(c) => (c, "null".to_string()),
            Resp::Garbage => (200u16, "{\"name\": 3, this is not json".to_string()),
        };
        let out = format!(
            "HTTP/1.1 {} {}\r\nContent-Type: application/json\r\nX-KANIDM-VERSION: {}\r\nX-KANIDM-OPID: stub\r\nContent-Length: {}\r\nConnection: keep-alive\r\n\r\n{}",
            code,
            reason(code),
            "stub",
            body.len(),
            body
        );
        if s.write_all(out.as_bytes()).is_err() {
            return;
        }
    }
}

fn start_stub(dir: Dir) -> u16 {
    let l = TcpListener::bind("127.0.0.1:0").expect("bind loopback");
    let port = l.local_addr().expect("addr").port();
    std::thread::spawn(move || {
        for c in l.incoming().flatten() {
            let d = dir.clone();
            std::thread::spawn(move || serve_conn(c, d));
        }
    });
    port
}

// ------------------------------------------------------------------ encoding

struct Enc {
    strs: Intern<String>,
}
impl Enc {
    fn s(&mut self, x: &str) -> String {
        cn(self.strs.id(&x.to_string()))
    }
    fn os(&mut self, x: &Option<String>) -> String {
        match x {
            None => "None".into(),
            Some(v) => format!("(Some {})", self.s(v)),
        }
    }
    fn attrs(&mut self, m: &BTreeMap<String, String>) -> String {
        // BTreeMap iteration order = ascending key strings; keys are "attr-NN" so that the
        // string order is the numeric order of NN. Anything else becomes the sentinel 999.
        let v: Vec<String> = m
            .iter()
            .map(|(k, v)| {
                let kn = k.strip_prefix("attr-").and_then(|n| n.parse::<u64>().ok()).unwrap_or(999);
                format!("({}, {})", cn(kn), self.s(v))
            })
            .collect();
        clist_s(&v)
    }
    fn group(&mut self, g: &Group) -> String {
        capp("mkgroup", &[self.s(&g.spn), self.s(&g.uuid)])
    }
    fn token(&mut self, t: &RadiusAuthToken) -> String {
        let gs: Vec<String> = t.groups.iter().map(|g| self.group(g)).collect();
        capp("mktoken", &[self.s(&t.name), self.s(&t.uuid), self.s(&t.secret), clist_s(&gs)])
    }
    fn resp(&mut self, r: &Resp) -> String {
        match r {
            Resp::Token(t) => capp("RespToken", &[self.token(t)]),
            Resp::Status(c) => capp("RespStatus", &[cn(*c as u64)]),
            Resp::Garbage => "RespGarbage".into(),
        }
    }
    fn config(&mut self, c: &KanidmRadiusConfig) -> String {
        let req: Vec<String> = c.radius_required_groups.iter().map(|s| self.s(s)).collect();
        let gs: Vec<String> = c
            .radius_groups
            .iter()
            .map(|g| capp("mkgcfg", &[self.s(&g.spn), cn(g.vlan as u64), self.attrs(&g.reply_attributes)]))
            .collect();
        capp("mkconfig", &[clist_s(&req), cn(c.radius_default_vlan as u64), clist_s(&gs)])
    }
}

fn err_name(e: &AuthError) -> &'static str {
    match e {
        AuthError::Reject => "EReject",
        AuthError::Fail => "EFail",
        AuthError::Handled => "EHandled",
        AuthError::Invalid => "EInvalid",
        AuthError::UserLock => "EUserLock",
        AuthError::NotFound => "ENotFound",
        AuthError::NoOp => "ENoOp",
        AuthError::Updated => "EUpdated",
    }
}

// ------------------------------------------------------------------ generators

/// One shared pool for group spns, group uuids and required-group entries, so that a string
/// can be the uuid of one group and the spn of another, with case variants that must NOT match.
fn pool() -> Vec<String> {
    let mut v = vec![];
    for k in 0..4 {
        v.push(format!("grp{}@example.com", k));
        v.push(format!("00000000-0000-0000-0000-00000000000{}", k));
    }
    v.push("GRP0@example.com".to_string());
    v.push("grp1".to_string());
    v.push("00000000-0000-0000-0000-00000000000A".to_string());
    v.push("00000000-0000-0000-0000-00000000000a".to_string());
    v.push("".to_string());
    v
}

fn gen_attrs(rng: &mut Rng) -> BTreeMap<String, String> {
    let mut m = BTreeMap::new();
    let n = if rng.chance(1, 2) { 0 } else { rng.range(1, 3) };
    for _ in 0..n {
        m.insert(format!("attr-{:02}", rng.below(5)), format!("val-{}", rng.below(6)));
    }
    m
}

fn gen_vlan(rng: &mut Rng) -> u32 {
    match rng.below(6) {
        0 => 0,
        1 => 1,
        2 => u32::MAX,
        _ => rng.range(2, 4094) as u32,
    }
}

fn gen_config(rng: &mut Rng, pool: &[String], uri: &str) -> KanidmRadiusConfig {
    let nreq = match rng.below(8) {
        0 => 0,
        1 | 2 | 3 => 1,
        4 | 5 => 2,
        _ => rng.range(3, 4),
    };
    let required: Vec<String> = (0..nreq).map(|_| rng.pick(pool).clone()).collect();
    let ng = rng.below(6);
    let groups: Vec<RadiusGroupConfig> = (0..ng)
        .map(|_| RadiusGroupConfig { spn: rng.pick(pool).clone(), vlan: gen_vlan(rng), reply_attributes: gen_attrs(rng) })
        .collect();
    KanidmRadiusConfig {
        uri: uri.to_string(),
        auth_token: "stub-token".to_string(),
        verify_hostnames: false,
        verify_certificate: false,
        ca_path: None,
        radius_required_groups: required,
        radius_default_vlan: gen_vlan(rng),
        radius_groups: groups,
        radius_clients: Vec::new(),
        ..KanidmRadiusConfig::default()
    }
}

fn gen_token(rng: &mut Rng, pool: &[String], cfg: &KanidmRadiusConfig, k: u64) -> RadiusAuthToken {
    let n = match rng.below(8) {
        0 => 0,
        1 | 2 => 1,
        3 | 4 => 2,
        _ => rng.range(3, 7),
    };
    let mut groups: Vec<Group> = (0..n)
        .map(|_| Group { spn: rng.pick(pool).clone(), uuid: rng.pick(pool).clone() })
        .collect();
    // bias: make membership (by spn or by uuid) and vlan mappings frequent
    if !cfg.radius_required_groups.is_empty() && rng.chance(1, 2) {
        let r = rng.pick(&cfg.radius_required_groups).clone();
        let other = rng.pick(pool).clone();
        let g = if rng.chance(1, 2) { Group { spn: r, uuid: other } } else { Group { spn: other, uuid: r } };
        let at = rng.below(groups.len() as u64 + 1) as usize;
        groups.insert(at, g);
    }
    if !cfg.radius_groups.is_empty() && rng.chance(1, 2) {
        let spn = rng.pick(&cfg.radius_groups).spn.clone();
        let at = rng.below(groups.len() as u64 + 1) as usize;
        groups.insert(at, Group { spn, uuid: rng.pick(pool).clone() });
    }
    RadiusAuthToken {
        name: format!("name-{}", rng.below(4)),
        displayname: format!("Display {}", k),
        uuid: format!("uuid-{}", rng.below(4)),
        secret: format!("secret-{}-{}", k, rng.below(3)),
        groups,
    }
}

fn main() {
    // the client's dev-mode version check would exit the process on a stub server
    std::env::set_var("KANIDM_DEV_YOLO", "1");
    let args = parse_args();
    let mut rng = Rng::new(args.seed);
    let mut sink = Sink::new(&args, "KV.C46.Model", 400);
    sink.rule = "random module configurations (required-group lists incl. empty/duplicates, default vlan, group->vlan/reply-attribute \
mappings incl. duplicate spns) x random directories (per user id: token / HTTP status / garbage) x random requests (tls SAN, tls CN, \
user name each optional); strings for spns, uuids and required entries come from ONE pool with case variants so uuid-vs-spn collisions \
occur; every case runs the real Module::authorise against an in-process HTTP stub. non-trivial = the secret was released, or the user was \
rejected although both the required list and the user's group list were non-empty".into();

    let dir: Dir = Arc::new(Mutex::new(BTreeMap::new()));
    let port = start_stub(dir.clone());
    let uri = format!("http://127.0.0.1:{}", port);
    let rt = tokio::runtime::Builder::new_current_thread().enable_all().build().expect("rt");

    let pool = pool();
    let mut enc = Enc { strs: Intern::new() };
    for p in &pool {
        enc.s(p);
    }
    let ids = ["id-a", "id-b", "id-c", "id-d", ""];
    let statuses = [400u16, 401, 403, 404, 404, 500, 502, 503];

    let n_cfg = if args.thorough { 16000 } else { 2400 };
    let per_cfg = 5;
    for _ in 0..n_cfg {
        let cfg = gen_config(&mut rng, &pool, &uri);
        let ccfg = enc.config(&cfg);
        let module = rt.block_on(Module::from_config(cfg.clone())).expect("module");
        for _ in 0..per_cfg {
            // directory
            let mut d: BTreeMap<String, Resp> = BTreeMap::new();
            for (k, id) in ids.iter().enumerate().take(3) {
                let r = match rng.below(10) {
                    0 => None,
                    1 => Some(Resp::Status(*rng.pick(&statuses))),
                    2 => {
                        if rng.chance(1, 3) {
                            Some(Resp::Garbage)
                        } else {
                            Some(Resp::Status(*rng.pick(&statuses)))
                        }
                    }
                    _ => Some(Resp::Token(gen_token(&mut rng, &pool, &cfg, k as u64))),
                };
                if let Some(r) = r {
                    d.insert(id.to_string(), r);
                }
            }
            *dir.lock().expect("dir") = d.clone();
            let field = |rng: &mut Rng, p_some: u64| -> Option<String> {
                if rng.chance(p_some, 10) {
                    let span = if rng.chance(1, 6) { 5 } else { 3 };
                    Some(ids[rng.below(span) as usize].to_string())
                } else {
                    None
                }
            };
            let san = field(&mut rng, 3);
            let cn_ = field(&mut rng, 4);
            let user = field(&mut rng, 8);
            let req = AuthRequest {
                tls_san_dn_cn: san.clone(),
                tls_cn: cn_.clone(),
                user_name: user.clone(),
                attrs: Default::default(),
                phantom: PhantomData,
            };
            let res = rt.block_on(module.authorise(req));

            // encode
            let cdir: Vec<String> = d.iter().map(|(k, v)| format!("({}, {})", enc.s(k), enc.resp(v))).collect();
            let creq = capp("mkreq", &[enc.os(&san), enc.os(&cn_), enc.os(&user)]);
            let (cres, kind, txt_res) = match &res {
                Err(e) => (capp("RErr", &[err_name(e).to_string()]), err_name(e), format!("Err({:?})", e)),
                Ok(r) => {
                    let uuid = r.reply.message.strip_prefix("Kanidm-Uuid: ").unwrap_or("<<bad message prefix>>").to_string();
                    let vlan = r.reply.tunnel_private_group_id.parse::<u64>().unwrap_or(u64::MAX);
                    let tun = r.reply.tunnel_type == "13" && r.reply.tunnel_medium_type == "6";
                    (
                        capp(
                            "ROk",
                            &[
                                enc.s(&r.reply.user_name),
                                enc.s(&uuid),
                                cbool(tun),
                                cn(vlan),
                                enc.attrs(&r.reply.reply_attributes),
                                enc.os(&r.control.cleartext_password),
                            ],
                        ),
                        "ok_secret_released",
                        format!(
                            "Ok(user={} msg={:?} vlan={} attrs={:?} secret={:?})",
                            r.reply.user_name, r.reply.message, r.reply.tunnel_private_group_id, r.reply.reply_attributes, r.control.cleartext_password
                        ),
                    )
                }
            };
            sink.bump(kind);
            let uid = san.clone().or(cn_.clone()).or(user.clone());
            let tok_groups = uid.as_ref().and_then(|u| d.get(u)).and_then(|r| if let Resp::Token(t) = r { Some(t.groups.len()) } else { None });
            let nontrivial = res.is_ok()
                || (matches!(res, Err(AuthError::Reject)) && !cfg.radius_required_groups.is_empty() && tok_groups.unwrap_or(0) > 0);
            let tdir: Vec<String> = d
                .iter()
                .map(|(k, v)| match v {
                    Resp::Token(t) => format!(
                        "{:?}=>token(name={},uuid={},secret={},groups=[{}])",
                        k,
                        t.name,
                        t.uuid,
                        t.secret,
                        t.groups.iter().map(|g| format!("{{spn={:?},uuid={:?}}}", g.spn, g.uuid)).collect::<Vec<_>>().join(",")
                    ),
                    Resp::Status(c) => format!("{:?}=>http{}", k, c),
                    Resp::Garbage => format!("{:?}=>garbage", k),
                })
                .collect();
            sink.case(
                capp("CAuth", &[ccfg.clone(), clist_s(&cdir), creq, cres]),
                format!(
                    "authorise required={:?} default_vlan={} groups=[{}] dir[{}] san={:?} cn={:?} user={:?} -> {}",
                    cfg.radius_required_groups,
                    cfg.radius_default_vlan,
                    cfg.radius_groups.iter().map(|g| format!("{{{:?} vlan={} attrs={:?}}}", g.spn, g.vlan, g.reply_attributes)).collect::<Vec<_>>().join(","),
                    tdir.join("; "),
                    san,
                    cn_,
                    user,
                    txt_res
                ),
                nontrivial,
            );
        }
    }
    sink.add_stat("configurations", n_cfg);
    sink.finish();
}
