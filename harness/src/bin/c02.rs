//! C02 — filter rewriting preserves meaning.
//!
//! Random and exhaustive resolved filter trees are handed to the REAL `optimise()` and
//! `fast_optimise()` (verif hooks). The original and both rewritten trees are evaluated with the
//! REAL `entry_match_no_index` on every entry of a real server (9 test groups + built-ins), the
//! rewritten trees are exported structurally, and Coq re-evaluates everything with the model.
use kanidmd_lib::entry::{Entry, EntryInit, EntryNew};
use kanidmd_lib::filter::FilterResolved as FR;
use kanidmd_lib::prelude::*;
use kanidmd_lib::testkit::{setup_test, TestConfiguration};
use kanidmd_lib::verif_hooks::c01::be_truth;
use kvh::*;
use std::num::NonZeroU8;

struct World {
    attrs: Vec<Attribute>,
    pools: Vec<Vec<PartialValue>>,
}

fn sl(n: u8) -> Option<NonZeroU8> {
    NonZeroU8::new(n)
}

/// leaf alphabet index -> FR
fn leaf(w: &World, kind: u8, a: usize, v: usize, slope: u8) -> FR {
    let at = w.attrs[a].clone();
    let pv = w.pools[a][v % w.pools[a].len()].clone();
    match kind {
        0 => FR::Eq(at, pv, sl(slope)),
        1 => FR::Pres(at, sl(slope)),
        2 => FR::Cnt(at, pv, sl(slope)),
        3 => FR::Stw(at, pv, sl(slope)),
        4 => FR::Enw(at, pv, sl(slope)),
        _ => FR::LessThan(at, pv, sl(slope)),
    }
}

struct Enc<'a> {
    w: &'a World,
    /// leaves seen: (kind, attr idx, value idx)
    seen: Vec<(u8, usize, usize)>,
}

impl<'a> Enc<'a> {
    fn attr_idx(&self, a: &Attribute) -> usize {
        self.w.attrs.iter().position(|x| x == a).unwrap_or(98)
    }
    fn val_idx(&self, a: usize, v: &PartialValue) -> usize {
        if a >= self.w.pools.len() {
            return 97;
        }
        self.w.pools[a].iter().position(|x| x == v).unwrap_or(97)
    }
    fn slope(s: &Option<NonZeroU8>) -> String {
        match s {
            Some(n) => format!("(Some {})", cn(n.get() as u64)),
            None => "None".into(),
        }
    }
    fn leaf(&mut self, k: u8, kn: &str, a: &Attribute, v: Option<&PartialValue>, s: &Option<NonZeroU8>) -> String {
        let ai = self.attr_idx(a);
        let vi = v.map(|v| self.val_idx(ai, v)).unwrap_or(0);
        if !self.seen.contains(&(k, ai, vi)) {
            self.seen.push((k, ai, vi));
        }
        format!("(FLeaf {} {} {} {})", kn, cn(ai as u64), cn(vi as u64), Self::slope(s))
    }
    fn coq(&mut self, f: &FR) -> String {
        match f {
            FR::Eq(a, v, s) => self.leaf(0, "KEq", a, Some(v), s),
            FR::Pres(a, s) => self.leaf(1, "KPres", a, None, s),
            FR::Cnt(a, v, s) => self.leaf(2, "KCnt", a, Some(v), s),
            FR::Stw(a, v, s) => self.leaf(3, "KStw", a, Some(v), s),
            FR::Enw(a, v, s) => self.leaf(4, "KEnw", a, Some(v), s),
            FR::LessThan(a, v, s) => self.leaf(5, "KLt", a, Some(v), s),
            FR::Or(l, s) => { let v: Vec<String> = l.iter().map(|x| self.coq(x)).collect(); format!("(FOr {} {})", clist_s(&v), Self::slope(s)) }
            FR::And(l, s) => { let v: Vec<String> = l.iter().map(|x| self.coq(x)).collect(); format!("(FAnd {} {})", clist_s(&v), Self::slope(s)) }
            FR::Inclusion(l, s) => { let v: Vec<String> = l.iter().map(|x| self.coq(x)).collect(); format!("(FInclusion {} {})", clist_s(&v), Self::slope(s)) }
            FR::AndNot(g, s) => format!("(FAndNot {} {})", self.coq(g), Self::slope(s)),
            FR::Invalid(_) => "(FInvalid 99%N)".into(),
        }
    }
}

fn gen(rng: &mut Rng, w: &World, depth: u32, maxw: u64, slopes: &[[u8; 4]; 6]) -> FR {
    if depth == 0 || rng.chance(1, 3) {
        if rng.chance(1, 30) {
            return FR::Invalid(Attribute::from("nonexist"));
        }
        let a = rng.below(w.attrs.len() as u64) as usize;
        let kind = loop {
            let k = rng.below(6) as u8;
            if (k == 5 && a != 1) || ((2..=4).contains(&k) && a == 1) {
                continue;
            }
            break k;
        };
        // small value alphabet so that duplicates (dedup) are frequent
        let v = rng.below(3) as usize;
        let mut s = slopes[kind as usize][a];
        if rng.chance(1, 10) {
            s = rng.below(4) as u8;
        }
        return leaf(w, kind, a, v, s);
    }
    let n = rng.below(maxw + 1) as usize;
    let mut kids: Vec<FR> = (0..n).map(|_| gen(rng, w, depth - 1, maxw, slopes)).collect();
    // duplicate a child now and then (also non-adjacent)
    if !kids.is_empty() && rng.chance(1, 3) {
        let d = kids[rng.below(kids.len() as u64) as usize].clone();
        kids.push(d);
    }
    match rng.below(8) {
        0..=2 => FR::And(kids, None),
        3..=5 => FR::Or(kids, None),
        6 => FR::AndNot(Box::new(gen(rng, w, depth - 1, maxw, slopes)), None),
        _ => FR::Inclusion(kids, None),
    }
}

fn size(f: &FR) -> usize {
    match f {
        FR::Or(l, _) | FR::And(l, _) | FR::Inclusion(l, _) => 1 + l.iter().map(size).sum::<usize>(),
        FR::AndNot(g, _) => 1 + size(g),
        _ => 1,
    }
}

fn main() {
    let args = parse_args();
    let mut rng = Rng::new(args.seed);
    let mut sink = Sink::new(&args, "KV.C02.Model", 80);
    sink.import("KV.Base.Filter");
    sink.rule = "exhaustive: every And/Or/AndNot/Inclusion tree of depth<=2, width<=2 over a 5-leaf alphabet (incl. two == leaves with different slopes and a starts-with leaf); \
random: trees to depth 4 (quick) / 6 (thorough), width<=4/6, small value alphabet + forced duplicate children so dedup and flattening fire, random slopes; \
each evaluated by the real entry_match_no_index before and after the real optimise()/fast_optimise() on every entry of a real server. \
non-trivial = the real optimise() changed the tree size AND the truth set is neither empty nor everything".into();

    let rt = tokio::runtime::Builder::new_current_thread().enable_all().build().expect("rt");
    let qs = rt.block_on(setup_test(TestConfiguration::default()));
    let mut wr = rt.block_on(qs.write(duration_from_epoch_now())).expect("write");
    let names = ["pga", "pgb", "pgbx", "xpgc", "pgd", "qqe", "pgaa", "zz", "apgb"];
    let gids: [Option<u32>; 9] = [Some(3000), Some(7000), Some(9000), None, Some(5000), Some(4999), None, Some(5001), Some(7001)];
    let descs: [Option<&str>; 9] = [Some("alpha one"), Some("beta"), None, Some("alpha"), Some("gamma beta"), None, Some("one"), Some("beta"), None];
    let uuids: Vec<Uuid> = (0..9).map(|i| Uuid::from_u128(0xc002_0000_0000_0000_0000_0000_0000_0000u128 + i as u128)).collect();
    let mut es = vec![];
    for i in 0..9 {
        let mut e: Entry<EntryInit, EntryNew> = kanidmd_lib::entry_init!(
            (Attribute::Class, EntryClass::Object.to_value()),
            (Attribute::Class, EntryClass::Group.to_value()),
            (Attribute::Name, Value::new_iname(names[i])),
            (Attribute::Uuid, Value::Uuid(uuids[i]))
        );
        if let Some(g) = gids[i] {
            e.add_ava(Attribute::Class, EntryClass::PosixGroup.to_value());
            e.add_ava(Attribute::GidNumber, Value::Uint32(g));
        }
        if let Some(d) = descs[i] {
            e.add_ava(Attribute::Description, Value::new_utf8s(d));
        }
        if i % 3 == 0 {
            e.add_ava(Attribute::Member, Value::Refer(uuids[(i + 1) % 9]));
        }
        es.push(e);
    }
    wr.internal_create(es).expect("create population");
    let w = World {
        attrs: vec![Attribute::Name, Attribute::GidNumber, Attribute::Description, Attribute::Member],
        pools: vec![
            ["pga", "pg", "b"].iter().map(|s| PartialValue::new_iname(s)).collect(),
            [5000u32, 7000, 9001].iter().map(|g| PartialValue::Uint32(*g)).collect(),
            ["beta", "alpha", "one"].iter().map(|s| PartialValue::new_utf8s(s)).collect(),
            vec![PartialValue::Refer(uuids[1]), PartialValue::Refer(uuids[4]), PartialValue::Refer(uuids[8])],
        ],
    };
    let mut ids = Intern::<u64>::new();

    let mut trees: Vec<FR> = vec![];
    // ---- exhaustive small space
    let alpha: Vec<FR> = vec![
        leaf(&w, 0, 0, 0, 1), leaf(&w, 0, 0, 0, 0), leaf(&w, 1, 1, 0, 2), leaf(&w, 3, 0, 1, 0), leaf(&w, 5, 1, 1, 1),
    ];
    let mut level1: Vec<FR> = alpha.clone();
    let mut lists: Vec<Vec<FR>> = vec![vec![]];
    for a in &alpha { lists.push(vec![a.clone()]); }
    for a in &alpha { for b in &alpha { lists.push(vec![a.clone(), b.clone()]); } }
    for l in &lists {
        level1.push(FR::And(l.clone(), None));
        level1.push(FR::Or(l.clone(), None));
    }
    for a in &alpha { level1.push(FR::AndNot(Box::new(a.clone()), None)); }
    trees.extend(level1.iter().cloned());
    // depth 2: pairs of a compound and anything from a reduced pool
    let pool: Vec<FR> = level1.iter().step_by(if args.thorough { 2 } else { 7 }).cloned().collect();
    for a in &pool {
        for b in &pool {
            trees.push(FR::And(vec![a.clone(), b.clone()], None));
            trees.push(FR::Or(vec![a.clone(), b.clone()], None));
        }
        trees.push(FR::AndNot(Box::new(a.clone()), None));
        trees.push(FR::Inclusion(vec![a.clone()], None));
    }
    sink.add_stat("exhaustive_trees", trees.len() as u64);
    // ---- random
    let n_rand = if args.thorough { 6000 } else { 700 };
    let (maxd, maxw) = if args.thorough { (6, 6) } else { (4, 4) };
    for _ in 0..n_rand {
        let mut slopes = [[0u8; 4]; 6];
        for k in 0..6 { for a in 0..4 { slopes[k][a] = rng.below(4) as u8; } }
        trees.push(gen(&mut rng, &w, maxd, maxw, &slopes));
    }
    sink.add_stat("random_trees", n_rand);

    for orig in &trees {
        let opt = orig.verif_optimise();
        let fast = orig.clone().verif_fast_optimise();
        let (all, t_orig) = be_truth(&mut wr, orig).expect("truth");
        let (_, t_opt) = be_truth(&mut wr, &opt).expect("truth");
        let (_, t_fast) = be_truth(&mut wr, &fast).expect("truth");
        let univ: Vec<u64> = all.iter().map(|x| ids.id(x)).collect();
        let mut enc = Enc { w: &w, seen: vec![] };
        let c_orig = enc.coq(orig);
        let c_opt = enc.coq(&opt);
        let c_fast = enc.coq(&fast);
        let mut leaf_coq = vec![];
        for (k, a, v) in enc.seen.clone() {
            if a >= w.attrs.len() { continue; }
            let lfr = leaf(&w, k, a, v, 0);
            let (_, lt) = be_truth(&mut wr, &lfr).expect("leaf truth");
            let kn = ["KEq", "KPres", "KCnt", "KStw", "KEnw", "KLt"][k as usize];
            leaf_coq.push(format!("(mkleaf {} {} {} {})", kn, cn(a as u64), cn(v as u64), clist(&lt, |x| cn(ids.get(x).unwrap_or(999_999)))));
        }
        let m = |v: &Vec<u64>| clist(v, |x| cn(ids.get(x).unwrap_or(999_999)));
        let changed = size(orig) != size(&opt);
        if changed { sink.bump("optimise_changed_size"); }
        if t_orig != t_opt || t_orig != t_fast { sink.bump("MEANING_CHANGED"); }
        sink.case(
            format!("(COpt {} {} {} {} {} {} {} {})", clist(&univ, |x| cn(*x)), clist_s(&leaf_coq), c_orig, c_opt, c_fast, m(&t_orig), m(&t_opt), m(&t_fast)),
            format!("opt size {}->{} matches {}->{} : {:?}", size(orig), size(&opt), t_orig.len(), t_opt.len(), orig).chars().take(600).collect(),
            changed && !t_orig.is_empty() && t_orig.len() < all.len(),
        );
    }
    drop(wr);
    sink.finish();
}
