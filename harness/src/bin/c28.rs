//! C28 — failed credentials are rate limited (credential soft lock).
//!
//! Four kinds of cases, all produced by REAL kanidm code:
//!  * CNext   : `CredSoftLockPolicy::failure_next_state` (hook) on a boundary grid;
//!  * CRaw    : raw `apply_time_step` / `record_failure` sequences on a real `CredSoftLock`
//!              started in an arbitrary state (hook), full state observed after every op;
//!  * CEvents 0: the server's consultation discipline (time step; if valid check the
//!              credential; on a wrong credential record the failure) replayed by this
//!              harness on a real `CredSoftLock` — exhaustive short and random long histories;
//!  * CEvents 1/2/3: a REAL IdmServer driven through `auth` Init/Begin/Cred (password),
//!              `auth_unix`, and `auth` with password+TOTP, at harness-chosen times; the
//!              server's own lock is read back after every call (hook peek).
use kanidm_proto::v1::{AuthCredential, AuthIssueSession, AuthMech, AuthStep};
use kanidmd_lib::credential::softlock::CredSoftLockPolicy;
use kanidmd_lib::credential::totp::{Totp, TotpAlgo, TotpDigits};
use kanidmd_lib::entry::{Entry, EntryInit, EntryNew};
use kanidmd_lib::idm::authentication::{AuthState, ClientAuthInfo};
use kanidmd_lib::idm::event::AuthEvent;
use kanidmd_lib::idm::server::IdmServer;
use kanidmd_lib::prelude::*;
use kanidmd_lib::testkit::{setup_idm_test, TestConfiguration};
use kanidmd_lib::verif_hooks::c28 as hook;
use kanidmd_lib::verif_hooks::c28::{HookLockState, HookSoftLock};
use kvh::*;
use std::cell::RefCell;

thread_local! {
    /// all cases, in generation order; written to the sink at the end so that the few very long
    /// histories are spread evenly over the shards (shards are evaluated in parallel)
    static BUF: RefCell<Vec<(String, String, bool)>> = const { RefCell::new(Vec::new()) };
}
fn put(coq: String, txt: String, nontrivial: bool) {
    BUF.with(|b| b.borrow_mut().push((coq, txt, nontrivial)));
}

const G: u64 = 1_000_000_000;
const DAY: u64 = 86400;
const PW_GOOD: &str = "eicieY7ahchaoCh0eeTa";
const PW_BAD: &str = "Thi5-is-the-wr0ng-0ne";

#[derive(Clone, Copy, Debug, PartialEq, Eq)]
enum Pol {
    Password,
    Totp(u64),
    Webauthn,
    Unrestricted,
}
impl Pol {
    fn real(self) -> CredSoftLockPolicy {
        match self {
            Pol::Password => CredSoftLockPolicy::Password,
            Pol::Totp(s) => CredSoftLockPolicy::Totp(s),
            Pol::Webauthn => CredSoftLockPolicy::Webauthn,
            Pol::Unrestricted => CredSoftLockPolicy::Unrestricted,
        }
    }
    fn of_real(p: &CredSoftLockPolicy) -> Pol {
        match p {
            CredSoftLockPolicy::Password => Pol::Password,
            CredSoftLockPolicy::Totp(s) => Pol::Totp(*s),
            CredSoftLockPolicy::Webauthn => Pol::Webauthn,
            CredSoftLockPolicy::Unrestricted => Pol::Unrestricted,
        }
    }
    fn coq(self) -> String {
        match self {
            Pol::Password => "PPassword".into(),
            Pol::Totp(s) => capp("PTotp", &[cn(s)]),
            Pol::Webauthn => "PWebauthn".into(),
            Pol::Unrestricted => "PUnrestricted".into(),
        }
    }
    fn txt(self) -> String {
        format!("{:?}", self)
    }
    /// window length in seconds (for generators only)
    fn window(self) -> u64 {
        match self {
            Pol::Password => DAY,
            Pol::Totp(s) => s,
            _ => 5,
        }
    }
}

fn d(ns: u64) -> Duration {
    Duration::from_nanos(ns)
}
fn ns(x: Duration) -> u64 {
    x.as_nanos() as u64
}

/// (kind, count, reset_at ns, unlock_at ns)
type St = (u8, u64, u64, u64);
fn st_of(h: &HookLockState) -> (St, u64) {
    ((h.0, h.1 as u64, ns(h.2), ns(h.3)), ns(h.4))
}
fn st_coq(s: &St) -> String {
    match s.0 {
        1 => capp("Locked", &[cn(s.1), cn(s.2), cn(s.3)]),
        2 => capp("Unlocked", &[cn(s.1), cn(s.2)]),
        _ => "Init".into(),
    }
}
fn tns(x: u64) -> String {
    if x % G == 0 {
        format!("{}s", x / G)
    } else {
        format!("{}.{:09}s", x / G, x % G)
    }
}
fn st_txt(s: &St) -> String {
    match s.0 {
        1 => format!("Locked(c={},reset={},unlock={})", s.1, tns(s.2), tns(s.3)),
        2 => format!("Unlocked(c={},reset={})", s.1, tns(s.2)),
        _ => "Init".into(),
    }
}

#[derive(Clone, Copy, Debug, PartialEq, Eq)]
enum Out {
    Refused,
    Failed,
    Passed,
}
impl Out {
    fn coq(self) -> &'static str {
        match self {
            Out::Refused => "Refused",
            Out::Failed => "Failed",
            Out::Passed => "Passed",
        }
    }
}

#[derive(Clone, Copy, Debug)]
struct Ev {
    ct: u64,
    exp: Option<u64>,
    bad: bool,
}
type Obs = (Out, St, u64);

fn ev_coq(e: &Ev) -> String {
    capp("Ev", &[cn(e.ct), copt(&e.exp, |x| cn(*x)), cbool(e.bad)])
}
fn obs_coq(o: &Obs) -> String {
    format!("({}, {}, {})", o.0.coq(), st_coq(&o.1), cn(o.2))
}

fn emit_events(sink: &mut Sink, src: u64, tag: &str, pol: Pol, evs: &[Ev], obs: &[Obs]) {
    emit_events_shape(sink, src, tag, pol, None, evs, obs)
}
fn emit_events_shape(sink: &mut Sink, src: u64, tag: &str, pol: Pol, shape: Option<&Shape>, evs: &[Ev], obs: &[Obs]) {
    let coq = match shape {
        Some(sh) => capp("CShapeEvents", &[cn(src), sh.coq(), clist(evs, ev_coq), clist(obs, obs_coq)]),
        None => capp("CEvents", &[cn(src), pol.coq(), clist(evs, ev_coq), clist(obs, obs_coq)]),
    };
    let mut t = match shape {
        Some(sh) => format!("{} credential={:?} required_policy={}", tag, sh, pol.txt()),
        None => format!("{} policy={}", tag, pol.txt()),
    };
    for (e, o) in evs.iter().zip(obs.iter()) {
        t.push_str(&format!(
            " | t={}{}{} -> {:?} {}{}",
            tns(e.ct),
            match e.exp {
                Some(x) => format!(" expire={}", tns(x)),
                None => String::new(),
            },
            if e.bad { " wrong" } else { " right" },
            o.0,
            st_txt(&o.1),
            if o.2 != 0 { format!(" last_expire={}", tns(o.2)) } else { String::new() }
        ));
    }
    let nf = obs.iter().filter(|o| o.0 == Out::Failed).count();
    let nr = obs.iter().filter(|o| o.0 == Out::Refused).count();
    sink.bump(tag);
    sink.add_stat("events", evs.len() as u64);
    sink.add_stat("outcome_failed", nf as u64);
    sink.add_stat("outcome_refused", nr as u64);
    // regression indicator (must stay 0): a lock was released before its unlock time by the window reset
    let mut straddle = false;
    for (i, o) in obs.iter().enumerate() {
        if o.0 == Out::Failed && o.1 .0 == 1 && o.1 .3 > o.1 .2 {
            for (e2, o2) in evs[i + 1..].iter().zip(obs[i + 1..].iter()) {
                if e2.ct > o.1 .3 {
                    break;
                }
                if o2.0 != Out::Refused {
                    straddle = true;
                    break;
                }
            }
        }
    }
    if straddle {
        sink.bump("released_before_unlock_at");
    }
    let maxc = obs.iter().map(|o| o.1 .1).max().unwrap_or(0);
    if (pol == Pol::Password && maxc >= 100) || (matches!(pol, Pol::Totp(_)) && maxc >= 3) {
        sink.bump("reached_cap");
    }
    put(coq, t, nf > 0 && nr > 0);
}

/// The server's consultation discipline on a real CredSoftLock (hook).
fn run_events(pol: Pol, evs: &[Ev]) -> Vec<Obs> {
    let mut l = HookSoftLock::new(pol.real());
    let mut out = vec![];
    for e in evs {
        out.push(consult(&mut l, e));
    }
    out
}
fn consult(l: &mut HookSoftLock, e: &Ev) -> Obs {
    l.apply_time_step(d(e.ct), e.exp.map(d));
    let o = if l.is_valid() {
        if e.bad {
            l.record_failure(d(e.ct));
            Out::Failed
        } else {
            Out::Passed
        }
    } else {
        Out::Refused
    };
    let (s, le) = st_of(&l.peek());
    (o, s, le)
}

// ------------------------------------------------------------------ CNext
fn gen_next(sink: &mut Sink, thorough: bool) {
    let pols: Vec<Pol> = if thorough {
        vec![Pol::Password, Pol::Totp(30), Pol::Totp(1), Pol::Totp(7), Pol::Webauthn, Pol::Unrestricted]
    } else {
        vec![Pol::Password, Pol::Totp(30), Pol::Totp(7), Pol::Webauthn, Pol::Unrestricted]
    };
    let counts: Vec<u64> = vec![0, 1, 2, 3, 4, 8, 9, 10, 24, 25, 26, 99, 100, 101, 5000];
    let mut secs: Vec<u64> = vec![0, 1, 6, 7, 29, 30, 31, 59, 60, 86397, 86398, 86399, 86400, 86401, 172799, 172800];
    let big = 19_700 * DAY;
    secs.extend_from_slice(&[big - 1, big, big + 1, big + 43_200, big + DAY - 10, big + DAY - 1]);
    let nanos: Vec<u64> = if thorough { vec![0, 1, 499_999_999, 500_000_000, 999_999_999] } else { vec![0, 500_000_000, 999_999_999] };
    for p in pols {
        for c in &counts {
            for s in &secs {
                for n in &nanos {
                    let ct = s * G + n;
                    let r = hook::failure_next_state(&p.real(), *c as usize, d(ct));
                    let st: St = (r.0, r.1 as u64, ns(r.2), ns(r.3));
                    sink.bump("next");
                    put(
                        capp("CNext", &[p.coq(), cn(*c), cn(ct), st_coq(&st)]),
                        format!("next policy={} count={} t={} -> {}", p.txt(), c, tns(ct), st_txt(&st)),
                        st.0 == 1,
                    );
                }
            }
        }
    }
}

// ------------------------------------------------------------------ CRaw
#[derive(Clone, Copy, Debug)]
enum Op {
    Step(u64, Option<u64>),
    Fail(u64),
}
fn emit_raw(sink: &mut Sink, pol: Pol, s0: St, le0: u64, ops: &[Op]) {
    let mut l = HookSoftLock::with_state(pol.real(), (s0.0, s0.1 as usize, d(s0.2), d(s0.3), d(le0)));
    let mut obs: Vec<(St, u64)> = vec![];
    for o in ops {
        match o {
            Op::Step(ct, e) => l.apply_time_step(d(*ct), e.map(d)),
            Op::Fail(ct) => l.record_failure(d(*ct)),
        }
        obs.push(st_of(&l.peek()));
    }
    let ops_c = clist(ops, |o| match o {
        Op::Step(ct, e) => capp("OStep", &[cn(*ct), copt(e, |x| cn(*x))]),
        Op::Fail(ct) => capp("OFail", &[cn(*ct)]),
    });
    let obs_c = clist(&obs, |(s, le)| format!("({}, {})", st_coq(s), cn(*le)));
    let mut t = format!("raw policy={} start={} last_expire={}", pol.txt(), st_txt(&s0), tns(le0));
    let mut changed = false;
    let mut prev = s0;
    for (o, (s, _)) in ops.iter().zip(obs.iter()) {
        t.push_str(&match o {
            Op::Step(ct, e) => format!(" | step t={}{} -> {}", tns(*ct), e.map(|x| format!(" expire={}", tns(x))).unwrap_or_default(), st_txt(s)),
            Op::Fail(ct) => format!(" | fail t={} -> {}", tns(*ct), st_txt(s)),
        });
        if *s != prev {
            changed = true;
        }
        prev = *s;
    }
    sink.bump("raw");
    put(capp("CRaw", &[pol.coq(), st_coq(&s0), cn(le0), ops_c, obs_c]), t, changed);
}

fn gen_raw(sink: &mut Sink, rng: &mut Rng, thorough: bool) {
    let t = 19_700 * DAY * G + 40_000 * G; // a reference instant T
    let counts = [1u64, 2, 8, 99, 100];
    let mut states: Vec<St> = vec![(0, 0, 0, 0)];
    for c in counts {
        for r in [t, t + G] {
            for u in [t - G, t, t + G / 2, t + 2 * G] {
                states.push((1, c, r, u));
            }
            states.push((2, c, r, 0));
        }
    }
    let mut ops: Vec<Op> = vec![];
    for ct in [t - G, t, t + 1, t + G, t + G + 1, t + 2 * G, t + 3 * G] {
        for e in [None, Some(t - G), Some(t + 5 * G)] {
            ops.push(Op::Step(ct, e));
        }
        ops.push(Op::Fail(ct));
    }
    let pols = [Pol::Password, Pol::Totp(30), Pol::Webauthn, Pol::Unrestricted];
    // exhaustive single transitions (policy only matters for Fail)
    for p in pols {
        for s in &states {
            for le in [0, t - G] {
                for o in &ops {
                    if matches!(o, Op::Step(..)) && p != Pol::Password {
                        continue;
                    }
                    emit_raw(sink, p, *s, le, &[*o]);
                }
            }
        }
    }
    let n = if thorough { 20_000 } else { 1_500 };
    for _ in 0..n {
        let p = *rng.pick(&pols);
        let s = *rng.pick(&states);
        let le = *rng.pick(&[0, t - G, t + 5 * G]);
        let k = rng.range(2, 5);
        let seq: Vec<Op> = (0..k).map(|_| *rng.pick(&ops)).collect();
        emit_raw(sink, p, s, le, &seq);
    }
}

// ------------------------------------------------------------------ CEvents, source 0
/// all words of length `len` over `alpha` (advance ns, expire, wrong?) after `prefix`, first event at t0+advance
fn exhaustive(sink: &mut Sink, tag: &str, pol: Pol, prefix: &[Ev], t0: u64, alpha: &[(u64, Option<u64>, bool)], len: usize) {
    let n = alpha.len();
    let total = n.pow(len as u32);
    for w in 0..total {
        let mut evs: Vec<Ev> = prefix.to_vec();
        let mut t = t0;
        let mut x = w;
        for _ in 0..len {
            let (adv, exp, bad) = alpha[x % n];
            x /= n;
            t += adv;
            evs.push(Ev { ct: t, exp, bad });
        }
        let obs = run_events(pol, &evs);
        emit_events(sink, 0, tag, pol, &evs, &obs);
    }
    sink.add_stat("exhaustive_words", total as u64);
}

fn alpha_of(advs: &[u64], exps: &[Option<u64>]) -> Vec<(u64, Option<u64>, bool)> {
    let mut v = vec![];
    for a in advs {
        for e in exps {
            for b in [true, false] {
                v.push((*a, *e, b));
            }
        }
    }
    v
}

fn gen_exhaustive(sink: &mut Sink, thorough: bool) {
    let h = G / 2;
    let len = 4;
    let len_deep = if thorough { 5 } else { 4 };
    let base = 19_700 * DAY * G;
    let a_half = if thorough { alpha_of(&[0, h, G, G + h], &[None]) } else { alpha_of(&[0, G, G + h], &[None]) };
    // password, around the end of a UTC day, sub-second grid
    exhaustive(sink, "xh_password_dayend", Pol::Password, &[], base + 86398 * G - h, &a_half, len_deep);
    // password with three failures already in the window (3 s delays), whole seconds
    let pre: Vec<Ev> = [86380u64, 86382, 86384].iter().map(|s| Ev { ct: base + s * G, exp: None, bad: true }).collect();
    exhaustive(sink, "xh_password_3s_dayend", Pol::Password, &pre, base + 86393 * G, &(if thorough { alpha_of(&[0, G, 3 * G, 4 * G], &[None]) } else { alpha_of(&[G, 3 * G, 4 * G], &[None]) }), len);
    // TOTP with a 3 s step and with the default 30 s step near a step boundary
    exhaustive(sink, "xh_totp3", Pol::Totp(3), &[], base + h, &a_half, len_deep);
    exhaustive(sink, "xh_totp30_stepend", Pol::Totp(30), &[], base + 28 * G - h, &a_half, len);
    exhaustive(sink, "xh_webauthn", Pol::Webauthn, &[], base + 10 * G, &a_half, len - 1);
    exhaustive(sink, "xh_unrestricted", Pol::Unrestricted, &[], base + 10 * G, &a_half, 3);
    // administrator expiry in the alphabet
    let t0 = base + 5000 * G;
    let a_exp = alpha_of(&[0, G + h], &[None, Some(t0 + G), Some(t0 + 100 * G)]);
    exhaustive(sink, "xh_password_expiry", Pol::Password, &[], t0, &a_exp, if thorough { 4 } else { 3 });
    exhaustive(sink, "xh_totp30_expiry", Pol::Totp(30), &[], t0, &a_exp, if thorough { 3 } else { 2 });
}

/// one random long history; `peek` gives the current lock state so that the generator can
/// aim just after the unlock time
fn random_history(rng: &mut Rng, pol: Pol, n: usize, flavour: u64) -> (Vec<Ev>, Vec<Obs>) {
    let whole = rng.chance(1, 2);
    let w = pol.window();
    let day = rng.range(19_000, 20_500);
    let mut t = day * DAY * G
        + if rng.chance(1, 3) { (DAY - rng.range(1, 1500)) * G } else { rng.below(DAY) * G };
    if let Pol::Totp(s) = pol {
        t = t - (t / G % s) * G + rng.below(s) * G;
    }
    let mut l = HookSoftLock::new(pol.real());
    let mut evs = vec![];
    let mut obs = vec![];
    let mut expiry: Option<u64> = None;
    for _ in 0..n {
        let (s, _) = st_of(&l.peek());
        let jit = if whole { *rng.pick(&[0, G]) } else { *rng.pick(&[1, 1, G / 3, G / 2, G - 1, G]) };
        match rng.below(20) {
            0..=11 => {
                // just after (or exactly at) the unlock time
                let target = if s.0 == 1 { s.3 } else { t };
                let nt = target + if rng.chance(1, 8) { 0 } else { jit.max(1) };
                t = t.max(nt);
            }
            12..=14 => t += if whole { rng.below(3) * G } else { rng.below(2 * G) },
            15..=16 => {}
            17 => t += rng.below(w.min(7200) * G + 1),
            18 => {
                // to the window end and a little beyond
                let end = (t / G / w + 1) * w * G;
                t = end + *rng.pick(&[0, 0, 1, G / 2, G, 2 * G]) - if rng.chance(1, 3) { G } else { 0 };
            }
            _ => {
                if flavour == 1 && t > 5 * G {
                    t -= rng.below(3 * G); // clock regression
                } else {
                    t += jit;
                }
            }
        }
        if whole {
            t -= t % G;
        }
        if flavour == 2 && rng.chance(1, 15) {
            let e = match rng.below(3) {
                0 => t - (t % G),
                1 => t - (t % G) + rng.range(1, 20) * G,
                _ => (t - (t % G)).saturating_sub(rng.range(1, 20) * G),
            };
            expiry = Some(e);
        }
        let e = Ev { ct: t, exp: if flavour == 2 && rng.chance(2, 3) { expiry } else { None }, bad: rng.chance(17, 20) };
        obs.push(consult(&mut l, &e));
        evs.push(e);
    }
    (evs, obs)
}

fn gen_random(sink: &mut Sink, rng: &mut Rng, thorough: bool) {
    let n_pw = if thorough { 200 } else { 24 };
    for i in 0..n_pw {
        let flavour = match i % 10 { 8 => 1, 9 => 2, _ => 0 };
        let n = rng.range(130, 230) as usize;
        let (evs, obs) = random_history(rng, Pol::Password, n, flavour);
        emit_events(sink, 0, ["rnd_password", "rnd_password_regress", "rnd_password_expiry"][flavour as usize], Pol::Password, &evs, &obs);
    }
    let n_totp = if thorough { 1500 } else { 150 };
    for i in 0..n_totp {
        let flavour = match i % 10 { 8 => 1, 9 => 2, _ => 0 };
        let step = *rng.pick(&[30u64, 30, 30, 60, 5, 2, 1]);
        let n = rng.range(10, 60) as usize;
        let (evs, obs) = random_history(rng, Pol::Totp(step), n, flavour);
        emit_events(sink, 0, ["rnd_totp", "rnd_totp_regress", "rnd_totp_expiry"][flavour as usize], Pol::Totp(step), &evs, &obs);
    }
    let n_other = if thorough { 300 } else { 60 };
    for i in 0..n_other {
        let pol = if i % 2 == 0 { Pol::Webauthn } else { Pol::Unrestricted };
        let n = rng.range(5, 30) as usize;
        let (evs, obs) = random_history(rng, pol, n, 0);
        emit_events(sink, 0, "rnd_other", pol, &evs, &obs);
    }
}

// ------------------------------------------------------------------ CEvents, sources 1-3: the real server
#[derive(Clone, Copy, PartialEq, Eq, Debug)]
enum Path {
    Auth,
    Unix,
    /// password + one TOTP (30 s)
    Totp,
    /// password + TOTPs (60 s and 30 s) + a security key + backup codes
    TotpKey,
}
impl Path {
    fn is_totp(self) -> bool {
        matches!(self, Path::Totp | Path::TotpKey)
    }
}

/// shape of a credential as the model sees it
#[derive(Clone, Debug)]
enum Shape {
    Password,
    Generated,
    Mfa(Vec<u64>, u64, bool),
    Passkey(u64),
}
impl Shape {
    fn coq(&self) -> String {
        match self {
            Shape::Password => "SPassword".into(),
            Shape::Generated => "SGenerated".into(),
            Shape::Mfa(steps, keys, b) => capp("SMfa", &[clist(steps, |x| cn(*x)), cn(*keys), cbool(*b)]),
            Shape::Passkey(n) => capp("SPasskey", &[cn(*n)]),
        }
    }
    fn real(&self, rng: &mut Rng) -> (hook::CredShape, Vec<Totp>) {
        match self {
            Shape::Password => (hook::CredShape::Password, vec![]),
            Shape::Generated => (hook::CredShape::GeneratedPassword, vec![]),
            Shape::Mfa(steps, keys, b) => {
                let totps: Vec<Totp> = steps.iter().map(|st| Totp::new(rng.bytes(24), *st, TotpAlgo::Sha256, TotpDigits::Six)).collect();
                let named = totps.iter().enumerate().map(|(i, t)| (format!("t{}", i), t.clone())).collect();
                (hook::CredShape::PasswordMfa { totps: named, security_keys: *keys as usize, backup_codes: *b }, totps)
            }
            Shape::Passkey(n) => (hook::CredShape::Passkey(*n as usize), vec![]),
        }
    }
    /// the policy the property REQUIRES for the factors offered (not what the code selects)
    fn required(&self) -> Pol {
        match self {
            Shape::Password | Shape::Generated => Pol::Password,
            Shape::Mfa(steps, keys, _) => match steps.iter().min() {
                Some(m) => Pol::Totp(*m),
                None => if *keys > 0 { Pol::Webauthn } else { Pol::Password },
            },
            Shape::Passkey(_) => Pol::Webauthn,
        }
    }
}

struct Person {
    uuid: Uuid,
    name: String,
    cred_id: Uuid,
    pol: Pol,
    shape: Shape,
    totps: Vec<Totp>,
}

impl Person {
    fn steps(&self) -> Vec<u64> {
        match &self.shape {
            Shape::Mfa(steps, _, _) => steps.clone(),
            _ => vec![],
        }
    }
}

fn cai() -> ClientAuthInfo {
    ClientAuthInfo::new(Source::Internal, None, None, None)
}

async fn mk_person(idms: &IdmServer, n: u64, path: Path, rng: &mut Rng) -> Person {
    let shape = match path {
        Path::Totp => Shape::Mfa(vec![30], 0, false),
        Path::TotpKey => Shape::Mfa(vec![60, 30], 1, true),
        _ => Shape::Password,
    };
    let (real_shape, totps) = shape.real(rng);
    let cred = hook::cred_of_shape(&real_shape, PW_GOOD);
    let cred_id = hook::cred_uuid(&cred);
    // the lock must behave as the policy REQUIRED for the credential's factors
    let pol = shape.required();
    let uuid = Uuid::from_u128(0xc28c_28c2_0000_0000_0000_0000_0000_0000u128 + n as u128);
    let name = format!("c28person{}", n);
    let mut e: Entry<EntryInit, EntryNew> = kanidmd_lib::entry_init!(
        (Attribute::Class, EntryClass::Object.to_value()),
        (Attribute::Class, EntryClass::Account.to_value()),
        (Attribute::Class, EntryClass::Person.to_value()),
        (Attribute::Name, Value::new_iname(&name)),
        (Attribute::Uuid, Value::Uuid(uuid)),
        (Attribute::Description, Value::new_utf8s(&name)),
        (Attribute::DisplayName, Value::new_utf8s(&name))
    );
    if path == Path::Unix {
        e.add_ava(Attribute::Class, EntryClass::PosixAccount.to_value());
        e.add_ava(Attribute::GidNumber, Value::new_uint32(20_000 + n as u32));
        e.add_ava(Attribute::UnixPassword, Value::new_credential("unix", cred));
    } else {
        e.add_ava(Attribute::PrimaryCredential, Value::new_credential("primary", cred));
    }
    let mut w = idms.proxy_write(duration_from_epoch_now()).await.expect("proxy_write");
    w.qs_write.internal_create(vec![e]).expect("create person");
    w.commit().expect("commit");
    Person { uuid, name, cred_id, pol, shape, totps }
}

async fn set_expiry(idms: &IdmServer, who: &Person, e_secs: u64) {
    let mut w = idms.proxy_write(duration_from_epoch_now()).await.expect("proxy_write");
    let ml = ModifyList::new_purge_and_set(Attribute::AccountSoftlockExpire, Value::new_datetime_epoch(Duration::from_secs(e_secs)));
    w.qs_write.internal_modify_uuid(who.uuid, &ml).expect("set expiry");
    w.commit().expect("commit");
}

async fn peek(idms: &IdmServer, who: &Person) -> (St, u64) {
    let a = idms.auth().await.expect("auth txn");
    match hook::server_softlock_peek(&a, who.cred_id) {
        Some(h) => st_of(&h),
        None => ((0, 0, 0, 0), 0),
    }
}

#[derive(Clone, Copy, PartialEq, Eq, Debug)]
enum Stage {
    AwaitPw,
    AwaitTotp,
}

struct Driver<'a> {
    idms: &'a IdmServer,
    who: Person,
    path: Path,
    expiry: Option<u64>, // seconds; what the account entry currently carries
    open: Vec<(Uuid, Stage)>,
    init_n: u64,
    evs: Vec<Ev>,
    obs: Vec<Obs>,
}

impl Driver<'_> {
    async fn record(&mut self, ct: u64, exp: Option<u64>, bad: bool, o: Out) {
        let (s, le) = peek(self.idms, &self.who).await;
        self.evs.push(Ev { ct, exp, bad });
        self.obs.push((o, s, le));
    }

    /// auth Init (does not consult the lock) + Begin (consults it with the account's expiry)
    async fn begin(&mut self, ct: u64) {
        let mut a = self.idms.auth().await.expect("auth txn");
        self.init_n += 1;
        let t_init = Duration::from_secs(1_000) + Duration::from_nanos(self.init_n);
        let init = AuthEvent::from_message(
            None,
            AuthStep::Init2 { username: self.who.name.clone(), issue: AuthIssueSession::Token, privileged: false }.into(),
        )
        .expect("init ev");
        let r = a.auth(&init, t_init, cai()).await.expect("init");
        let sid = r.sessionid;
        assert!(matches!(r.state, AuthState::Choose(_)), "init: {:?}", r.state);
        let mech = if self.path.is_totp() { AuthMech::PasswordTotp } else { AuthMech::Password };
        let begin = AuthEvent::from_message(Some(sid), AuthStep::Begin(mech).into()).expect("begin ev");
        let r = a.auth(&begin, d(ct), cai()).await.expect("begin");
        let o = match r.state {
            AuthState::Continue(_) => {
                self.open.push((sid, if self.path.is_totp() { Stage::AwaitTotp } else { Stage::AwaitPw }));
                Out::Passed
            }
            AuthState::Denied(ref why) if why == "Account is temporarily locked" => Out::Refused,
            ref s => panic!("unexpected begin state {:?}", s),
        };
        drop(a);
        // the expiry Begin used is the one the account carried when the session was initialised
        let exp = self.expiry.map(|e| e * G);
        self.record(ct, exp, false, o).await;
    }

    /// one credential step on open session `i`
    async fn cred(&mut self, i: usize, ct: u64, bad: bool) {
        let (sid, stage) = self.open[i];
        let cred = match stage {
            Stage::AwaitPw => AuthCredential::Password(if bad { PW_BAD } else { PW_GOOD }.to_string()),
            Stage::AwaitTotp => {
                // the right code of the 30 s TOTP; a wrong code differs from the current and previous
                // code of every TOTP of the credential
                let main = self.who.totps.last().expect("totp");
                let good = main.do_totp_duration_from_epoch(&d(ct)).expect("totp now");
                let mut taken = vec![];
                for (t, st) in self.who.totps.iter().zip(self.who.steps().iter()) {
                    taken.push(t.do_totp_duration_from_epoch(&d(ct)).expect("totp now"));
                    taken.push(t.do_totp_duration_from_epoch(&d(ct.saturating_sub(st * G))).expect("totp prev"));
                }
                let mut wrong = (good + 1) % 1_000_000;
                while taken.contains(&wrong) {
                    wrong = (wrong + 1) % 1_000_000;
                }
                AuthCredential::Totp(if bad { wrong } else { good })
            }
        };
        let mut a = self.idms.auth().await.expect("auth txn");
        let step = AuthEvent::from_message(Some(sid), AuthStep::Cred(cred).into()).expect("cred ev");
        let r = a.auth(&step, d(ct), cai()).await.expect("cred");
        drop(a);
        let o = match r.state {
            AuthState::Success(..) => {
                self.open.remove(i);
                Out::Passed
            }
            AuthState::Continue(_) => {
                self.open[i].1 = Stage::AwaitPw;
                Out::Passed
            }
            AuthState::Denied(ref why) if why == "Account is temporarily locked" => {
                self.open.remove(i);
                Out::Refused
            }
            AuthState::Denied(_) => {
                self.open.remove(i);
                Out::Failed
            }
            ref s => panic!("unexpected cred state {:?}", s),
        };
        if !bad {
            assert!(o != Out::Failed, "a correct credential was denied");
        }
        self.record(ct, None, bad, o).await;
    }

    async fn unix(&mut self, ct: u64, bad: bool) {
        let (before, _) = peek(self.idms, &self.who).await;
        let mut a = self.idms.auth().await.expect("auth txn");
        let uae = hook::unix_auth_event(self.who.uuid, if bad { PW_BAD } else { PW_GOOD });
        let r = a.auth_unix(&uae, d(ct)).await.expect("auth_unix");
        drop(a);
        let (after, _) = peek(self.idms, &self.who).await;
        let o = match r {
            Some(_) => Out::Passed,
            // auth_unix answers None both when it refuses and when the password is wrong; a recorded
            // failure is recognised by the server's lock having been re-armed with a new unlock time
            None => {
                if bad && after.0 == 1 && (before.0 != 1 || (before.1, before.3) != (after.1, after.3)) {
                    Out::Failed
                } else {
                    Out::Refused
                }
            }
        };
        let exp = self.expiry.map(|e| e * G);
        self.record(ct, exp, bad, o).await;
    }
}

async fn server_history(idms: &IdmServer, rng: &mut Rng, n_person: u64, path: Path, n: usize, scripted_cap: bool) -> (Pol, Option<Shape>, Vec<Ev>, Vec<Obs>) {
    let who = mk_person(idms, n_person, path, rng).await;
    let pol = who.pol;
    let w = pol.window();
    let mut dr = Driver { idms, who, path, expiry: None, open: vec![], init_n: n_person * 1_000_000, evs: vec![], obs: vec![] };
    let whole = rng.chance(1, 2);
    let day = rng.range(19_000, 20_500);
    let mut t = day * DAY * G + if rng.chance(1, 2) { (DAY - rng.range(1, 40)) * G } else { rng.below(DAY) * G };
    if let Pol::Totp(s) = pol {
        t = t - (t / G % s) * G + rng.below(s) * G;
    }
    let with_expiry = !scripted_cap && rng.chance(1, 4);
    while dr.evs.len() < n {
        let (s, _) = peek(idms, &dr.who).await;
        let jit = if whole { *rng.pick(&[0, G]) } else { *rng.pick(&[1, G / 3, G / 2, G - 1, G]) };
        if scripted_cap {
            // climb to the cap as fast as the lock allows, every attempt wrong
            let target = if s.0 == 1 { s.3 + 1 } else { t };
            t = t.max(target);
        } else {
            match rng.below(10) {
                0..=5 => {
                    let target = if s.0 == 1 { s.3 } else { t };
                    t = t.max(target + if rng.chance(1, 8) { 0 } else { jit.max(1) });
                }
                6..=7 => t += if whole { rng.below(3) * G } else { rng.below(2 * G) },
                8 => {}
                _ => {
                    let end = (t / G / w + 1) * w * G;
                    t = end + *rng.pick(&[0, 1, G / 2, G, 2 * G]) - if rng.chance(1, 3) { G } else { 0 };
                }
            }
            if whole {
                t -= t % G;
            }
        }
        if with_expiry && rng.chance(1, 8) {
            let e = (t / G + rng.range(0, 6)).saturating_sub(rng.range(0, 6));
            set_expiry(idms, &dr.who, e).await;
            dr.expiry = Some(e);
        }
        let bad = scripted_cap || rng.chance(3, 4);
        if path == Path::Unix && s.0 == 1 && s.1 == 1 && [1u64, 3, 5, 10].iter().any(|dl| t + dl * G == s.3) {
            // auth_unix answers None for "refused" and for "wrong password" alike; the harness tells them
            // apart by the lock being re-armed, so avoid the one instant at which a lock re-armed after an
            // administrator reset would be identical to the previous one
            t += 7;
        }
        match path {
            Path::Unix => dr.unix(t, bad).await,
            _ => {
                if dr.open.is_empty() || (!scripted_cap && rng.chance(1, 4)) {
                    dr.begin(t).await;
                } else {
                    let i = rng.below(dr.open.len() as u64) as usize;
                    dr.cred(i, t, bad).await;
                }
            }
        }
    }
    let shape = if path.is_totp() { Some(dr.who.shape.clone()) } else { None };
    (pol, shape, dr.evs, dr.obs)
}

async fn gen_server(sink: &mut Sink, rng: &mut Rng, thorough: bool) {
    let (idms, _delayed, _audit) = setup_idm_test(TestConfiguration::default()).await;
    let mut person = 0u64;
    let reps = if thorough { 40 } else { 8 };
    for (path, src, tag) in [
        (Path::Auth, 1u64, "srv_auth_password"),
        (Path::Unix, 2, "srv_auth_unix"),
        (Path::Totp, 3, "srv_auth_totp"),
        (Path::TotpKey, 4, "srv_auth_totp_seckey"),
    ] {
        for _ in 0..reps {
            person += 1;
            let n = rng.range(10, 24) as usize;
            let (pol, shape, evs, obs) = server_history(&idms, rng, person, path, n, false).await;
            emit_events_shape(sink, src, tag, pol, shape.as_ref(), &evs, &obs);
        }
    }
    // the day-end scenario of C28_prefix_refuted on the real server: 3 failures, a 4th 2 s before midnight
    // UTC (unlock_at 1 s after midnight), then the RIGHT password 0.5 s and 1 s after midnight: it must be
    // refused both times (before /repo commit 5cd0e73 it was accepted)
    for (path, src, tag) in [(Path::Unix, 2u64, "srv_unix_dayend"), (Path::Auth, 1, "srv_auth_dayend")] {
        person += 1;
        let who = mk_person(&idms, person, path, rng).await;
        let pol = who.pol;
        let mut dr = Driver { idms: &idms, who, path, expiry: None, open: vec![], init_n: person * 1_000_000, evs: vec![], obs: vec![] };
        let day = 19_800 * DAY * G;
        for (off, bad) in [(DAY * G - 20 * G, true), (DAY * G - 18 * G, true), (DAY * G - 16 * G, true), (DAY * G - 2 * G, true), (DAY * G + G / 2, false), (DAY * G + G, false)] {
            let t = day + off;
            if path == Path::Unix {
                dr.unix(t, bad).await;
            } else {
                dr.begin(t).await;
                if !dr.open.is_empty() {
                    dr.cred(0, t, bad).await;
                }
            }
        }
        emit_events(sink, src, tag, pol, &dr.evs, &dr.obs);
    }
    // drive the real server to the cap: > 100 wrong passwords in one day, > 3 wrong TOTPs in one step
    person += 1;
    let (pol, _, evs, obs) = server_history(&idms, rng, person, Path::Unix, 125, true).await;
    emit_events(sink, 2, "srv_unix_to_cap", pol, &evs, &obs);
    for (path, src, tag) in [(Path::Totp, 3u64, "srv_totp_to_cap"), (Path::TotpKey, 4, "srv_totp_seckey_to_cap")] {
        person += 1;
        let (pol, shape, evs, obs) = server_history(&idms, rng, person, path, 14, true).await;
        emit_events_shape(sink, src, tag, pol, shape.as_ref(), &evs, &obs);
    }
    if thorough {
        person += 1;
        let (pol, _, evs, obs) = server_history(&idms, rng, person, Path::Auth, 230, true).await;
        emit_events(sink, 1, "srv_auth_to_cap", pol, &evs, &obs);
    }
}

// ------------------------------------------------------------------ CPolicy: the real softlock_policy()
fn gen_policy(sink: &mut Sink, rng: &mut Rng) {
    let mut shapes = vec![Shape::Password, Shape::Generated, Shape::Passkey(0), Shape::Passkey(1), Shape::Passkey(3)];
    let step_sets: Vec<Vec<u64>> = vec![vec![], vec![30], vec![60], vec![1], vec![60, 30], vec![30, 60], vec![45, 45], vec![90, 30, 60], vec![120, 90, 5, 60]];
    for steps in &step_sets {
        for keys in [0u64, 1, 2] {
            for b in [false, true] {
                shapes.push(Shape::Mfa(steps.clone(), keys, b));
            }
        }
    }
    for sh in &shapes {
        let (real_shape, _) = sh.real(rng);
        let cred = hook::cred_of_shape(&real_shape, PW_GOOD);
        let got = Pol::of_real(&hook::cred_softlock_policy(&cred));
        sink.bump("policy");
        if matches!(sh, Shape::Mfa(st, k, _) if !st.is_empty() && *k > 0) {
            sink.bump("policy_totp_with_security_key");
        }
        put(
            capp("CPolicy", &[sh.coq(), got.coq()]),
            format!("policy credential={:?} -> {} (required {})", sh, got.txt(), sh.required().txt()),
            matches!(sh, Shape::Mfa(..)),
        );
    }
}

fn main() {
    let args = parse_args();
    let mut rng = Rng::new(args.seed);
    let mut sink = Sink::new(&args, "KV.C28.Model", 900);
    sink.rule = "CPolicy: the real Credential::softlock_policy() on every credential shape (password, generated password, passkeys, PasswordMfa with 0-4 TOTPs of various steps x 0-2 security keys x backup codes). CNext: failure_next_state on the boundary grid (policies x counts at every threshold x instants around second/step/day ends, sub-second offsets). \
CRaw: every single raw transition from a grid of lock states (all three kinds, counts at thresholds, unlock/reset before/at/after T, consumed or new expiry) plus random 2-5 op sequences. \
CEvents src 0: the consultation discipline on a real CredSoftLock — ALL words of length 4 over {advance 0,1,1.5 s} (quick) / length 4-5 over {0,0.5,1,1.5 s} (thorough) x {wrong,right} near a day end / step end for every policy, with 3 s delays, and with administrator expiries in the alphabet; random long histories (130-230 consultations for passwords so that the 100/day cap is reached, 10-60 for TOTP) that aim just after each unlock time, over real time scales, incl. clock regressions and expiries. \
CEvents src 1/2 and CShapeEvents src 3/4: a real IdmServer (auth Init/Begin/Cred with interleaved sessions, auth_unix, password+TOTP, password+two TOTPs+security key+backup codes through the PasswordTotp mechanism; the lock is required to behave as the policy demanded by the credential's factors) at harness-chosen times with wrong and right credentials, administrator expiry set on the entry, lock read back after every call; one scripted run per path to the cap. \
non-trivial = (CPolicy) an MFA credential; (CEvents/CShapeEvents) at least one failure was recorded AND at least one consultation was refused; (CNext) a lock was produced; (CRaw) the state changed.".into();
    gen_policy(&mut sink, &mut rng);
    gen_next(&mut sink, args.thorough);
    gen_raw(&mut sink, &mut rng, args.thorough);
    gen_exhaustive(&mut sink, args.thorough);
    gen_random(&mut sink, &mut rng, args.thorough);
    let rt = tokio::runtime::Builder::new_current_thread().enable_all().build().expect("rt");
    rt.block_on(gen_server(&mut sink, &mut rng, args.thorough));
    let all = BUF.with(|b| std::mem::take(&mut *b.borrow_mut()));
    let (long, short): (Vec<_>, Vec<_>) = all.into_iter().partition(|c| c.0.len() > 4000);
    let every = short.len() / (long.len() + 1) + 1;
    let mut long = long.into_iter();
    for (i, c) in short.into_iter().enumerate() {
        if i % every == 0 {
            if let Some(l) = long.next() {
                sink.case(l.0, l.1, l.2);
            }
        }
        sink.case(c.0, c.1, c.2);
    }
    for l in long {
        sink.case(l.0, l.1, l.2);
    }
    sink.finish();
}
