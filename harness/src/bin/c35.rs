//! C35 — account policy resolution (ResolvedAccountPolicy::fold_from, entry -> AccountPolicy defaults,
//! load_account_policy) vs the Coq model KV.C35.Model and the executable property.
use kanidmd_lib::entry::{Entry, EntryInit, EntryNew, EntrySealedCommitted};
use kanidmd_lib::modify::{m_pres, m_purge, m_remove};
use kanidmd_lib::prelude::*;
use kanidmd_lib::testkit::{setup_test, TestConfiguration};
use kanidmd_lib::value::CredentialType;
use kanidmd_lib::verif_hooks::c35::{
    build_ca_list, fold_from, load_policy, policy_from_entry, read_ca_list, HookCa, HookPolicy, HookResolved,
};
use kvh::*;
use std::collections::{BTreeMap, BTreeSet};

// ------------------------------------------------------------------ printing
fn label_n(s: &str) -> u64 {
    // labels are decimal strings chosen by this harness; anything else (never expected) -> 999999
    s.parse::<u64>().unwrap_or(999_999)
}
fn c_ca(c: &HookCa) -> String {
    let devs: Vec<String> = c.devs.iter().map(|(g, l)| format!("({}, {})", cn128(*g), cn(label_n(l)))).collect();
    format!("({}, mkca {} {})", cn(c.kid as u64), cbool(c.blanket), clist_s(&devs))
}
fn c_cal(c: &Option<Vec<HookCa>>) -> String {
    copt(c, |v| clist(v, c_ca))
}
fn c_on(o: &Option<u64>) -> String {
    copt(o, |x| cn(*x))
}
fn c_ob(o: &Option<bool>) -> String {
    copt(o, |x| cbool(*x))
}
fn c_pol(p: &HookPolicy) -> String {
    capp(
        "mkpol",
        &[
            cn(p.privilege_expiry as u64),
            cn(p.authsession_expiry as u64),
            cn(p.pw_min_length as u64),
            cn(p.credential_policy as u64),
            c_cal(&p.ca),
            c_on(&p.limit_search_max_filter_test),
            c_on(&p.limit_search_max_results),
            c_ob(&p.allow_primary_cred_fallback),
        ],
    )
}
fn c_res(r: &HookResolved) -> String {
    capp(
        "mkres",
        &[
            cn(r.privilege_expiry as u64),
            cn(r.authsession_expiry as u64),
            cn(r.pw_min_length as u64),
            cn(r.pw_max_length as u64),
            cn(r.credential_policy as u64),
            c_cal(&r.ca),
            c_on(&r.limit_search_max_filter_test),
            c_on(&r.limit_search_max_results),
            c_ob(&r.allow_primary_cred_fallback),
        ],
    )
}
fn t_cal(c: &Option<Vec<HookCa>>) -> String {
    match c {
        None => "-".into(),
        Some(v) => {
            let parts: Vec<String> = v
                .iter()
                .map(|c| {
                    let d: Vec<String> = c.devs.iter().map(|(g, l)| format!("{}:{}", g, l)).collect();
                    format!("k{}{}[{}]", c.kid, if c.blanket { "*" } else { "" }, d.join(","))
                })
                .collect();
            format!("{{{}}}", parts.join(" "))
        }
    }
}
fn t_o<T: std::fmt::Display>(o: &Option<T>) -> String {
    match o {
        None => "-".into(),
        Some(x) => x.to_string(),
    }
}
fn t_pol(p: &HookPolicy) -> String {
    format!(
        "(priv={} sess={} pwmin={} cred={} ca={} lft={} lres={} fb={})",
        p.privilege_expiry,
        p.authsession_expiry,
        p.pw_min_length,
        p.credential_policy,
        t_cal(&p.ca),
        t_o(&p.limit_search_max_filter_test),
        t_o(&p.limit_search_max_results),
        t_o(&p.allow_primary_cred_fallback)
    )
}
fn t_res(r: &HookResolved) -> String {
    format!(
        "(priv={} sess={} pwmin={} pwmax={} cred={} ca={} lft={} lres={} fb={})",
        r.privilege_expiry,
        r.authsession_expiry,
        r.pw_min_length,
        r.pw_max_length,
        r.credential_policy,
        t_cal(&r.ca),
        t_o(&r.limit_search_max_filter_test),
        t_o(&r.limit_search_max_results),
        t_o(&r.allow_primary_cred_fallback)
    )
}

// ------------------------------------------------------------------ generators
const CREDS: [u16; 7] = [0, 5, 10, 20, 30, 40, 65535];

fn gen_ca_list(rng: &mut Rng) -> Vec<HookCa> {
    // kids from a pool of 3, aaguids from a pool of 4, labels from a pool of 2 (so that the same
    // device can carry different descriptions in different groups)
    let mut v = vec![];
    for kid in 1..=3u8 {
        if !rng.chance(2, 3) {
            continue;
        }
        let blanket = rng.chance(1, 4);
        let mut devs = vec![];
        // an empty listing CA and a blanket CA with left-over aaguids are both representable
        let p_dev = if blanket { 1 } else { *rng.pick(&[0u64, 2, 3, 4]) };
        for g in 1..=4u128 {
            if rng.below(5) < p_dev {
                devs.push((g, rng.range(1, 2).to_string()));
            }
        }
        v.push(HookCa { kid, blanket, devs });
    }
    v
}
fn gen_u32(rng: &mut Rng, boundaries: &[u32]) -> u32 {
    match rng.below(10) {
        0..=5 => *rng.pick(boundaries),
        6 | 7 => rng.below(40) as u32,
        8 => rng.below(5000) as u32,
        _ => rng.next() as u32,
    }
}
fn gen_lim(rng: &mut Rng) -> Option<u64> {
    if rng.chance(2, 5) {
        None
    } else {
        Some(*rng.pick(&[0u64, 1, 5, 10, 15, 1024, u32::MAX as u64]))
    }
}
/// `low`: a group that leaves second factors optional and asks for a short password (so that the
/// single factor bump decides the outcome when all groups of a multiset are like this)
fn gen_policy(rng: &mut Rng, all_creds: bool, low: bool) -> HookPolicy {
    let creds: &[u16] = if low {
        &CREDS[..2]
    } else if all_creds {
        &CREDS
    } else {
        &CREDS[..6]
    };
    HookPolicy {
        privilege_expiry: gen_u32(rng, &[0, 1, 100, 3599, 3600, 3601, u32::MAX]),
        authsession_expiry: gen_u32(rng, &[0, 1, 50, 3600, u32::MAX - 1, u32::MAX]),
        pw_min_length: if low {
            *rng.pick(&[0, 9, 10, 11, 14, 15, 16])
        } else {
            gen_u32(rng, &[0, 9, 10, 11, 14, 15, 16, 128, 129, u32::MAX])
        },
        credential_policy: *rng.pick(creds),
        ca: if rng.chance(2, 5) { None } else { Some(gen_ca_list(rng)) },
        limit_search_max_filter_test: gen_lim(rng),
        limit_search_max_results: gen_lim(rng),
        allow_primary_cred_fallback: if rng.chance(1, 2) { None } else { Some(rng.chance(1, 2)) },
    }
}

fn permutations(n: usize) -> Vec<Vec<usize>> {
    fn go(cur: &mut Vec<usize>, used: &mut Vec<bool>, n: usize, out: &mut Vec<Vec<usize>>) {
        if cur.len() == n {
            out.push(cur.clone());
            return;
        }
        for i in 0..n {
            if !used[i] {
                used[i] = true;
                cur.push(i);
                go(cur, used, n, out);
                cur.pop();
                used[i] = false;
            }
        }
    }
    let mut out = vec![];
    go(&mut vec![], &mut vec![false; n], n, &mut out);
    out
}

/// run the real fold on every distinct rearrangement of `base` and record one case per rearrangement
fn emit_multiset(sink: &mut Sink, base: &[HookPolicy], empty: &HookResolved) -> u64 {
    let o = fold_from(base);
    let cl = clist(base, c_pol);
    let tl: Vec<String> = base.iter().map(t_pol).collect();
    let mut seen = BTreeSet::new();
    let mut structural_diffs = 0;
    for perm in permutations(base.len()) {
        let l2: Vec<HookPolicy> = perm.iter().map(|i| base[*i].clone()).collect();
        let cl2 = clist(&l2, c_pol);
        if !seen.insert(cl2.clone()) {
            continue;
        }
        let o2 = fold_from(&l2);
        if o2 != o {
            structural_diffs += 1;
            sink.bump("fold_perm_structurally_different_ca_labels");
        }
        let rearranged = cl2 != cl;
        let nontrivial = base.len() >= 2 && rearranged && o != *empty;
        sink.bump(&format!("fold_size_{}", base.len()));
        if o.ca.as_ref().map(|c| !c.is_empty()).unwrap_or(false) {
            sink.bump("fold_result_has_nonempty_ca_list");
        }
        if o.credential_policy < 10 && base.iter().all(|p| p.pw_min_length < 15) {
            sink.bump("fold_sfa_bump_applies");
        }
        let ps: Vec<String> = perm.iter().map(|i| i.to_string()).collect();
        sink.case(
            capp("CFold", &[cl.clone(), cl2, c_res(&o), c_res(&o2)]),
            format!("fold [{}] order [{}] -> base {} ; this order {}", tl.join(" "), ps.join(""), t_res(&o), t_res(&o2)),
            nontrivial,
        );
    }
    structural_diffs
}

// ------------------------------------------------------------------ real server part
#[derive(Clone, Debug, Default)]
struct GroupAttrs {
    class: bool,
    sess: Option<u32>,
    privx: Option<u32>,
    pwmin: Option<u32>,
    cred: Option<u16>,
    ca: Option<Vec<HookCa>>,
    lres: Option<u32>,
    lft: Option<u32>,
    fb: Option<bool>,
}
fn c_o32(o: &Option<u32>) -> String {
    copt(o, |x| cn(*x as u64))
}
fn c_eattrs(g: &GroupAttrs) -> String {
    capp(
        "mkea",
        &[
            cbool(g.class),
            c_o32(&g.sess),
            c_o32(&g.privx),
            c_o32(&g.pwmin),
            copt(&g.cred, |x| cn(*x as u64)),
            c_cal(&g.ca),
            c_o32(&g.lres),
            c_o32(&g.lft),
            c_ob(&g.fb),
        ],
    )
}
fn t_eattrs(g: &GroupAttrs) -> String {
    if !g.class {
        return "(no-policy-class)".into();
    }
    format!(
        "(sess={} priv={} pwmin={} cred={} ca={} lres={} lft={} fb={})",
        t_o(&g.sess),
        t_o(&g.privx),
        t_o(&g.pwmin),
        t_o(&g.cred),
        t_cal(&g.ca),
        t_o(&g.lres),
        t_o(&g.lft),
        t_o(&g.fb)
    )
}
fn gen_group(rng: &mut Rng) -> GroupAttrs {
    if rng.chance(1, 6) {
        return GroupAttrs::default();
    }
    if rng.chance(1, 10) {
        // a policy group that sets nothing
        return GroupAttrs { class: true, ..Default::default() };
    }
    let low = rng.chance(1, 3);
    let p = gen_policy(rng, false, low);
    let keep = |rng: &mut Rng| rng.chance(3, 5);
    GroupAttrs {
        class: true,
        sess: if keep(rng) { Some(p.authsession_expiry) } else { None },
        privx: if keep(rng) { Some(p.privilege_expiry) } else { None },
        pwmin: if keep(rng) { Some(p.pw_min_length) } else { None },
        cred: if keep(rng) { Some(p.credential_policy) } else { None },
        ca: p.ca,
        lres: p.limit_search_max_results.map(|x| x as u32),
        lft: p.limit_search_max_filter_test.map(|x| x as u32),
        fb: p.allow_primary_cred_fallback,
    }
}
/// what an unknown (builtin) group entry carries, read attribute by attribute
fn read_group(e: &EntrySealedCommitted) -> GroupAttrs {
    GroupAttrs {
        class: e.attribute_equality(Attribute::Class, &EntryClass::AccountPolicy.to_partialvalue()),
        sess: e.get_ava_single_uint32(Attribute::AuthSessionExpiry),
        privx: e.get_ava_single_uint32(Attribute::PrivilegeExpiry),
        pwmin: e.get_ava_single_uint32(Attribute::AuthPasswordMinimumLength),
        cred: e.get_ava_single_credential_type(Attribute::CredentialTypeMinimum).map(|c| c as u16),
        ca: e.get_ava_webauthn_attestation_ca_list(Attribute::WebauthnAttestationCaList).map(read_ca_list),
        lres: e.get_ava_single_uint32(Attribute::LimitSearchMaxResults),
        lft: e.get_ava_single_uint32(Attribute::LimitSearchMaxFilterTest),
        fb: e.get_ava_single_bool(Attribute::AllowPrimaryCredFallback),
    }
}

const POLICY_ATTRS: [Attribute; 8] = [
    Attribute::AuthSessionExpiry,
    Attribute::PrivilegeExpiry,
    Attribute::AuthPasswordMinimumLength,
    Attribute::CredentialTypeMinimum,
    Attribute::WebauthnAttestationCaList,
    Attribute::LimitSearchMaxResults,
    Attribute::LimitSearchMaxFilterTest,
    Attribute::AllowPrimaryCredFallback,
];

async fn server_part(sink: &mut Sink, rng: &mut Rng, n_cases: u64, empty: &HookResolved) {
    const NG: usize = 4;
    let qs = setup_test(TestConfiguration::default()).await;
    let acct = Uuid::from_u128(0xC35_0000_0000_0000_0000_0000_0000_0001);
    let guuid = |i: usize| Uuid::from_u128(0xC35_0000_0000_0000_0000_0000_0000_0100 + i as u128);
    let mut ct = 1_800_000_000u64;
    {
        let mut w = qs.write(Duration::from_secs(ct)).await.expect("write");
        let mut es: Vec<Entry<EntryInit, EntryNew>> = vec![kanidmd_lib::entry_init!(
            (Attribute::Class, EntryClass::Object.to_value()),
            (Attribute::Class, EntryClass::Account.to_value()),
            (Attribute::Class, EntryClass::Person.to_value()),
            (Attribute::Name, Value::new_iname("c35person")),
            (Attribute::Uuid, Value::Uuid(acct)),
            (Attribute::Description, Value::new_utf8s("c35")),
            (Attribute::DisplayName, Value::new_utf8s("c35"))
        )];
        for i in 0..NG {
            es.push(kanidmd_lib::entry_init!(
                (Attribute::Class, EntryClass::Object.to_value()),
                (Attribute::Class, EntryClass::Group.to_value()),
                (Attribute::Name, Value::new_iname(&format!("c35group{}", i))),
                (Attribute::Uuid, Value::Uuid(guuid(i)))
            ));
        }
        w.internal_create(es).expect("create");
        w.commit().expect("commit");
    }
    let mut seen_entry = BTreeSet::new();
    for _ in 0..n_cases {
        ct += 10;
        let groups: Vec<GroupAttrs> = (0..NG).map(|_| gen_group(rng)).collect();
        let member: Vec<bool> = (0..NG).map(|_| rng.chance(3, 4)).collect();
        let mut w = qs.write(Duration::from_secs(ct)).await.expect("write");
        let mut rejected = false;
        for i in 0..NG {
            let g = &groups[i];
            let mut mods = vec![m_purge(Attribute::Member)];
            for a in POLICY_ATTRS.iter() {
                mods.push(m_purge(a.clone()));
            }
            mods.push(m_remove(Attribute::Class, &EntryClass::AccountPolicy.to_partialvalue()));
            if g.class {
                mods.push(m_pres(Attribute::Class, &EntryClass::AccountPolicy.to_value()));
                if let Some(x) = g.sess {
                    mods.push(m_pres(Attribute::AuthSessionExpiry, &Value::Uint32(x)));
                }
                if let Some(x) = g.privx {
                    mods.push(m_pres(Attribute::PrivilegeExpiry, &Value::Uint32(x)));
                }
                if let Some(x) = g.pwmin {
                    mods.push(m_pres(Attribute::AuthPasswordMinimumLength, &Value::Uint32(x)));
                }
                if let Some(x) = g.cred {
                    let c = CredentialType::try_from(x).expect("cred type");
                    mods.push(m_pres(Attribute::CredentialTypeMinimum, &Value::CredentialType(c)));
                }
                if let Some(c) = &g.ca {
                    mods.push(m_pres(
                        Attribute::WebauthnAttestationCaList,
                        &Value::WebauthnAttestationCaList(build_ca_list(c)),
                    ));
                }
                if let Some(x) = g.lres {
                    mods.push(m_pres(Attribute::LimitSearchMaxResults, &Value::Uint32(x)));
                }
                if let Some(x) = g.lft {
                    mods.push(m_pres(Attribute::LimitSearchMaxFilterTest, &Value::Uint32(x)));
                }
                if let Some(x) = g.fb {
                    mods.push(m_pres(Attribute::AllowPrimaryCredFallback, &Value::Bool(x)));
                }
            }
            if member[i] {
                mods.push(m_pres(Attribute::Member, &Value::Refer(acct)));
            }
            if let Err(e) = w.internal_modify_uuid(guuid(i), &ModifyList::new_list(mods)) {
                eprintln!("c35: server rejected group modification: {:?} for {:?}", e, g);
                rejected = true;
                break;
            }
        }
        if rejected {
            sink.bump("server_rejected_group_write");
            drop(w);
            continue;
        }
        w.commit().expect("commit");

        let mut r = qs.read().await.expect("read");
        // the conversion of each of our group entries
        for i in 0..NG {
            let e = r.internal_search_uuid(guuid(i)).expect("group");
            let impl_pol = policy_from_entry(e.as_ref());
            let coq = capp("CEntry", &[c_eattrs(&groups[i]), copt(&impl_pol, c_pol)]);
            if seen_entry.insert(coq.clone()) {
                sink.bump(if groups[i].class { "entry_with_policy_class" } else { "entry_without_policy_class" });
                sink.case(
                    coq,
                    format!(
                        "entry {} -> {}",
                        t_eattrs(&groups[i]),
                        impl_pol.as_ref().map(t_pol).unwrap_or_else(|| "None".into())
                    ),
                    groups[i].class,
                );
            }
        }
        // the account: the same search that load_account_policy performs gives the groups in the
        // order in which the fold will see them
        let ae = r.internal_search_uuid(acct).expect("account");
        let mo: Vec<Uuid> = ae.get_ava_as_refuuid(Attribute::MemberOf).map(|i| i.collect()).unwrap_or_default();
        let f = kanidmd_lib::filter!(f_or(mo.iter().map(|u| f_eq(Attribute::Uuid, PartialValue::Uuid(*u))).collect()));
        let found = r.internal_search(f).expect("search");
        let ours: BTreeMap<Uuid, usize> = (0..NG).map(|i| (guuid(i), i)).collect();
        let mut seq = vec![];
        let mut n_ours = 0;
        for ge in found.iter() {
            match ours.get(&ge.get_uuid()) {
                Some(i) => {
                    assert!(member[*i], "account is memberof a group it was not added to");
                    n_ours += 1;
                    seq.push(groups[*i].clone());
                }
                None => seq.push(read_group(ge.as_ref())),
            }
        }
        assert_eq!(n_ours, member.iter().filter(|m| **m).count(), "memberof lacks a group");
        let impl_res = load_policy(ae.as_ref(), &mut r).expect("load_account_policy");
        let with_policy = seq.iter().filter(|g| g.class).count();
        sink.bump(&format!("load_groups_with_policy_{}", with_policy));
        let ts: Vec<String> = seq.iter().map(t_eattrs).collect();
        sink.case(
            capp("CLoad", &[clist(&seq, c_eattrs), c_res(&impl_res)]),
            format!("load memberof [{}] -> {}", ts.join(" "), t_res(&impl_res)),
            with_policy >= 2 && impl_res != *empty,
        );
    }
}

fn main() {
    let args = parse_args();
    let mut rng = Rng::new(args.seed);
    let mut sink = Sink::new(&args, "KV.C35.Model", 250);
    sink.rule = "fold: random multisets of 0..5 group policies (values drawn from the boundaries 0/1/3599/3600/3601/u32::MAX, 9/10/11/14/15/16/128/129, all 7 credential types, CA lists over 3 CAs x 4 aaguids x 2 labels incl. blanket, empty and label-clashing ones, repeated policies), the real fold_from run on EVERY distinct rearrangement; one case per rearrangement carries the base order, the rearrangement and both real results. entry/load: groups with random subsets of policy attributes written to a real in-memory server; the real entry->AccountPolicy conversion per group and the real load_account_policy of a member account (which is also in the builtin idm_all_persons / idm_all_accounts); a third of the multisets / groups leave second factors optional with short password minimums so that the single factor bump decides. non-trivial = fold case with >=2 policies, a genuinely different order and a result different from the empty fold; entry case with the policy class; load case with >=2 policy groups and a result different from the empty fold".into();

    let empty = fold_from(&[]);

    // ---- fixed cases
    // the pair of the kanidm unit test, and the pair that shows the label order dependence
    let ut_a = HookPolicy {
        privilege_expiry: 100,
        authsession_expiry: 100,
        pw_min_length: 11,
        credential_policy: 10,
        ca: Some(vec![
            HookCa { kid: 1, blanket: false, devs: vec![(1, "65".into()), (2, "66".into()), (3, "67".into())] },
            HookCa { kid: 2, blanket: false, devs: vec![(4, "68".into())] },
        ]),
        limit_search_max_filter_test: Some(10),
        limit_search_max_results: Some(10),
        allow_primary_cred_fallback: None,
    };
    let ut_b = HookPolicy {
        privilege_expiry: 150,
        authsession_expiry: 50,
        pw_min_length: 15,
        credential_policy: 20,
        ca: Some(vec![
            HookCa { kid: 1, blanket: false, devs: vec![(2, "66".into())] },
            HookCa { kid: 2, blanket: false, devs: vec![(5, "69".into())] },
        ]),
        limit_search_max_filter_test: Some(5),
        limit_search_max_results: Some(15),
        allow_primary_cred_fallback: Some(false),
    };
    emit_multiset(&mut sink, &[ut_a.clone(), ut_b.clone()], &empty);
    let lab = |l: &str| HookPolicy {
        privilege_expiry: 100,
        authsession_expiry: 100,
        pw_min_length: 10,
        credential_policy: 0,
        ca: Some(vec![HookCa { kid: 1, blanket: false, devs: vec![(7, l.into())] }]),
        limit_search_max_filter_test: None,
        limit_search_max_results: None,
        allow_primary_cred_fallback: None,
    };
    // Coq: C35_structural_order_dependence — confirm on the real code that the two orders give
    // structurally different (but equally enforcing) CA lists
    let d = emit_multiset(&mut sink, &[lab("100"), lab("200")], &empty);
    sink.add_stat("witness_label_order_dependence_confirmed_on_real_code", d.min(1));
    emit_multiset(&mut sink, &[], &empty);

    // ---- random multisets, all rearrangements
    let scale = if args.thorough { 8 } else { 1 };
    let plan: [(usize, u64); 5] = [(1, 12), (2, 20), (3, 20), (4, 16), (5, 14)];
    let mut diffs = 0;
    for (size, count) in plan.iter() {
        for _ in 0..(count * scale) {
            // a third of the multisets consist of "low" groups only
            let low = rng.chance(1, 3);
            let mut base: Vec<HookPolicy> = vec![];
            for _ in 0..*size {
                if !base.is_empty() && rng.chance(1, 8) {
                    let d = rng.pick(&base).clone();
                    base.push(d);
                } else {
                    base.push(gen_policy(&mut rng, true, low));
                }
            }
            diffs += emit_multiset(&mut sink, &base, &empty);
            sink.bump("fold_multisets");
        }
    }
    sink.add_stat("fold_rearrangements_structurally_different", diffs);

    // ---- real server
    let rt = tokio::runtime::Builder::new_current_thread().enable_all().build().expect("rt");
    let n_server = if args.thorough { 1200 } else { 150 };
    rt.block_on(server_part(&mut sink, &mut rng, n_server, &empty));

    sink.finish();
}
