//! C42 — SCIM filter text round-trips and honours precedence.
//!
//! The REAL `impl Display for ScimFilter` and `ScimFilter::from_str` / `ScimComplexFilter::from_str`
//! (kanidm_proto::scim_v1, public API, no hooks) are run on
//!   * round: random filter trees (all operators, sub-attributes, complex filters, known / custom /
//!     keyword-like / mixed-case / invalid names, strings with escapes + control bytes + UTF-8,
//!     integers over the whole i64 ∪ u64 range, bool, null), incl. trees at the depth limit ±2;
//!   * prec: or/and token strings assembled from operands (bare or parenthesised) and random
//!     separator runs;
//!   * parse / parsec: mutated texts (deleted / inserted / swapped bytes, extra parentheses, keyword
//!     case changes, deep nests around the limit).
//! Coq re-prints / re-parses everything with the model (agree) and evaluates the property (pcheck).
use kanidm_proto::attribute::{Attribute, SubAttribute};
use kanidm_proto::scim_v1::{AttrPath, JsonValue, ScimComplexFilter as CF, ScimFilter as F};
use kvh::*;
use std::str::FromStr;

// ------------------------------------------------------------------ encoding into Coq terms

/// bytes as `[a; b; c]%N` (one scope delimiter per string keeps the shards small)
fn cs(s: &str) -> String {
    if s.is_empty() {
        return "[]".to_string();
    }
    let v: Vec<String> = s.as_bytes().iter().map(|b| b.to_string()).collect();
    format!("[{}]%N", v.join(";"))
}
fn cz128(n: i128) -> String {
    if n < 0 {
        format!("({})%Z", n)
    } else {
        format!("{}%Z", n)
    }
}

/// None = the value is outside the model (float, array, object)
fn enc_jv(v: &JsonValue) -> Option<String> {
    Some(match v {
        JsonValue::Null => "JNull".to_string(),
        JsonValue::Bool(b) => capp("JBool", &[cbool(*b)]),
        JsonValue::Number(n) => {
            if let Some(u) = n.as_u64() {
                capp("JNum", &[cz128(u as i128)])
            } else if let Some(i) = n.as_i64() {
                capp("JNum", &[cz128(i as i128)])
            } else {
                return None;
            }
        }
        JsonValue::String(s) => capp("JStr", &[cs(s)]),
        _ => return None,
    })
}
fn enc_path(p: &AttrPath) -> String {
    format!("({}, {})", cs(p.a.as_str()), copt(&p.s, |s| cs(s.as_str())))
}
fn enc_c(f: &CF) -> Option<String> {
    let cmp = |o: &str, s: &SubAttribute, v: &JsonValue| -> Option<String> {
        Some(capp("CCmp", &[o.to_string(), cs(s.as_str()), enc_jv(v)?]))
    };
    Some(match f {
        CF::Or(a, b) => capp("COr", &[enc_c(a)?, enc_c(b)?]),
        CF::And(a, b) => capp("CAnd", &[enc_c(a)?, enc_c(b)?]),
        CF::Not(a) => capp("CNot", &[enc_c(a)?]),
        CF::Present(s) => capp("CPres", &[cs(s.as_str())]),
        CF::Equal(s, v) => cmp("OEq", s, v)?,
        CF::NotEqual(s, v) => cmp("ONe", s, v)?,
        CF::Contains(s, v) => cmp("OCo", s, v)?,
        CF::StartsWith(s, v) => cmp("OSw", s, v)?,
        CF::EndsWith(s, v) => cmp("OEw", s, v)?,
        CF::Greater(s, v) => cmp("OGt", s, v)?,
        CF::Less(s, v) => cmp("OLt", s, v)?,
        CF::GreaterOrEqual(s, v) => cmp("OGe", s, v)?,
        CF::LessOrEqual(s, v) => cmp("OLe", s, v)?,
    })
}
fn enc_f(f: &F) -> Option<String> {
    let cmp = |o: &str, p: &AttrPath, v: &JsonValue| -> Option<String> {
        Some(capp("SCmp", &[o.to_string(), enc_path(p), enc_jv(v)?]))
    };
    Some(match f {
        F::Or(a, b) => capp("SOr", &[enc_f(a)?, enc_f(b)?]),
        F::And(a, b) => capp("SAnd", &[enc_f(a)?, enc_f(b)?]),
        F::Not(a) => capp("SNot", &[enc_f(a)?]),
        F::Present(p) => capp("SPres", &[enc_path(p)]),
        F::Equal(p, v) => cmp("OEq", p, v)?,
        F::NotEqual(p, v) => cmp("ONe", p, v)?,
        F::Contains(p, v) => cmp("OCo", p, v)?,
        F::StartsWith(p, v) => cmp("OSw", p, v)?,
        F::EndsWith(p, v) => cmp("OEw", p, v)?,
        F::Greater(p, v) => cmp("OGt", p, v)?,
        F::Less(p, v) => cmp("OLt", p, v)?,
        F::GreaterOrEqual(p, v) => cmp("OGe", p, v)?,
        F::LessOrEqual(p, v) => cmp("OLe", p, v)?,
        F::Complex(a, c) => capp("SComplex", &[cs(a.as_str()), enc_c(c)?]),
    })
}
/// parse result as a Coq `pres`; None = contains an out-of-model value
fn enc_pres<T, E>(r: &Result<T, E>, enc: impl Fn(&T) -> Option<String>) -> Option<String> {
    match r {
        Ok(f) => Some(capp("POk", &[enc(f)?])),
        Err(_) => Some("PErr".to_string()),
    }
}

// ------------------------------------------------------------------ generators

struct Pools {
    attrs: Vec<String>,
    subs: Vec<String>,
}

const KEYWORDISH: &[&str] = &[
    "not", "nota", "note", "or", "order", "and", "android", "pr", "eq", "ne", "co", "sw", "ew", "gt", "lt", "ge", "le", "true",
    "false", "null", "n", "a", "b", "c", "x-y_z", "A1", "Zz-9_",
];
const BADNAMES: &[&str] = &["", "1abc", "_a", "-a", "a b", "a.b", "a[b", "a)", "na\u{ef}ve", "a\"b", "a\\", "(a"];

fn load_pools() -> Pools {
    // every ATTR_* / TEST_ATTR_* / SUB_ATTR_* string constant of the CURRENT source tree
    let src = std::fs::read_to_string("/repo/proto/src/constants.rs").expect("constants.rs");
    let mut attrs = vec![];
    let mut subs = vec![];
    for line in src.lines() {
        let l = line.trim();
        if let Some(rest) = l.strip_prefix("pub const ") {
            let Some((name, tail)) = rest.split_once(':') else { continue };
            if !tail.trim_start().starts_with("&str") {
                continue;
            }
            let Some(q1) = tail.find('"') else { continue };
            let Some(q2) = tail.rfind('"') else { continue };
            if q2 <= q1 {
                continue;
            }
            let val = &tail[q1 + 1..q2];
            if name.starts_with("SUB_ATTR_") {
                subs.push(val.to_string());
            } else if name.starts_with("ATTR_") || name.starts_with("TEST_ATTR_") {
                attrs.push(val.to_string());
            }
        }
    }
    assert!(attrs.len() > 150 && subs.len() >= 3, "constants.rs not understood");
    Pools { attrs, subs }
}

fn mixcase(rng: &mut Rng, s: &str) -> String {
    s.chars().map(|c| if rng.chance(1, 3) { c.to_ascii_uppercase() } else { c }).collect()
}
fn rand_name(rng: &mut Rng) -> String {
    let first = b"abcdefghijklmnopqrstuvwxyzABCDEFGHIJKLMNOPQRSTUVWXYZ";
    let restc = b"abcdefghijklmnopqrstuvwxyzABCDEFGHIJKLMNOPQRSTUVWXYZ0123456789-_";
    let mut s = String::new();
    s.push(*rng.pick(first) as char);
    for _ in 0..rng.below(8) {
        s.push(*rng.pick(restc) as char);
    }
    s
}
/// a name to feed `From<&str>`; `bad` allows names outside the attrstring charset
fn gen_name(rng: &mut Rng, pool: &[String], bad: bool) -> String {
    match rng.below(if bad { 12 } else { 10 }) {
        0..=2 => rng.pick(pool).clone(),
        3 => {
            let p = rng.pick(pool).clone();
            mixcase(rng, &p)
        }
        4..=5 => rng.pick(KEYWORDISH).to_string(),
        6 => {
            let k = rng.pick(KEYWORDISH).to_string();
            mixcase(rng, &k)
        }
        7..=9 => rand_name(rng),
        _ => rng.pick(BADNAMES).to_string(),
    }
}
fn gen_string(rng: &mut Rng) -> String {
    let alphabet: &[&str] = &[
        "a", "b", "z", "0", "9", " ", "  ", "\"", "\\", "\\\"", "/", "(", ")", "[", "]", "\n", "\r", "\t", "\u{8}", "\u{c}", "\u{0}", "\u{1}",
        "\u{1f}", "\u{7f}", "\u{e9}", "\u{20ac}", "\u{1f600}", " and ", " or ", "not (", " eq ", "pr", "true", "null", "\\u0041", "\\n", "'",
        "{", "}", ",", ":", "1.5e3", "@example.com",
    ];
    let n = rng.below(9);
    let mut s = String::new();
    for _ in 0..n {
        s.push_str(rng.pick(alphabet));
    }
    s
}
fn gen_value(rng: &mut Rng) -> JsonValue {
    match rng.below(12) {
        0 => JsonValue::Null,
        1 => JsonValue::Bool(true),
        2 => JsonValue::Bool(false),
        3 => JsonValue::from(rng.below(20)),
        4 => JsonValue::from(-(rng.below(20) as i64)),
        5 => JsonValue::from(*rng.pick(&[0u64, 9, 10, 99, 100, 1000000007, i64::MAX as u64, i64::MAX as u64 + 1, u64::MAX - 1, u64::MAX])),
        6 => JsonValue::from(*rng.pick(&[-1i64, -9, -10, -11, -100, i64::MIN, i64::MIN + 1, -4611686018427387904])),
        7 => JsonValue::from(rng.next()),
        8 => JsonValue::from(rng.next() as i64),
        _ => JsonValue::String(gen_string(rng)),
    }
}
fn gen_sub(rng: &mut Rng, p: &Pools, bad: bool) -> SubAttribute {
    SubAttribute::from(gen_name(rng, &p.subs, bad).as_str())
}
fn gen_attr(rng: &mut Rng, p: &Pools, bad: bool) -> Attribute {
    Attribute::from(gen_name(rng, &p.attrs, bad).as_str())
}
fn gen_cleaf(rng: &mut Rng, p: &Pools, bad: bool) -> CF {
    let s = gen_sub(rng, p, bad);
    let v = gen_value(rng);
    match rng.below(10) {
        0 => CF::Present(s),
        1 => CF::Equal(s, v),
        2 => CF::NotEqual(s, v),
        3 => CF::Contains(s, v),
        4 => CF::StartsWith(s, v),
        5 => CF::EndsWith(s, v),
        6 => CF::Greater(s, v),
        7 => CF::Less(s, v),
        8 => CF::GreaterOrEqual(s, v),
        _ => CF::LessOrEqual(s, v),
    }
}
fn gen_c(rng: &mut Rng, p: &Pools, depth: u32, bad: bool) -> CF {
    if depth == 0 || rng.chance(2, 5) {
        return gen_cleaf(rng, p, bad);
    }
    match rng.below(3) {
        0 => CF::Or(Box::new(gen_c(rng, p, depth - 1, bad)), Box::new(gen_c(rng, p, depth - 1, bad))),
        1 => CF::And(Box::new(gen_c(rng, p, depth - 1, bad)), Box::new(gen_c(rng, p, depth - 1, bad))),
        _ => CF::Not(Box::new(gen_c(rng, p, depth - 1, bad))),
    }
}
fn gen_leaf(rng: &mut Rng, p: &Pools, bad: bool) -> F {
    let a = gen_attr(rng, p, bad);
    let s = if rng.chance(1, 3) { Some(gen_sub(rng, p, bad)) } else { None };
    let ap = AttrPath { a, s };
    let v = gen_value(rng);
    match rng.below(10) {
        0 => F::Present(ap),
        1 => F::Equal(ap, v),
        2 => F::NotEqual(ap, v),
        3 => F::Contains(ap, v),
        4 => F::StartsWith(ap, v),
        5 => F::EndsWith(ap, v),
        6 => F::Greater(ap, v),
        7 => F::Less(ap, v),
        8 => F::GreaterOrEqual(ap, v),
        _ => F::LessOrEqual(ap, v),
    }
}
fn gen_f(rng: &mut Rng, p: &Pools, depth: u32, bad: bool) -> F {
    if depth == 0 || rng.chance(1, 3) {
        return if rng.chance(1, 4) {
            F::Complex(gen_attr(rng, p, bad), Box::new(gen_c(rng, p, depth.min(3), bad)))
        } else {
            gen_leaf(rng, p, bad)
        };
    }
    match rng.below(3) {
        0 => F::Or(Box::new(gen_f(rng, p, depth - 1, bad)), Box::new(gen_f(rng, p, depth - 1, bad))),
        1 => F::And(Box::new(gen_f(rng, p, depth - 1, bad)), Box::new(gen_f(rng, p, depth - 1, bad))),
        _ => F::Not(Box::new(gen_f(rng, p, depth - 1, bad))),
    }
}

/// nesting levels spent by the printed form (mirrors `need` of the model; used to aim at the limit)
fn need_c(f: &CF) -> u32 {
    match f {
        CF::Or(a, b) | CF::And(a, b) => 1 + need_c(a).max(need_c(b)),
        CF::Not(a) => 2 + need_c(a),
        _ => 1,
    }
}
fn need(f: &F) -> u32 {
    match f {
        F::Or(a, b) | F::And(a, b) => 1 + need(a).max(need(b)),
        F::Not(a) => 2 + need(a),
        F::Complex(_, c) => 1 + need_c(c),
        _ => 1,
    }
}
/// wrap `f` until it spends exactly `target` levels (or target+1 when parity forces it)
fn deepen(rng: &mut Rng, p: &Pools, mut f: F, target: u32) -> F {
    while need(&f) < target {
        let room = target - need(&f);
        f = match rng.below(4) {
            0 if room >= 2 => F::Not(Box::new(f)),
            1 => F::Or(Box::new(f), Box::new(gen_leaf(rng, p, false))),
            2 => F::And(Box::new(gen_leaf(rng, p, false)), Box::new(f)),
            _ => F::And(Box::new(f), Box::new(gen_leaf(rng, p, false))),
        };
    }
    f
}
fn deepen_c(rng: &mut Rng, p: &Pools, mut f: CF, target: u32) -> CF {
    while need_c(&f) < target {
        let room = target - need_c(&f);
        f = match rng.below(3) {
            0 if room >= 2 => CF::Not(Box::new(f)),
            1 => CF::Or(Box::new(f), Box::new(gen_cleaf(rng, p, false))),
            _ => CF::And(Box::new(gen_cleaf(rng, p, false)), Box::new(f)),
        };
    }
    f
}

// ------------------------------------------------------------------ cases

fn show(s: &str) -> String {
    let mut t: String = s.escape_default().to_string();
    if t.len() > 300 {
        let mut cut = 300;
        while !t.is_char_boundary(cut) {
            cut -= 1;
        }
        t.truncate(cut);
        t.push_str(&format!("...[{} bytes]", s.len()));
    }
    t
}
fn is_valid_name(s: &str) -> bool {
    let b = s.as_bytes();
    !b.is_empty() && b[0].is_ascii_alphabetic() && b.iter().all(|c| c.is_ascii_alphanumeric() || *c == b'-' || *c == b'_')
}
fn all_names_valid_c(f: &CF) -> bool {
    match f {
        CF::Or(a, b) | CF::And(a, b) => all_names_valid_c(a) && all_names_valid_c(b),
        CF::Not(a) => all_names_valid_c(a),
        CF::Present(s)
        | CF::Equal(s, _)
        | CF::NotEqual(s, _)
        | CF::Contains(s, _)
        | CF::StartsWith(s, _)
        | CF::EndsWith(s, _)
        | CF::Greater(s, _)
        | CF::Less(s, _)
        | CF::GreaterOrEqual(s, _)
        | CF::LessOrEqual(s, _) => is_valid_name(s.as_str()),
    }
}
fn all_names_valid(f: &F) -> bool {
    let pv = |p: &AttrPath| is_valid_name(p.a.as_str()) && p.s.as_ref().map(|s| is_valid_name(s.as_str())).unwrap_or(true);
    match f {
        F::Or(a, b) | F::And(a, b) => all_names_valid(a) && all_names_valid(b),
        F::Not(a) => all_names_valid(a),
        F::Present(p)
        | F::Equal(p, _)
        | F::NotEqual(p, _)
        | F::Contains(p, _)
        | F::StartsWith(p, _)
        | F::EndsWith(p, _)
        | F::Greater(p, _)
        | F::Less(p, _)
        | F::GreaterOrEqual(p, _)
        | F::LessOrEqual(p, _) => pv(p),
        F::Complex(a, c) => is_valid_name(a.as_str()) && all_names_valid_c(c),
    }
}

fn emit_round(sink: &mut Sink, f: &F, kind: &str) {
    let printed = f.to_string();
    let reparsed = F::from_str(&printed);
    let rust_eq = reparsed.as_ref().ok() == Some(f);
    let Some(fe) = enc_f(f) else { return };
    // None <=> Rust's own `reparsed == Ok(f)` holds; otherwise the parse result is spelled out
    let re = if rust_eq {
        "None".to_string()
    } else {
        let Some(re) = enc_pres(&reparsed, enc_f) else {
            sink.bump("skipped_out_of_model");
            return;
        };
        format!("(Some {})", re)
    };
    let valid = all_names_valid(f);
    let n = need(f);
    sink.bump(kind);
    sink.bump(if !valid {
        "round_invalid_names"
    } else if n + 1 <= 128 {
        "round_valid_within_limit"
    } else {
        "round_valid_beyond_limit"
    });
    sink.case(
        capp("CRound", &[fe, cs(&printed), re]),
        format!("round need={} {} -> {} eq={}", n, show(&printed), if reparsed.is_ok() { "Ok" } else { "Err" }, rust_eq),
        valid,
    );
}

const SEPS: &[&str] = &[" ", " ", " ", "  ", "\t", "\n", " \n", "\t ", " \t\n "];

fn strip_parens(s: &str) -> String {
    if let Some(t) = s.strip_prefix('(') {
        let mut t = t.to_string();
        t.pop();
        t
    } else {
        s.to_string()
    }
}
/// an operand of and/or: (filter, bare?) with its text and Coq term
fn gen_operand(rng: &mut Rng, p: &Pools) -> (F, bool) {
    let f = match rng.below(6) {
        0..=2 => gen_leaf(rng, p, false),
        3 => F::Complex(gen_attr(rng, p, false), Box::new(gen_c(rng, p, 2, false))),
        4 => F::Not(Box::new(gen_f(rng, p, 1, false))),
        _ => gen_f(rng, p, 2, false),
    };
    let can_bare = !matches!(f, F::Or(..) | F::And(..));
    let bare = can_bare && rng.chance(2, 3);
    (f, bare)
}
fn operand_txt(x: &(F, bool)) -> String {
    let t = x.0.to_string();
    if x.1 && !matches!(x.0, F::Complex(..)) {
        strip_parens(&t)
    } else {
        t
    }
}
fn enc_operand(x: &(F, bool)) -> Option<String> {
    Some(format!("({}, {})", enc_f(&x.0)?, cbool(x.1)))
}
type Link = (String, String, (F, bool));
type Chain = ((F, bool), Vec<Link>);
fn gen_chain(rng: &mut Rng, p: &Pools, maxlinks: u64) -> Chain {
    let x0 = gen_operand(rng, p);
    let n = rng.below(maxlinks + 1);
    let links = (0..n).map(|_| (rng.pick(SEPS).to_string(), rng.pick(SEPS).to_string(), gen_operand(rng, p))).collect();
    (x0, links)
}
fn chain_txt(c: &Chain) -> String {
    let mut s = operand_txt(&c.0);
    for (sa, sb, x) in &c.1 {
        s.push_str(sa);
        s.push_str("and");
        s.push_str(sb);
        s.push_str(&operand_txt(x));
    }
    s
}
fn enc_chain(c: &Chain) -> Option<String> {
    let mut links = vec![];
    for (sa, sb, x) in &c.1 {
        links.push(format!("({}, {}, {})", cs(sa), cs(sb), enc_operand(x)?));
    }
    Some(format!("({}, {})", enc_operand(&c.0)?, clist_s(&links)))
}
fn emit_prec(sink: &mut Sink, rng: &mut Rng, p: &Pools) -> Option<String> {
    let c0 = gen_chain(rng, p, 3);
    let nors = rng.below(4);
    let ors: Vec<(String, String, Chain)> =
        (0..nors).map(|_| (rng.pick(SEPS).to_string(), rng.pick(SEPS).to_string(), gen_chain(rng, p, 3))).collect();
    let mut text = chain_txt(&c0);
    for (sa, sb, c) in &ors {
        text.push_str(sa);
        text.push_str("or");
        text.push_str(sb);
        text.push_str(&chain_txt(c));
    }
    let r = F::from_str(&text);
    let mut oenc = vec![];
    for (sa, sb, c) in &ors {
        oenc.push(format!("({}, {}, {})", cs(sa), cs(sb), enc_chain(c)?));
    }
    let re = enc_pres(&r, enc_f)?;
    let nands: usize = c0.1.len() + ors.iter().map(|o| o.2 .1.len()).sum::<usize>();
    let mixed = nands > 0 && nors > 0;
    sink.bump(if mixed { "prec_mixed_and_or" } else { "prec_single_kind" });
    sink.case(
        capp("CPrec", &[enc_chain(&c0)?, clist_s(&oenc), cs(&text), re]),
        format!("prec ands={} ors={} {} -> {}", nands, nors, show(&text), if r.is_ok() { "Ok" } else { "Err" }),
        mixed,
    );
    Some(text)
}

/// texts the model cannot decide (floats / objects) are not generated
fn out_of_model_text(s: &str) -> bool {
    let b = s.as_bytes();
    if b.contains(&b'{') {
        return true;
    }
    for i in 0..b.len() {
        if b[i].is_ascii_digit() && i + 1 < b.len() && matches!(b[i + 1], b'.' | b'e' | b'E') {
            return true;
        }
    }
    // integer literals that serde_json turns into an f64: -0, below i64::MIN, above u64::MAX
    let mut i = 0;
    while i < b.len() {
        if b[i].is_ascii_digit() {
            let st = i;
            while i < b.len() && b[i].is_ascii_digit() {
                i += 1;
            }
            let run = &s[st..i];
            let neg = st > 0 && b[st - 1] == b'-';
            match run.parse::<u128>() {
                Err(_) => return true,
                Ok(n) => {
                    if neg && (n == 0 || n > (1u128 << 63)) || !neg && n > u64::MAX as u128 {
                        return true;
                    }
                }
            }
        } else {
            i += 1;
        }
    }
    false
}
fn mutate(rng: &mut Rng, s: &str) -> String {
    let mut b: Vec<char> = s.chars().collect();
    let ins: &[&str] = &[
        "(", ")", "[", "]", " ", "\t", "\n", "\r", "\"", "\\", ".", "-", "_", "a", "Z", "7", "0", "not", " not (", "or", " or ", "and", " and ",
        " pr", " eq ", "pr", "true", "null", "\"x\"", "()", "((", "))", " AND ", " Or ", "NOT ", "\\\"", "\u{e9}", "+",
    ];
    let n = 1 + rng.below(3);
    for _ in 0..n {
        let len = b.len();
        match rng.below(7) {
            0 if len > 0 => {
                b.remove(rng.below(len as u64) as usize);
            }
            1 | 2 => {
                let at = rng.below(len as u64 + 1) as usize;
                let t: Vec<char> = rng.pick(ins).chars().collect();
                for (k, c) in t.into_iter().enumerate() {
                    b.insert(at + k, c);
                }
            }
            3 if len > 1 => {
                let i = rng.below(len as u64 - 1) as usize;
                b.swap(i, i + 1);
            }
            4 if len > 0 => {
                // cut a tail / a head
                let at = rng.below(len as u64) as usize;
                if rng.chance(1, 2) {
                    b.truncate(at);
                } else {
                    b.drain(..at);
                }
            }
            5 => {
                // wrap in k parentheses
                let k = rng.below(4) as usize + 1;
                for _ in 0..k {
                    b.insert(0, '(');
                    b.push(')');
                }
            }
            _ if len > 0 => {
                let i = rng.below(len as u64) as usize;
                b[i] = if b[i].is_ascii_lowercase() { b[i].to_ascii_uppercase() } else { b[i].to_ascii_lowercase() };
            }
            _ => {}
        }
    }
    b.into_iter().collect()
}
fn emit_parse(sink: &mut Sink, text: &str, kind: &str) {
    if out_of_model_text(text) {
        sink.bump("skipped_out_of_model");
        return;
    }
    let r = F::from_str(text);
    let Some(re) = enc_pres(&r, enc_f) else {
        sink.bump("skipped_out_of_model");
        return;
    };
    let deep = text.bytes().take_while(|c| *c == b'(').count() >= 128;
    sink.bump(kind);
    sink.bump(if r.is_ok() { "parse_accepted" } else { "parse_rejected" });
    sink.case(
        capp("CParse", &[cs(text), re]),
        format!("parse {} -> {}", show(text), if r.is_ok() { "Ok" } else { "Err" }),
        r.is_ok() || deep,
    );
}
fn emit_parsec(sink: &mut Sink, text: &str, kind: &str) {
    if out_of_model_text(text) {
        sink.bump("skipped_out_of_model");
        return;
    }
    let r = CF::from_str(text);
    let Some(re) = enc_pres(&r, enc_c) else {
        sink.bump("skipped_out_of_model");
        return;
    };
    let deep = text.bytes().take_while(|c| *c == b'(').count() >= 128;
    sink.bump(kind);
    sink.bump(if r.is_ok() { "parsec_accepted" } else { "parsec_rejected" });
    sink.case(
        capp("CParseC", &[cs(text), re]),
        format!("parsec {} -> {}", show(text), if r.is_ok() { "Ok" } else { "Err" }),
        r.is_ok() || deep,
    );
}

fn main() {
    let args = parse_args();
    let mut rng = Rng::new(args.seed);
    let mut sink = Sink::new(&args, "KV.C42.Model", 120);
    sink.rule = "round: random ScimFilter trees built with the real constructors (names from every ATTR_/SUB_ATTR_ constant of the current source in random case, keyword-like and random valid names, 1 in 6 trees may use names outside the SCIM charset; values null/bool/integers over i64∪u64/strings with quotes, backslashes, control bytes, brackets, keywords, UTF-8), printed by the real Display and parsed back by the real from_str; plus trees deepened to spend 124..130 nesting levels (limit 128). prec: and/or token strings from bare or parenthesised operands with random separator runs. parse/parsec: printed and token texts after 1-3 random byte edits (delete/insert/swap/cut/wrap/case), fixed RFC-style examples, and texts with 120..135 opening parentheses / not( chains. non-trivial = round with valid names; prec mixing and+or; parse texts that are accepted or open with >=128 parentheses".into();
    let p = load_pools();
    let scale = if args.thorough { 8 } else { 1 };

    // ---- fixed examples (RFC 7644 style + the crate's own tests)
    let fixed: &[&str] = &[
        "mail pr",
        "mail eq \"dcba\"",
        "(mail eq \"dcba\")",
        "not (mail eq \"dcba\")",
        "mail eq \"dcba\" and name ne \"1234\"",
        "mail[type eq \"work\"]",
        "mail[type eq \"work\" and value co \"@example.com\"] or testattr[type eq \"xmpp\" and value co \"@foo.com\"]",
        "testattr_a pr or testattr_b pr and testattr_c pr or testattr_d pr",
        "testattr_a pr and testattr_b pr or testattr_c pr and testattr_d pr",
        "testattr_a pr and (testattr_b pr or testattr_c pr) and testattr_d pr",
        "testattr_a pr and not (testattr_b pr or testattr_c pr) and testattr_d pr",
        r#"description eq "text ( ) [ ] 'single' \"escaped\" \\\\consecutive\\\\ \/slash\b\f\n\r\t\u0041 and or not eq ne co sw ew gt lt ge le pr true false""#,
        r#"name eq "test\""#,
        r#"name eq """#,
        "a eq 1\r",
        "a eq \r\"x\"",
        "a eq \"\\ud83d\\ude00\"",
        "a eq \"\\ud83d\"",
        "a eq \"\\ude00\"",
        "a eq \"\\u00e9\\u20AC\"",
        "a eq \"\\x\"",
        "a eq \"a\"b",
        "a eq \"a\u{1}b\"",
        "a eq 01",
        "a eq -1",
        "a eq -",
        "a eq 18446744073709551615",
        "a eq -9223372036854775808",
        "a eq tru",
        "a eq truex",
        "a eq nullnull",
        "a eq",
        "a eq ",
        "a  pr",
        "a pr ",
        " a pr",
        "a pr or",
        "a pr or ",
        "a pr or b",
        "a pr oR b pr",
        "a pr orb pr",
        "a pr and(b pr)",
        "a pr and (b pr)",
        "(a pr)and(b pr)",
        "not(a pr)",
        "not  (a pr)",
        "not (a pr",
        "not pr",
        "not eq 1",
        "not[type pr]",
        "nota pr",
        "a.b pr",
        "a. pr",
        "a.b.c pr",
        "a.1 pr",
        "a[b pr]",
        "a[b.c pr]",
        "a[not (b pr)]",
        "a[(b pr) or c eq 1]",
        "a[b pr] and c[d pr]",
        "a[b[c pr]]",
        "a[]",
        "a [b pr]",
        "Mail pr",
        "MAIL.PRIMARY pr",
        "mail[TYPE pr]",
        "a present",
        "a prx",
        "a pr(b pr)",
        "()",
        "",
        "((a pr)",
        "(a pr))",
        "a eq (1)",
        "a eq [1]",
        "a eq 1]",
        "a eq \"(\"",
    ];
    for t in fixed {
        emit_parse(&mut sink, t, "parse_fixed");
        emit_parsec(&mut sink, t, "parsec_fixed");
    }

    // ---- round trips
    let mut texts: Vec<String> = vec![];
    let mut ctexts: Vec<String> = vec![];
    for i in 0..(400 * scale) {
        let bad = i % 6 == 5;
        let depth = rng.range(0, 5) as u32;
        let f = gen_f(&mut rng, &p, depth, bad);
        emit_round(&mut sink, &f, "round_random");
        if texts.len() < 4000 {
            texts.push(f.to_string());
        }
        if let F::Complex(_, c) = &f {
            ctexts.push(c.to_string());
        }
    }
    for _ in 0..(100 * scale) {
        let depth = rng.range(0, 4) as u32;
        let c = gen_c(&mut rng, &p, depth, false);
        ctexts.push(c.to_string());
    }
    // ---- depth boundary: 124..=130 levels spent (print_depth = need + 1; limit 128 => need <= 127)
    for i in 0..(16 * scale) {
        let target = 123 + (i % 8) as u32; // need in 123..=130
        let seed_f = gen_f(&mut rng, &p, 2, false);
        let f = deepen(&mut rng, &p, seed_f, target);
        emit_round(&mut sink, &f, "round_deep");
        // the complex side of the limit: a[ deep complex filter ]
        let seed_c = gen_c(&mut rng, &p, 2, false);
        let c = deepen_c(&mut rng, &p, seed_c, target - 1);
        let fc = F::Complex(gen_attr(&mut rng, &p, false), Box::new(c.clone()));
        emit_round(&mut sink, &fc, "round_deep_complex");
        emit_parsec(&mut sink, &c.to_string(), "parsec_deep");
    }
    // pure not-chains and pure paren nests at the boundary
    for n in 60..=66u32 {
        let mut f = gen_leaf(&mut rng, &p, false);
        for _ in 0..n {
            f = F::Not(Box::new(f));
        }
        emit_round(&mut sink, &f, "round_deep");
        // bare form: not (not (... (a pr)))
        let mut t = "a pr".to_string();
        for _ in 0..n {
            t = format!("not ({})", t);
        }
        emit_parse(&mut sink, &t, "parse_deep");
    }
    for n in 120..=135usize {
        let t = format!("{}a pr{}", "(".repeat(n), ")".repeat(n));
        emit_parse(&mut sink, &t, "parse_deep");
        let t = format!("{}a pr and b eq 1{}", "(".repeat(n), ")".repeat(n));
        emit_parse(&mut sink, &t, "parse_deep");
        let t = format!("{}type pr{}", "(".repeat(n), ")".repeat(n));
        emit_parsec(&mut sink, &t, "parsec_deep");
        let t = format!("a[{}type pr{}]", "(".repeat(n), ")".repeat(n));
        emit_parse(&mut sink, &t, "parse_deep");
        let t = format!("{}a pr", "(".repeat(n));
        emit_parse(&mut sink, &t, "parse_deep");
    }

    // ---- precedence token strings
    for _ in 0..(250 * scale) {
        if let Some(t) = emit_prec(&mut sink, &mut rng, &p) {
            if texts.len() < 8000 {
                texts.push(t);
            }
        }
    }

    // ---- mutated texts
    for _ in 0..(500 * scale) {
        let base = rng.pick(&texts).clone();
        let base = if rng.chance(1, 3) { strip_parens(&base) } else { base };
        let t = mutate(&mut rng, &base);
        emit_parse(&mut sink, &t, "parse_mutated");
        // whatever the real parser accepted must itself round-trip
        if let Ok(f) = F::from_str(&t) {
            if rng.chance(1, 4) {
                emit_round(&mut sink, &f, "round_of_parsed");
            }
        }
    }
    for _ in 0..(150 * scale) {
        let base = rng.pick(&ctexts).clone();
        let base = if rng.chance(1, 3) { strip_parens(&base) } else { base };
        let t = if rng.chance(1, 5) { base } else { mutate(&mut rng, &base) };
        emit_parsec(&mut sink, &t, "parsec_mutated");
    }
    sink.finish();
}
