//! C45 — host login requires a valid account record and membership of an allowed group.
//!
//! Two kinds of cases, both against the REAL resolver code of unix_integration/resolver_common:
//!  * `CProv`: `KanidmProvider::unix_user_authorise(&token)` on arbitrary user tokens (duplicate
//!    groups, group NAMES that look like the uuid of another group, upper-case variants, spn-like
//!    allow entries) for random `pam_allowed_login_groups`;
//!  * `CPam`: histories of `Resolver::pam_account_allowed(account_id)` on a real Resolver
//!    (in-memory cache db, soft TPM, real KanidmProvider and real kanidm_client) whose kanidm
//!    server is an in-process HTTP stub that answers `/v1/account/{id}/_unix/_token` with the
//!    token / "no matching entries" / HTTP 500 chosen by the case.  The cache is invalidated
//!    before every call, so every call re-reads the account record; system (/etc/passwd) users
//!    are loaded through `reload_system_identities`.
#![allow(dead_code)]

use kanidm_client::KanidmClientBuilder;
use kanidm_hsm_crypto::{
    provider::{BoxedDynTpm, SoftTpm, Tpm},
    AuthValue,
};
use kanidm_proto::internal::OperationError;
use kanidm_proto::v1::{UnixGroupToken, UnixUserToken};
use kvh::*;
use sparkle_resolver_common::db::{Cache, Db};
use sparkle_resolver_common::idprovider::interface::{GroupToken, IdProvider, ProviderOrigin, UserToken};
use sparkle_resolver_common::idprovider::kanidm::KanidmProvider;
use sparkle_resolver_common::idprovider::system::SystemProvider;
use sparkle_resolver_common::resolver::Resolver;
use sparkle_unix_common::constants::{
    DEFAULT_CACHE_TIMEOUT, DEFAULT_GID_ATTR_MAP, DEFAULT_HOME_ALIAS, DEFAULT_HOME_ATTR, DEFAULT_HOME_PREFIX, DEFAULT_SHELL,
    DEFAULT_UID_ATTR_MAP,
};
use sparkle_unix_common::unix_config::KanidmConfig;
use sparkle_unix_common::unix_passwd::EtcUser;
use sparkle_unix_common::unix_proto::PamServiceInfo;
use std::collections::BTreeMap;
use std::io::{Read, Write};
use std::net::{TcpListener, TcpStream};
use std::sync::{Arc, Mutex};
use std::time::SystemTime;
use uuid::Uuid;

// ------------------------------------------------------------------ the stub kanidm server

#[derive(Clone, Debug)]
enum DResp {
    Tok(UnixUserToken),
    NotFound,
    Error,
}
type Dir = Arc<Mutex<BTreeMap<String, DResp>>>;

fn serve_conn(mut s: TcpStream, dir: Dir) {
    let _ = s.set_nodelay(true);
    let mut buf: Vec<u8> = Vec::new();
    let mut tmp = [0u8; 4096];
    loop {
        let head_end = loop {
            if let Some(p) = buf.windows(4).position(|w| w == b"\r\n\r\n") {
                break p + 4;
            }
            match s.read(&mut tmp) {
                Ok(0) | Err(_) => return,
                Ok(n) => buf.extend_from_slice(&tmp[..n]),
            }
        };
        let head = String::from_utf8_lossy(&buf[..head_end]).to_string();
        buf.drain(..head_end);
        let line = head.lines().next().unwrap_or("").to_string();
        let path = line.split_whitespace().nth(1).unwrap_or("").to_string();
        let nomatch = serde_json::to_string(&OperationError::NoMatchingEntries).expect("json");
        let (code, reason, body) = if path == "/v1/self" {
            // whoami with an unknown bearer token: the client maps 401 to Ok(None) => provider online
            (401u16, "Unauthorized", "null".to_string())
        } else if let Some(id) = path.strip_prefix("/v1/account/").and_then(|r| r.strip_suffix("/_unix/_token")) {
            match dir.lock().expect("dir").get(id).cloned().unwrap_or(DResp::NotFound) {
                DResp::Tok(t) => (200u16, "OK", serde_json::to_string(&t).expect("json")),
                DResp::NotFound => (404u16, "Not Found", nomatch),
                DResp::Error => (500u16, "Internal Server Error", "null".to_string()),
            }
        } else {
            (404u16, "Not Found", nomatch)
        };
        let out = format!(
            "HTTP/1.1 {} {}\r\nContent-Type: application/json\r\nX-KANIDM-VERSION: stub\r\nX-KANIDM-OPID: stub\r\nContent-Length: {}\r\nConnection: keep-alive\r\n\r\n{}",
            code,
            reason,
            body.len(),
            body
        );
        if s.write_all(out.as_bytes()).is_err() {
            return;
        }
    }
}

fn start_stub(dir: Dir) -> u16 {
    let l = TcpListener::bind("127.0.0.1:0").expect("bind loopback");
    let port = l.local_addr().expect("addr").port();
    std::thread::spawn(move || {
        for c in l.incoming().flatten() {
            let d = dir.clone();
            std::thread::spawn(move || serve_conn(c, d));
        }
    });
    port
}

// ------------------------------------------------------------------ data

fn gu(k: u128) -> Uuid {
    Uuid::from_u128(k)
}
fn ustr(k: u128) -> String {
    gu(k).hyphenated().to_string()
}

/// strings that may appear as group names and as allow-list entries
fn name_pool() -> Vec<String> {
    let mut v: Vec<String> = vec![];
    for k in 0..4 {
        v.push(format!("grp{}", k));
    }
    v.push("GRP0".into());
    v.push("grp1@example.com".into());
    for k in [1u128, 2, 0xa] {
        v.push(ustr(k)); // a group NAMED like the uuid of (another) group
    }
    v.push(ustr(0xa).to_uppercase()); // never the hyphenated() rendering of any uuid
    v.push("".into());
    v
}
const UUIDS: [u128; 6] = [1, 2, 3, 4, 0xa, 0xb];

#[derive(Clone, Debug)]
struct G {
    name: String,
    uuid: Uuid,
    gid: u32,
}

/// the fixed, mutually consistent group universe used at Resolver level (distinct names, uuids, gids)
fn universe() -> Vec<G> {
    vec![
        G { name: "grp0".into(), uuid: gu(1), gid: 6001 },
        G { name: "grp1".into(), uuid: gu(2), gid: 6002 },
        G { name: "grp2".into(), uuid: gu(3), gid: 6003 },
        G { name: "GRP0".into(), uuid: gu(4), gid: 6004 },
        G { name: ustr(2), uuid: gu(0xa), gid: 6005 }, // named like grp1's uuid
        G { name: "grp1@example.com".into(), uuid: gu(0xb), gid: 6006 },
        G { name: "grp3".into(), uuid: gu(0xc), gid: 6007 },
    ]
}

struct Enc {
    strs: Intern<String>,
}
impl Enc {
    fn s(&mut self, x: &str) -> String {
        cn(self.strs.id(&x.to_string()))
    }
    fn group(&mut self, name: &str, uuid: &Uuid) -> String {
        capp("mkgroup", &[self.s(name), self.s(&uuid.hyphenated().to_string())])
    }
    fn token(&mut self, valid: bool, groups: &[(String, Uuid)]) -> String {
        let gs: Vec<String> = groups.iter().map(|(n, u)| self.group(n, u)).collect();
        capp("mktoken", &[cbool(valid), clist_s(&gs)])
    }
}

fn pres(r: &Result<Option<bool>, String>) -> (String, &'static str) {
    match r {
        Ok(Some(true)) => ("(PSome true)".into(), "allowed"),
        Ok(Some(false)) => ("(PSome false)".into(), "denied"),
        Ok(None) => ("PNone".into(), "unknown_user"),
        Err(_) => ("PErr".into(), "error"),
    }
}

fn gen_allow(rng: &mut Rng, pool: &[String]) -> Vec<String> {
    let n = match rng.below(8) {
        0 => 0,
        1 | 2 | 3 => 1,
        4 | 5 => 2,
        _ => rng.range(3, 4),
    };
    (0..n)
        .map(|_| if rng.chance(1, 4) { ustr(*rng.pick(&UUIDS)) } else { rng.pick(pool).clone() })
        .collect()
}

struct Out {
    coq: String,
    txt: String,
    nontrivial: bool,
    bumps: Vec<String>,
}

const ACCOUNTS: [&str; 5] = ["alice", "bob", "carol", "root", "daemon"];
const SYS_NAMES: [&str; 2] = ["root", "daemon"];

/// every string that can ever be encoded, interned in a fixed order (workers run in parallel
/// and must agree on the numbering)
fn fixed_enc() -> Enc {
    let mut enc = Enc { strs: Intern::new() };
    for p in name_pool() {
        enc.s(&p);
    }
    for k in UUIDS {
        enc.s(&ustr(k));
    }
    for g in universe() {
        enc.s(&g.name);
        enc.s(&g.uuid.hyphenated().to_string());
    }
    for a in ACCOUNTS {
        enc.s(a);
    }
    enc
}

struct Worker {
    rt: tokio::runtime::Runtime,
    dir: Dir,
    uri: String,
    enc: Enc,
    n_known: u64,
    n_cfg_done: u64,
    pool: Vec<String>,
    uni: Vec<G>,
}

impl Worker {
    fn new() -> Self {
        let dir: Dir = Arc::new(Mutex::new(BTreeMap::new()));
        let port = start_stub(dir.clone());
        let mut enc = fixed_enc();
        let n_known = enc.strs.id(&"<<sentinel: first unknown string>>".to_string());
        Worker {
            rt: tokio::runtime::Builder::new_current_thread().enable_all().build().expect("rt"),
            dir,
            uri: format!("http://127.0.0.1:{}", port),
            enc,
            n_known,
            n_cfg_done: 0,
            pool: name_pool(),
            uni: universe(),
        }
    }

    /// one allowed-login list: a real provider + resolver, provider-level cases, two histories
    fn run_config(&mut self, rng: &mut Rng) -> Vec<Out> {
        let mut outs: Vec<Out> = vec![];
        let allow = gen_allow(rng, &self.pool);
        let callow: Vec<String> = allow.iter().map(|a| self.enc.s(a)).collect();
        let callow = clist_s(&callow);
        let with_sys = rng.chance(2, 3);
        let uri = self.uri.clone();
        let allow2 = allow.clone();

        let (provider, resolver) = self.rt.block_on(async move {
            let client = KanidmClientBuilder::new()
                .address(uri)
                .enable_native_ca_roots(false)
                .no_proxy()
                .build()
                .expect("client");
            let db = Db::new("").expect("db");
            let mut dbtxn = db.write().await;
            dbtxn.migrate().expect("migrate");
            let mut hsm = BoxedDynTpm::new(SoftTpm::default());
            let auth_value = AuthValue::ephemeral().expect("authvalue");
            let lmk = hsm.root_storage_key_create(&auth_value).expect("mk create");
            let machine_key = hsm.root_storage_key_load(&auth_value, &lmk).expect("mk load");
            let provider = KanidmProvider::new(
                client,
                &KanidmConfig {
                    conn_timeout: 2,
                    request_timeout: 2,
                    pam_allowed_login_groups: allow2,
                    map_group: vec![],
                    service_account_token: Some("stub-token".to_string()),
                },
                SystemTime::now(),
                &mut (&mut dbtxn).into(),
                &mut hsm,
                &machine_key,
            )
            .await
            .expect("provider");
            drop(machine_key);
            dbtxn.commit().expect("commit");
            let provider = Arc::new(provider);
            let system_provider = SystemProvider::new().expect("sysprov");
            let (resolver, _rx) = Resolver::new(
                db,
                Arc::new(system_provider),
                vec![provider.clone()],
                hsm,
                DEFAULT_CACHE_TIMEOUT,
                DEFAULT_SHELL.to_string(),
                DEFAULT_HOME_PREFIX.into(),
                DEFAULT_HOME_ATTR,
                DEFAULT_HOME_ALIAS,
                DEFAULT_UID_ATTR_MAP,
                DEFAULT_GID_ATTR_MAP,
            )
            .await
            .expect("resolver");
            if with_sys {
                let users: Vec<EtcUser> = SYS_NAMES
                    .iter()
                    .enumerate()
                    .map(|(i, n)| EtcUser {
                        name: n.to_string(),
                        password: "x".into(),
                        uid: i as u32,
                        gid: i as u32,
                        gecos: n.to_string(),
                        homedir: "/".into(),
                        shell: "/bin/sh".into(),
                    })
                    .collect();
                resolver.reload_system_identities(users, vec![], vec![]).await;
            }
            (provider, resolver)
        });

        // ---- (a) provider level
        for _ in 0..10 {
            let n = match rng.below(8) {
                0 => 0,
                1 | 2 => 1,
                3 | 4 => 2,
                _ => rng.range(3, 6),
            };
            let mut groups: Vec<(String, Uuid)> = (0..n).map(|_| (rng.pick(&self.pool).clone(), gu(*rng.pick(&UUIDS)))).collect();
            if !allow.is_empty() && rng.chance(2, 5) {
                // plant a match by name or by uuid string (only effective if the entry is a lower-case uuid)
                let a = rng.pick(&allow).clone();
                let g = match Uuid::parse_str(&a) {
                    Ok(u) if UUIDS.contains(&u.as_u128()) && rng.chance(2, 3) => (rng.pick(&self.pool).clone(), u),
                    _ => (a, gu(*rng.pick(&UUIDS))),
                };
                let at = rng.below(groups.len() as u64 + 1) as usize;
                groups.insert(at, g);
            }
            let valid = rng.chance(3, 4);
            let tok = UserToken {
                provider: ProviderOrigin::Kanidm,
                name: "alice".into(),
                spn: "alice@example.com".into(),
                uuid: gu(0x100),
                gidnumber: 5000,
                displayname: "Alice".into(),
                shell: None,
                groups: groups
                    .iter()
                    .enumerate()
                    .map(|(i, (n, u))| GroupToken {
                        provider: ProviderOrigin::Kanidm,
                        name: n.clone(),
                        spn: format!("{}@example.com", n),
                        uuid: *u,
                        gidnumber: 7000 + i as u32,
                        extra_keys: Default::default(),
                    })
                    .collect(),
                sshkeys: vec![],
                valid,
                extra_keys: Default::default(),
            };
            let r = self.rt.block_on(provider.unix_user_authorise(&tok)).map_err(|e| format!("{:?}", e));
            let (cres, kind) = pres(&r);
            let ctok = self.enc.token(valid, &groups);
            outs.push(Out {
                coq: capp("CProv", &[callow.clone(), ctok, cres]),
                txt: format!(
                    "provider allow={:?} valid={} groups=[{}] -> {:?}",
                    allow,
                    valid,
                    groups.iter().map(|(n, u)| format!("{{name={:?},uuid={}}}", n, u)).collect::<Vec<_>>().join(","),
                    r
                ),
                nontrivial: !allow.is_empty() && !groups.is_empty(),
                bumps: vec![format!("prov_{}", kind)],
            });
        }

        // ---- (b) resolver level: histories of pam_account_allowed calls on ONE resolver
        // (the cache db is cleared between the histories)
        for _ in 0..2 {
            self.rt.block_on(resolver.clear_cache()).expect("clear_cache");
            let nsteps = rng.range(3, 7);
            let mut csteps: Vec<String> = vec![];
            let mut cress: Vec<String> = vec![];
            let mut tsteps: Vec<String> = vec![];
            let mut kinds: Vec<&'static str> = vec![];
            let mut bumps: Vec<String> = vec![];
            let mut had_tok: BTreeMap<String, bool> = BTreeMap::new();
            let mut fallback = false;
            let focus = *rng.pick(&ACCOUNTS[..3]);
            for _ in 0..nsteps {
                let id = if rng.chance(3, 5) { focus } else { *rng.pick(&ACCOUNTS) };
                let k = ACCOUNTS.iter().position(|a| *a == id).expect("pos");
                let resp = match rng.below(10) {
                    0 | 1 => DResp::NotFound,
                    2 | 3 | 4 => DResp::Error,
                    _ => {
                        let mut gs: Vec<G> = vec![];
                        for g in &self.uni {
                            if rng.chance(2, 5) {
                                gs.push(g.clone());
                            }
                        }
                        rng.shuffle(&mut gs);
                        DResp::Tok(UnixUserToken {
                            name: id.to_string(),
                            spn: format!("{}@example.com", id),
                            displayname: id.to_string(),
                            gidnumber: 5000 + k as u32,
                            uuid: gu(0x100 + k as u128),
                            shell: None,
                            groups: gs
                                .iter()
                                .map(|g| UnixGroupToken { name: g.name.clone(), spn: format!("{}@example.com", g.name), uuid: g.uuid, gidnumber: g.gid })
                                .collect(),
                            sshkeys: vec![],
                            valid: rng.chance(3, 4),
                        })
                    }
                };
                {
                    let mut d = self.dir.lock().expect("dir");
                    d.clear();
                    d.insert(id.to_string(), resp.clone());
                }
                let r = self.rt.block_on(async {
                    resolver.invalidate().await.expect("invalidate");
                    resolver.mark_next_check_now(SystemTime::now()).await;
                    resolver.pam_account_allowed(id, &PamServiceInfo::default()).await
                });
                let r = r.map_err(|_| "Err(())".to_string());
                let (cres, kind) = pres(&r);
                bumps.push(format!("pam_{}", kind));
                let is_sys = with_sys && SYS_NAMES.contains(&id);
                let (cresp, tresp) = match &resp {
                    DResp::Tok(t) => {
                        let gs: Vec<(String, Uuid)> = t.groups.iter().map(|g| (g.name.clone(), g.uuid)).collect();
                        if !is_sys {
                            had_tok.insert(id.to_string(), true);
                        }
                        (
                            capp("DTok", &[self.enc.token(t.valid, &gs)]),
                            format!("token(valid={},groups=[{}])", t.valid, gs.iter().map(|(n, u)| format!("{{{:?},{}}}", n, u)).collect::<Vec<_>>().join(",")),
                        )
                    }
                    DResp::NotFound => {
                        had_tok.remove(id);
                        ("DNotFound".to_string(), "no-matching-entries".to_string())
                    }
                    DResp::Error => {
                        if !is_sys && had_tok.get(id).copied().unwrap_or(false) {
                            fallback = true;
                        }
                        ("DError".to_string(), "http500".to_string())
                    }
                };
                csteps.push(format!("({}, {})", self.enc.s(id), cresp));
                cress.push(cres);
                tsteps.push(format!("{}:{}=>{:?}", id, tresp, r));
                kinds.push(kind);
            }
            let csys: Vec<String> = if with_sys { SYS_NAMES.iter().map(|n| self.enc.s(n)).collect() } else { vec![] };
            let nontrivial = fallback || (kinds.contains(&"allowed") && (kinds.contains(&"denied") || kinds.contains(&"unknown_user")));
            if fallback {
                bumps.push("pam_history_with_cache_fallback".into());
            }
            outs.push(Out {
                coq: capp("CPam", &[callow.clone(), clist_s(&csys), clist_s(&csteps), clist_s(&cress)]),
                txt: format!("pam allow={:?} system_users={:?} history[{}]", allow, if with_sys { &SYS_NAMES[..] } else { &[] }, tsteps.join("; ")),
                nontrivial,
                bumps,
            });
        }
        // every encoded string must have been one of the pre-interned ones
        self.n_cfg_done += 1;
        let probe = self.enc.strs.id(&format!("<<sentinel {}>>", self.n_cfg_done));
        assert_eq!(probe, self.n_known + self.n_cfg_done, "a string outside the fixed table was encoded");
        outs
    }
}

fn main() {
    std::env::set_var("KANIDM_DEV_YOLO", "1");
    let args = parse_args();
    let mut rng = Rng::new(args.seed);
    let mut sink = Sink::new(&args, "KV.C45.Model", 400);
    sink.rule = "per random allowed-login list (empty, duplicates, names, spn-like entries, lower/upper-case uuid strings) a real \
KanidmProvider + Resolver is built; (a) KanidmProvider::unix_user_authorise on 10 random tokens (validity flag, 0..7 groups with \
duplicates, names that are uuid strings of other groups, case variants); (b) two histories of 3..7 Resolver::pam_account_allowed calls \
(cache invalidated before each call) for system and directory account ids, the stub server answering token / no-matching-entries / \
HTTP 500 (500 => the resolver falls back to the record cached by an earlier call). non-trivial = (a) non-empty allow list and non-empty \
group list; (b) the history contains an allowed and a denied/unknown answer, or a fallback to a cached record".into();

    // KanidmProvider::new calibrates Argon2 for ~0.25 s of wall time per provider, so the
    // configurations are spread over worker threads; each configuration has its own forked
    // PRNG, so the cases do not depend on the scheduling.
    let n_cfg: usize = if args.thorough { 900 } else { 240 };
    let n_workers: usize = 12;
    let seeds: Vec<Rng> = (0..n_cfg).map(|_| rng.fork()).collect();
    let mut handles = vec![];
    for w in 0..n_workers {
        let mine: Vec<(usize, Rng)> = seeds.iter().cloned().enumerate().filter(|(i, _)| i % n_workers == w).collect();
        handles.push(std::thread::spawn(move || {
            let mut worker = Worker::new();
            let mut res: Vec<(usize, Vec<Out>)> = vec![];
            for (i, mut r) in mine {
                res.push((i, worker.run_config(&mut r)));
            }
            res
        }));
    }
    let mut all: Vec<(usize, Vec<Out>)> = vec![];
    for h in handles {
        all.extend(h.join().expect("worker panicked"));
    }
    all.sort_by_key(|(i, _)| *i);
    for (_, outs) in all {
        for o in outs {
            for b in &o.bumps {
                sink.bump(b);
            }
            sink.case(o.coq, o.txt, o.nontrivial);
        }
    }
    sink.add_stat("allow_lists", n_cfg as u64);
    sink.finish();
}
