//! C21 — POSIX gid numbers never land in reserved ranges.
//!
//! Drives the REAL gidnumber plugin through a real QueryServer (internal_create,
//! internal_modify_uuid, internal_batch_modify), one aborted write transaction per case, and
//! records what is read back from the entry (posix class present?, gidnumber value set) or the
//! operation error. The Coq model (KV.C21.Model) is evaluated on the same inputs by `agree`;
//! `pcheck` evaluates the property on the implementation's own output.
use kanidmd_lib::entry::{Entry, EntryInit, EntryNew};
use kanidmd_lib::modify::{Modify, ModifyInvalid, ModifyList};
use kanidmd_lib::prelude::*;
use kanidmd_lib::testkit::{setup_test, TestConfiguration};
use kanidmd_lib::valueset::{ValueSet, ValueSetUint32};
use kvh::*;

#[derive(Clone, Debug)]
enum Out {
    Stored(bool, Vec<u32>),
    Rejected(&'static str), // Coq constructor of `err`
}
impl Out {
    fn coq(&self) -> String {
        match self {
            Out::Stored(p, gs) => capp("Stored", &[cbool(*p), clist(gs, |g| cn(*g as u64))]),
            Out::Rejected(e) => capp("Rejected", &[e.to_string()]),
        }
    }
    fn txt(&self) -> String {
        match self {
            Out::Stored(p, gs) => format!("stored(posix={},gids={:?})", p, gs),
            Out::Rejected(e) => format!("rejected({})", e),
        }
    }
}

#[derive(Clone, Debug)]
enum GMod {
    PresPosix,
    RemPosix,
    PresGid(u32),
    RemGid(u32),
    PurgeGid,
    SetGid(Vec<u32>), // sorted, duplicate free, non-empty
}
impl GMod {
    fn coq(&self) -> String {
        match self {
            GMod::PresPosix => "MPresPosix".into(),
            GMod::RemPosix => "MRemPosix".into(),
            GMod::PresGid(g) => capp("MPresGid", &[cn(*g as u64)]),
            GMod::RemGid(g) => capp("MRemGid", &[cn(*g as u64)]),
            GMod::PurgeGid => "MPurgeGid".into(),
            GMod::SetGid(gs) => capp("MSetGid", &[clist(gs, |g| cn(*g as u64))]),
        }
    }
}

fn posix_class(kind: u64) -> EntryClass {
    if kind == 0 { EntryClass::PosixAccount } else { EntryClass::PosixGroup }
}

fn map_err(e: &OperationError) -> &'static str {
    match e {
        OperationError::PL0001GidOverlapsSystemRange => "EGidRange",
        OperationError::SchemaViolation(_) => "ESchema",
        OperationError::AttributeUniqueness(a) if a.contains(&Attribute::GidNumber) => "EUnique",
        _ => "EOther",
    }
}

fn build_entry(kind: u64, posix: bool, u: Uuid, gids: &[u32], n: u64) -> Entry<EntryInit, EntryNew> {
    let mut e: Entry<EntryInit, EntryNew> = if kind == 0 {
        kanidmd_lib::entry_init!(
            (Attribute::Class, EntryClass::Object.to_value()),
            (Attribute::Class, EntryClass::Account.to_value()),
            (Attribute::Class, EntryClass::Person.to_value()),
            (Attribute::Name, Value::new_iname(&format!("c21p{}", n))),
            (Attribute::Uuid, Value::Uuid(u)),
            (Attribute::Description, Value::new_utf8s("c21")),
            (Attribute::DisplayName, Value::new_utf8s("c21"))
        )
    } else {
        kanidmd_lib::entry_init!(
            (Attribute::Class, EntryClass::Object.to_value()),
            (Attribute::Class, EntryClass::Group.to_value()),
            (Attribute::Name, Value::new_iname(&format!("c21g{}", n))),
            (Attribute::Uuid, Value::Uuid(u))
        )
    };
    if posix {
        e.add_ava(Attribute::Class, posix_class(kind).to_value());
    }
    for g in gids {
        e.add_ava(Attribute::GidNumber, Value::new_uint32(*g));
    }
    e
}

/// what the server holds for `u` inside the open transaction
fn read_back(w: &mut QueryServerWriteTransaction, kind: u64, u: Uuid) -> Out {
    match w.internal_search_uuid(u) {
        Ok(e) => {
            let posix = e.attribute_equality(Attribute::Class, &posix_class(kind).into());
            let mut gs: Vec<u32> = e
                .get_ava_set(Attribute::GidNumber)
                .and_then(|vs| vs.as_uint32_set().map(|s| s.iter().copied().collect()))
                .unwrap_or_default();
            gs.sort();
            gs.dedup();
            Out::Stored(posix, gs)
        }
        Err(_) => Out::Rejected("EOther"),
    }
}

fn to_modlist(kind: u64, ms: &[GMod]) -> ModifyList<ModifyInvalid> {
    let mut v = vec![];
    for m in ms {
        v.push(match m {
            GMod::PresPosix => Modify::Present(Attribute::Class, posix_class(kind).to_value()),
            GMod::RemPosix => Modify::Removed(Attribute::Class, posix_class(kind).into()),
            GMod::PresGid(g) => Modify::Present(Attribute::GidNumber, Value::new_uint32(*g)),
            GMod::RemGid(g) => Modify::Removed(Attribute::GidNumber, PartialValue::Uint32(*g)),
            GMod::PurgeGid => Modify::Purged(Attribute::GidNumber),
            GMod::SetGid(gs) => {
                let mut vs = ValueSetUint32::new(gs[0]);
                for g in &gs[1..] {
                    vs.push(*g);
                }
                let vs: ValueSet = vs;
                Modify::Set(Attribute::GidNumber, vs)
            }
        });
    }
    ModifyList::new_list(v)
}

const EDGES: &[u32] = &[
    0, 1, 500, 998, 999, 1000, 1001, 2000, 59999, 60000, 60001, 60002, 60576, 60577, 60578, 60579, 61182, 61183, 61184,
    61185, 65518, 65519, 65520, 65521, 65532, 65533, 65534, 65535, 65536, 65537, 524286, 524287, 524288, 524289,
    1879048190, 1879048191, 1879048192, 1879048193, 2147483646, 2147483647, 2147483648, 2147483649, 4294967294,
    4294967295,
];
const TAILS: &[u32] = &[
    0x0000_0000, 0x0000_0001, 0x0fff_ffff, 0x0fff_fffe, 0x1000_0000, 0x1000_0001, 0x6fff_ffff, 0x7000_0000, 0x7fff_ffff,
    0x8000_0000, 0x8fff_ffff, 0xf000_0000, 0xffff_ffff, 0xffff_fffe, 0x0000_ffff, 0x0000_fffe, 0x0001_0000, 0x00ff_ffff,
    0x0100_0000, 0x0f00_0000, 0xf0ff_ffff, 0x0000_03e7, 0x0000_03e8,
];

fn gen_gid_value(rng: &mut Rng) -> u32 {
    match rng.below(10) {
        0..=3 => *rng.pick(EDGES),
        4 => rng.below(70000) as u32,
        5 => rng.range(60000, 66000) as u32,
        6 => rng.range(520000, 530000) as u32,
        7 => (1u64 << rng.range(0, 32)).wrapping_sub(rng.below(2)).min(u32::MAX as u64) as u32,
        _ => rng.next() as u32,
    }
}

fn gen_uuid(rng: &mut Rng, k: usize) -> Uuid {
    // bytes 0..12: random and never all-zero (built-in entries live at 00000000-0000-0000-0000-…)
    let mut b = [0u8; 16];
    for x in b.iter_mut().take(12) {
        *x = rng.next() as u8;
    }
    if rng.chance(1, 16) {
        for x in b.iter_mut().take(12) {
            *x = 0xff;
        }
    }
    b[0] |= 0x10;
    let tail: u32 = if k < TAILS.len() {
        TAILS[k]
    } else if rng.chance(1, 5) {
        *rng.pick(TAILS)
    } else {
        rng.next() as u32
    };
    b[12..16].copy_from_slice(&tail.to_be_bytes());
    Uuid::from_bytes(b)
}

fn sorted_set(mut v: Vec<u32>) -> Vec<u32> {
    v.sort();
    v.dedup();
    v
}

fn gen_mods(rng: &mut Rng, base_gids: &[u32]) -> Vec<GMod> {
    let n = rng.range(1, 4);
    let mut ms = vec![];
    for _ in 0..n {
        ms.push(match rng.below(12) {
            0 | 1 => GMod::PresPosix,
            2 => GMod::RemPosix,
            3..=5 => GMod::PresGid(gen_gid_value(rng)),
            6 => {
                if !base_gids.is_empty() && rng.chance(2, 3) {
                    GMod::RemGid(*rng.pick(base_gids))
                } else {
                    GMod::RemGid(gen_gid_value(rng))
                }
            }
            7 | 8 => GMod::PurgeGid,
            9 | 10 => GMod::SetGid(vec![gen_gid_value(rng)]),
            _ => GMod::SetGid(sorted_set(vec![gen_gid_value(rng), gen_gid_value(rng)])),
        });
    }
    ms
}

fn nontrivial_out(gids_in: &[u32], out: &Out) -> bool {
    // a number was generated, a supplied number was range-checked, or the request was refused
    let _ = gids_in;
    !matches!(out, Out::Stored(false, _))
}

fn main() {
    // the plugin logs every generated / rejected number; keep the harness log small
    std::env::set_var("RUST_LOG", "off");
    let args = parse_args();
    let mut rng = Rng::new(args.seed);
    let mut sink = Sink::new(&args, "KV.C21.Model", 500);
    sink.rule = "one aborted write transaction per case on a real in-memory QueryServer. create: person(+posixaccount) or \
group(+posixgroup), uuid = random 12 bytes + last four bytes from a boundary table (0, 0x0fffffff, 0x10000000, 0x7fffffff, \
0x80000000, 0xffffffff, …) or random, with 0, 1 or 2 supplied gidnumber values drawn from every interval edge ±1 and random u32; \
modify: such an entry (its state read back) + 1..4 mods over {add/remove posix class, present/remove/purge/set gidnumber} through \
internal_modify_uuid or internal_batch_modify; collide: two posix entries without gidnumber in one transaction whose uuids share \
(or not) the low 28 bits. non-trivial = the entry is posix after the operation (a number was generated or a supplied one was \
range-checked) or the operation was refused".into();
    let rt = tokio::runtime::Builder::new_current_thread().enable_all().build().expect("rt");
    let qs = rt.block_on(setup_test(TestConfiguration::default()));
    let mut ts = 1_800_000_000u64;
    let mut n = 0u64;

    let n_create = if args.thorough { 40000 } else { 6000 };
    let n_modify = if args.thorough { 40000 } else { 6000 };
    let n_collide = if args.thorough { 3000 } else { 400 };

    // ---------------------------------------------------------------- creates
    for k in 0..n_create {
        n += 1;
        ts += 1;
        let nt = 2 * TAILS.len();
        let ne = 2 * EDGES.len();
        let (kind, posix, u, gids): (u64, bool, Uuid, Vec<u32>) = if k < nt {
            // every boundary tail, for both kinds, as a posix create without a supplied number
            ((k % 2) as u64, true, gen_uuid(&mut rng, k / 2), vec![])
        } else if k < nt + ne {
            // every interval edge, for both kinds, as a posix create with that supplied number
            ((k % 2) as u64, true, gen_uuid(&mut rng, usize::MAX), vec![EDGES[(k - nt) / 2]])
        } else {
            let kind = rng.below(2);
            let u = gen_uuid(&mut rng, usize::MAX);
            let posix = rng.chance(5, 6);
            let gids = match rng.below(8) {
                0..=2 => vec![],
                3..=6 => vec![gen_gid_value(&mut rng)],
                _ => sorted_set(vec![gen_gid_value(&mut rng), gen_gid_value(&mut rng)]),
            };
            (kind, posix, u, gids)
        };
        let out = rt.block_on(async {
            let mut w = qs.write(Duration::from_secs(ts)).await.expect("write txn");
            let r = w.internal_create(vec![build_entry(kind, posix, u, &gids, n)]);
            match r {
                Ok(()) => read_back(&mut w, kind, u),
                Err(e) => Out::Rejected(map_err(&e)),
            }
            // w dropped: abort
        });
        sink.bump(match (&out, gids.len()) {
            (Out::Stored(true, _), 0) => "create_generated",
            (Out::Stored(true, _), _) => "create_supplied_accepted",
            (Out::Stored(false, _), _) => "create_nonposix",
            (Out::Rejected("EGidRange"), _) => "create_rejected_range",
            (Out::Rejected("ESchema"), _) => "create_rejected_schema",
            (Out::Rejected(_), _) => "create_rejected_other",
        });
        sink.case(
            capp("CCreate", &[cn(kind), cbool(posix), cbytes(u.as_bytes()), clist(&gids, |g| cn(*g as u64)), out.coq()]),
            format!("create kind={} posix={} uuid={} gids={:?} -> {}", kind, posix, u, gids, out.txt()),
            nontrivial_out(&gids, &out) && (posix || !gids.is_empty()),
        );
    }

    // ---------------------------------------------------------------- modifies
    let mut done = 0;
    while done < n_modify {
        n += 1;
        ts += 1;
        let kind = rng.below(2);
        let u = gen_uuid(&mut rng, usize::MAX);
        let base_posix = rng.chance(2, 3);
        let base_gids: Vec<u32> = if base_posix && rng.chance(1, 2) {
            // a valid supplied number
            let ok: [u32; 8] = [1000, 60000, 60578, 65533, 65536, 524288, 1879048191, 2147483647];
            vec![if rng.chance(1, 2) { *rng.pick(&ok) } else { rng.range(1000, 60000) as u32 }]
        } else {
            vec![]
        };
        let batch = rng.chance(1, 3);
        let res = rt.block_on(async {
            let mut w = qs.write(Duration::from_secs(ts)).await.expect("write txn");
            if w.internal_create(vec![build_entry(kind, base_posix, u, &base_gids, n)]).is_err() {
                return None;
            }
            let base = read_back(&mut w, kind, u);
            let (bp, bg) = match &base {
                Out::Stored(p, g) => (*p, g.clone()),
                _ => return None,
            };
            let ms = gen_mods(&mut rng, &bg);
            let ml = to_modlist(kind, &ms);
            let r = if batch {
                w.internal_batch_modify(vec![(u, ml)].into_iter())
            } else {
                w.internal_modify_uuid(u, &ml)
            };
            let out = match r {
                Ok(()) => read_back(&mut w, kind, u),
                Err(e) => Out::Rejected(map_err(&e)),
            };
            Some((bp, bg, ms, out))
        });
        let (bp, bg, ms, out) = match res {
            Some(x) => x,
            None => {
                sink.bump("modify_base_create_failed");
                continue;
            }
        };
        done += 1;
        sink.bump(match &out {
            Out::Stored(true, _) => "modify_stored_posix",
            Out::Stored(false, _) => "modify_stored_nonposix",
            Out::Rejected("EGidRange") => "modify_rejected_range",
            Out::Rejected("ESchema") => "modify_rejected_schema",
            Out::Rejected(_) => "modify_rejected_other",
        });
        if batch {
            sink.bump("modify_via_batch");
        }
        let ms_coq: Vec<String> = ms.iter().map(|m| m.coq()).collect();
        let nt = !matches!(out, Out::Stored(false, _));
        sink.case(
            capp(
                "CModify",
                &[cn(kind), cbool(batch), cbool(bp), cbytes(u.as_bytes()), clist(&bg, |g| cn(*g as u64)), clist_s(&ms_coq), out.coq()],
            ),
            format!("modify kind={} batch={} base(posix={},gids={:?}) uuid={} mods={:?} -> {}", kind, batch, bp, bg, u, ms, out.txt()),
            nt,
        );
    }

    // ---------------------------------------------------------------- collisions (gidnumber is a unique attribute)
    for k in 0..n_collide {
        n += 2;
        ts += 1;
        let u1 = gen_uuid(&mut rng, usize::MAX);
        let mut b2 = *gen_uuid(&mut rng, usize::MAX).as_bytes();
        let mode = k % 4;
        match mode {
            0 => {
                // same last four bytes
                b2[12..16].copy_from_slice(&u1.as_bytes()[12..16]);
            }
            1 => {
                // same low 28 bits, different top nibble
                b2[12..16].copy_from_slice(&u1.as_bytes()[12..16]);
                b2[12] ^= 0x10 << rng.below(4);
            }
            2 => {
                // differ in exactly one of the low 28 bits
                b2[12..16].copy_from_slice(&u1.as_bytes()[12..16]);
                let bit = rng.below(28);
                let mut t = u32::from_be_bytes([b2[12], b2[13], b2[14], b2[15]]);
                t ^= 1 << bit;
                b2[12..16].copy_from_slice(&t.to_be_bytes());
            }
            _ => {}
        }
        let u2 = Uuid::from_bytes(b2);
        if u1 == u2 {
            continue;
        }
        let (k1, k2) = (rng.below(2), rng.below(2));
        let out2 = rt.block_on(async {
            let mut w = qs.write(Duration::from_secs(ts)).await.expect("write txn");
            if w.internal_create(vec![build_entry(k1, true, u1, &[], n)]).is_err() {
                return None;
            }
            Some(match w.internal_create(vec![build_entry(k2, true, u2, &[], n + 1)]) {
                Ok(()) => read_back(&mut w, k2, u2),
                Err(e) => Out::Rejected(map_err(&e)),
            })
        });
        let out2 = match out2 {
            Some(o) => o,
            None => {
                sink.bump("collide_first_create_failed");
                continue;
            }
        };
        sink.bump(if matches!(out2, Out::Rejected(_)) { "collide_rejected" } else { "collide_distinct" });
        sink.case(
            capp("CCollide", &[cbytes(u1.as_bytes()), cbytes(u2.as_bytes()), out2.coq()]),
            format!("collide u1={} u2={} -> {}", u1, u2, out2.txt()),
            mode != 3,
        );
    }
    sink.finish();
}
