//! C07 — change identifiers strictly increase (aborts, restarts, clock regressions).
//!
//! Drives a REAL QueryServer on a file-backed SQLite database through random
//! op lists and records what it observes; the Coq model (KV.C07.Model) is run on
//! the same op list by `agree`, and `pcheck` tests strict monotonicity on the
//! implementation's own observations.
use kanidm_proto::internal::FsType;
use kanidmd_lib::be::{Backend, BackendConfig};
use kanidmd_lib::entry::{Entry, EntryInit, EntryNew};
use kanidmd_lib::prelude::*;
use kanidmd_lib::schema::Schema;
use kvh::*;

#[derive(Clone, Debug)]
enum Op {
    Commit(u64), // transaction time (ns)
    Abort(u64),
    Restart(u64),
}

/// What the implementation let us observe for each op.
#[derive(Clone, Debug)]
enum Obs {
    /// cid of the txn and the created entry's `at` cid read back after commit
    Committed(u64, u64),
    Aborted(u64),
    /// cid_max right after QueryServer::new, cid_max after initialise_helper, db_ts_max after init
    Restarted(u64, u64, u64),
}

fn ns(d: Duration) -> u64 {
    d.as_nanos() as u64
}

fn open_server(path: &std::path::Path, ct: Duration) -> QueryServer {
    let schema_outer = Schema::new().expect("schema");
    let idxmeta = {
        let schema_txn = schema_outer.write();
        schema_txn.reload_idxmeta()
    };
    let cfg = BackendConfig::new(Some(path), 1, FsType::Generic, Some(2048));
    let be = Backend::new(cfg, idxmeta, false).expect("be");
    QueryServer::new(be, schema_outer, "example.com".to_string(), ct).expect("qs")
}

async fn run_history(dir: &std::path::Path, hid: usize, t0: u64, ops: &[Op]) -> (Vec<u64>, Vec<Obs>) {
    let path = dir.join(format!("c07_{}.db", hid));
    let _ = std::fs::remove_file(&path);
    // first start
    let mut start = vec![];
    let mut qs = open_server(&path, Duration::from_nanos(t0));
    start.push(ns(qs.verif_cid_max()));
    qs.initialise_helper(Duration::from_nanos(t0), DOMAIN_TGT_LEVEL)
        .await
        .expect("init");
    start.push(ns(qs.verif_cid_max()));
    start.push(qs.verif_db_ts_max().expect("dbts").map(ns).unwrap_or(0));
    let mut obs = vec![];
    let mut n = 0u32;
    for op in ops {
        match op {
            Op::Commit(ct) => {
                let mut w = qs.write(Duration::from_nanos(*ct)).await.expect("write");
                let cid = ns(w.verif_cid().ts);
                let u = Uuid::from_u128(0xabcd_0000_0000_0000_0000_0000_0000_0000u128 + ((hid as u128) << 32) + n as u128);
                n += 1;
                let e: Entry<EntryInit, EntryNew> = kanidmd_lib::entry_init!(
                    (Attribute::Class, EntryClass::Object.to_value()),
                    (Attribute::Class, EntryClass::Group.to_value()),
                    (Attribute::Name, Value::new_iname(&format!("g{}x{}", hid, n))),
                    (Attribute::Uuid, Value::Uuid(u))
                );
                w.internal_create(vec![e]).expect("create");
                w.commit().expect("commit");
                let mut r = qs.read().await.expect("read");
                let e = r.internal_search_uuid(u).expect("search");
                let at = ns(e.get_changestate().at().ts);
                obs.push(Obs::Committed(cid, at));
            }
            Op::Abort(ct) => {
                let mut w = qs.write(Duration::from_nanos(*ct)).await.expect("write");
                let cid = ns(w.verif_cid().ts);
                let u = Uuid::from_u128(0xdead_0000_0000_0000_0000_0000_0000_0000u128 + n as u128);
                let e: Entry<EntryInit, EntryNew> = kanidmd_lib::entry_init!(
                    (Attribute::Class, EntryClass::Object.to_value()),
                    (Attribute::Class, EntryClass::Group.to_value()),
                    (Attribute::Name, Value::new_iname(&format!("aborted{}", n))),
                    (Attribute::Uuid, Value::Uuid(u))
                );
                let _ = w.internal_create(vec![e]);
                drop(w);
                obs.push(Obs::Aborted(cid));
            }
            Op::Restart(ct) => {
                drop(qs);
                qs = open_server(&path, Duration::from_nanos(*ct));
                let a = ns(qs.verif_cid_max());
                qs.initialise_helper(Duration::from_nanos(*ct), DOMAIN_TGT_LEVEL)
                    .await
                    .expect("init");
                let b = ns(qs.verif_cid_max());
                let c = qs.verif_db_ts_max().expect("dbts").map(ns).unwrap_or(0);
                obs.push(Obs::Restarted(a, b, c));
            }
        }
    }
    drop(qs);
    let _ = std::fs::remove_file(&path);
    let _ = std::fs::remove_file(path.with_extension("db-wal"));
    let _ = std::fs::remove_file(path.with_extension("db-shm"));
    (start, obs)
}

fn main() {
    let args = parse_args();
    let mut rng = Rng::new(args.seed);
    let mut sink = Sink::new(&args, "KV.C07.Model", 400);
    sink.rule = "random op lists (commit/abort/restart, len<=12 quick / <=30 thorough) on a real file-backed QueryServer; \
transaction times from a small grid so equal and regressing clocks are frequent; plus the exhaustive (ct,max) grid on Cid::new_lamport. \
non-trivial = the history contains a clock regression or repeat AND (an abort or a restart)".into();
    let rt = tokio::runtime::Builder::new_current_thread().enable_all().build().expect("rt");
    let dir = args.out.join("scratch");
    std::fs::create_dir_all(&dir).expect("scratch");

    // Part 1: exhaustive grid on the pure function.
    let s_uuid = Uuid::from_u128(7);
    let grid: Vec<u64> = vec![0, 1, 2, 3, 999_999_999, 1_000_000_000, 1_000_000_001, 5_000_000_000, u32::MAX as u64, (u32::MAX as u64) * 1_000_000_000];
    for ct in &grid {
        for mx in &grid {
            let c = Cid::new_lamport(s_uuid, Duration::from_nanos(*ct), &Duration::from_nanos(*mx));
            let out = ns(c.ts);
            sink.case(
                capp("CLamport", &[cn(*ct), cn(*mx), cn(out)]),
                format!("lamport ct={} max={} -> {}", ct, mx, out),
                ct <= mx,
            );
            sink.bump("lamport_grid");
        }
    }

    // Part 1b: the derived Ord of Cid (ts first, then server uuid).
    let ts_grid: Vec<u64> = vec![0, 1, 2, 1_000_000_000, 1_000_000_001];
    let sid_grid: Vec<u128> = vec![0, 1, 2, u64::MAX as u128, (u64::MAX as u128) + 1, u128::MAX];
    for t1 in &ts_grid { for s1 in &sid_grid { for t2 in &ts_grid { for s2 in &sid_grid {
        let a = Cid { ts: Duration::from_nanos(*t1), s_uuid: Uuid::from_u128(*s1) };
        let b = Cid { ts: Duration::from_nanos(*t2), s_uuid: Uuid::from_u128(*s2) };
        let r = match a.cmp(&b) { std::cmp::Ordering::Less => 0, std::cmp::Ordering::Equal => 1, std::cmp::Ordering::Greater => 2 };
        sink.case(
            capp("CCidCmp", &[cn(*t1), cn128(*s1), cn(*t2), cn128(*s2), cn(r)]),
            format!("cidcmp ({},{}) vs ({},{}) -> {}", t1, s1, t2, s2, r),
            t1 != t2 && ((s1 < s2) != (t1 < t2)),
        );
        sink.bump("cid_cmp_grid");
    }}}}

    // Part 2: histories on the real server.
    let n_hist = if args.thorough { 400 } else { 40 };
    let max_len = if args.thorough { 30 } else { 12 };
    let base: u64 = 1_700_000_000_000_000_000;
    let times: Vec<u64> = vec![base, base + 1, base + 2, base + 1_000_000_000, base + 5_000_000_000, base - 1_000_000_000, base - 7, base + 3];
    for hid in 0..n_hist {
        let len = rng.range(3, max_len) as usize;
        let mut ops = vec![];
        for _ in 0..len {
            let t = *rng.pick(&times);
            let k = rng.below(10);
            ops.push(if k < 6 { Op::Commit(t) } else if k < 8 { Op::Abort(t) } else { Op::Restart(t) });
        }
        let t0 = *rng.pick(&times);
        let (start, obs) = rt.block_on(run_history(&dir, hid, t0, &ops));
        let mut regress = false;
        let mut last = t0;
        let mut special = false;
        let mut coq_ops = vec![];
        let mut txt = format!("hist t0={} start={:?}:", t0 - base.min(t0), start);
        for (op, ob) in ops.iter().zip(obs.iter()) {
            let (t, s) = match (op, ob) {
                (Op::Commit(t), Obs::Committed(c, at)) => {
                    sink.bump("op_commit");
                    (*t, capp("OCommit", &[cn(*t), cn(*c), cn(*at)]))
                }
                (Op::Abort(t), Obs::Aborted(c)) => {
                    special = true;
                    sink.bump("op_abort");
                    (*t, capp("OAbort", &[cn(*t), cn(*c)]))
                }
                (Op::Restart(t), Obs::Restarted(a, b, c)) => {
                    special = true;
                    sink.bump("op_restart");
                    (*t, capp("ORestart", &[cn(*t), cn(*a), cn(*b), cn(*c)]))
                }
                _ => unreachable!(),
            };
            if t <= last {
                regress = true;
            }
            last = t;
            let _ = std::fmt::Write::write_fmt(&mut txt, format_args!(" {:?}=>{:?}", op, ob));
            coq_ops.push(s);
        }
        sink.case(
            capp("CHist", &[cn(t0), cn(start[0]), cn(start[1]), cn(start[2]), clist_s(&coq_ops)]),
            txt,
            regress && special,
        );
    }
    let _ = std::fs::remove_dir_all(&dir);
    sink.finish();
}
