//! C43 — PAM fails closed.
//!
//! Drives the REAL `pam_sparkle_common::core::{sm_authenticate, acct_mgmt}` (re-exported by the
//! crate's `verif-hooks` feature) with
//!  * a scripted `PamHandler` test double (service info, account id, stacked authtok and ONE
//!    conversation queue that answers every prompt / message, each of them may fail with an
//!    arbitrary PamResultCode),
//!  * daemon mode: a fake resolver on a real unix socket (thread) that answers the module's
//!    framed JSON requests from a random script — every `PamAuthResponse` kind, `Error`, wrong
//!    reply kinds, undecodable frames, partial frames, early disconnects — and records the requests
//!    it received; the client is the real `DaemonClientBlocking` (timeout 1 s),
//!  * fallback mode: random /etc/passwd + /etc/shadow FILES written to the scratch directory and
//!    read back by the real `read_etc_passwd_file` / `read_etc_shadow_file` (csv + serde +
//!    `CryptPw::from_str`), with supported / unsupported / locked / empty / mangled hashes,
//!    duplicate entries, expiry days around the chosen current time, unreadable / malformed files.
//! Observed: the PamResultCode (or a panic), the requests the daemon saw, the conversation calls
//! the module made, the number of script events the daemon served.
#![allow(dead_code)]

use kanidm_proto::internal::OperationError;
use kvh::*;
use pam_sparkle_common::constants::PamResultCode;
use pam_sparkle_common::module::PamResult;
use pam_sparkle_common::verif_hooks as core;
use pam_sparkle_common::verif_hooks::{PamHandler, RequestOptions};
use pam_sparkle_common::ModuleOptions;
use sparkle_unix_common::client_sync::DaemonClientBlocking;
use sparkle_unix_common::unix_passwd::{read_etc_passwd_file, read_etc_shadow_file, CryptPw};
use sparkle_unix_common::unix_proto::{
    ClientRequest, ClientResponse, DeviceAuthorizationResponse, NssGroup, NssUser, PamAuthRequest, PamAuthResponse,
    PamServiceInfo, ProviderStatus,
};
use std::collections::VecDeque;
use std::io::{Read, Write};
use std::os::unix::net::UnixListener;
use std::path::{Path, PathBuf};
use std::str::FromStr;
use std::sync::{Arc, Mutex};
use std::time::Duration;
use time::OffsetDateTime;

// ------------------------------------------------------------------ PamResultCode <-> number

fn code(n: u32) -> PamResultCode {
    use PamResultCode::*;
    match n {
        0 => PAM_SUCCESS,
        1 => PAM_OPEN_ERR,
        2 => PAM_SYMBOL_ERR,
        3 => PAM_SERVICE_ERR,
        4 => PAM_SYSTEM_ERR,
        5 => PAM_BUF_ERR,
        6 => PAM_PERM_DENIED,
        7 => PAM_AUTH_ERR,
        8 => PAM_CRED_INSUFFICIENT,
        9 => PAM_AUTHINFO_UNAVAIL,
        10 => PAM_USER_UNKNOWN,
        11 => PAM_MAXTRIES,
        12 => PAM_NEW_AUTHTOK_REQD,
        13 => PAM_ACCT_EXPIRED,
        14 => PAM_SESSION_ERR,
        15 => PAM_CRED_UNAVAIL,
        16 => PAM_CRED_EXPIRED,
        17 => PAM_CRED_ERR,
        18 => PAM_NO_MODULE_DATA,
        19 => PAM_CONV_ERR,
        20 => PAM_AUTHTOK_ERR,
        21 => PAM_AUTHTOK_RECOVERY_ERR,
        22 => PAM_AUTHTOK_LOCK_BUSY,
        23 => PAM_AUTHTOK_DISABLE_AGING,
        24 => PAM_TRY_AGAIN,
        25 => PAM_IGNORE,
        26 => PAM_ABORT,
        27 => PAM_AUTHTOK_EXPIRED,
        28 => PAM_MODULE_UNKNOWN,
        29 => PAM_BAD_ITEM,
        30 => PAM_CONV_AGAIN,
        _ => PAM_INCOMPLETE,
    }
}

// ------------------------------------------------------------------ the PamHandler test double

#[derive(Clone, Debug)]
enum HRes<T> {
    Ok(T),
    Err(u32),
}

#[derive(Clone, Debug)]
struct HSpec {
    service: HRes<()>,
    account: HRes<String>,
    authtok: HRes<Option<String>>,
    conv: Vec<HRes<Option<String>>>,
}

struct Handler {
    spec: HSpec,
    conv: Mutex<VecDeque<HRes<Option<String>>>>,
    /// kinds of conversation calls made, in order: 1 password, 2 pin, 3 new pin, 4 confirm pin,
    /// 5 mfa code, 6 message, 7 device grant message
    log: Mutex<Vec<u64>>,
}

impl Handler {
    fn new(spec: &HSpec) -> Self {
        Handler { spec: spec.clone(), conv: Mutex::new(spec.conv.iter().cloned().collect()), log: Mutex::new(vec![]) }
    }
    fn pop(&self, kind: u64) -> PamResult<Option<String>> {
        self.log.lock().expect("log").push(kind);
        match self.conv.lock().expect("conv").pop_front() {
            Some(HRes::Ok(v)) => Ok(v),
            Some(HRes::Err(e)) => Err(code(e)),
            None => Err(PamResultCode::PAM_CONV_ERR), // nobody answers any more
        }
    }
}

impl PamHandler for Handler {
    fn account_id(&self) -> PamResult<String> {
        match &self.spec.account {
            HRes::Ok(a) => Ok(a.clone()),
            HRes::Err(e) => Err(code(*e)),
        }
    }
    fn service_info(&self) -> PamResult<PamServiceInfo> {
        match &self.spec.service {
            HRes::Ok(()) => Ok(PamServiceInfo { service: "sshd".into(), tty: Some("pts/0".into()), rhost: None }),
            HRes::Err(e) => Err(code(*e)),
        }
    }
    fn envlist(&self) -> PamResult<Vec<String>> {
        Ok(vec![])
    }
    fn set_env(&self, _value: &str) -> PamResult<()> {
        Ok(())
    }
    fn authtok(&self) -> PamResult<Option<String>> {
        match &self.spec.authtok {
            HRes::Ok(a) => Ok(a.clone()),
            HRes::Err(e) => Err(code(*e)),
        }
    }
    fn message(&self, _prompt: &str) -> PamResult<()> {
        self.pop(6).map(|_| ())
    }
    fn message_device_grant(&self, _data: &DeviceAuthorizationResponse) -> PamResult<()> {
        self.pop(7).map(|_| ())
    }
    fn prompt_for_password(&self) -> PamResult<Option<String>> {
        self.pop(1)
    }
    fn prompt_for_pin(&self, msg: Option<&str>) -> PamResult<Option<String>> {
        self.pop(match msg {
            None => 2,
            Some("New PIN: ") => 3,
            Some("Confirm PIN: ") => 4,
            Some(_) => 99,
        })
    }
    fn prompt_for_mfacode(&self) -> PamResult<Option<String>> {
        self.pop(5)
    }
}

// ------------------------------------------------------------------ the fake resolver daemon

#[derive(Clone, Debug)]
enum Reply {
    Unknown,
    Success,
    Denied,
    Password,
    Device(u32),
    MfaCode,
    MfaPoll(u32),
    MfaPollWait,
    SetupPin,
    Pin,
}

#[derive(Clone, Debug)]
enum DEv {
    Step(Reply, u64),
    Error,
    PamStatus(Option<bool>),
    Other(u64), // 0 Ok 1 SshKeys 2 NssAccounts 3 NssAccount 4 NssGroups 5 NssGroup 6 ProviderStatus
    Garbage,
    /// transport failure; how: 0 close at once, 1 half a frame then close, 2 say nothing (client times out)
    Eof(u8),
}

fn response_of(ev: &DEv) -> Option<ClientResponse> {
    let dar = |exp: u32| DeviceAuthorizationResponse {
        device_code: "dc".into(),
        user_code: "uc".into(),
        verification_uri: "https://idm.example/dev".into(),
        verification_uri_complete: None,
        expires_in: exp,
        interval: Some(1),
        message: None,
    };
    Some(match ev {
        DEv::Step(r, sid) => ClientResponse::PamAuthenticateStepResponse {
            response: match r {
                Reply::Unknown => PamAuthResponse::Unknown,
                Reply::Success => PamAuthResponse::Success,
                Reply::Denied => PamAuthResponse::Denied,
                Reply::Password => PamAuthResponse::Password,
                Reply::Device(e) => PamAuthResponse::DeviceAuthorizationGrant { data: dar(*e) },
                Reply::MfaCode => PamAuthResponse::MFACode { msg: "code".into() },
                Reply::MfaPoll(iv) => PamAuthResponse::MFAPoll { msg: "poll".into(), polling_interval: *iv },
                Reply::MfaPollWait => PamAuthResponse::MFAPollWait,
                Reply::SetupPin => PamAuthResponse::SetupPin { msg: "setup".into() },
                Reply::Pin => PamAuthResponse::Pin,
            },
            session_id: *sid,
        },
        DEv::Error => ClientResponse::Error(OperationError::InvalidState),
        DEv::PamStatus(s) => ClientResponse::PamStatus(*s),
        DEv::Other(k) => match k {
            0 => ClientResponse::Ok,
            1 => ClientResponse::SshKeys(vec!["ssh-ed25519 AAAA".into()]),
            2 => ClientResponse::NssAccounts(vec![]),
            3 => ClientResponse::NssAccount(Some(NssUser {
                name: "alice".into(),
                uid: 1000,
                gid: 1000,
                gecos: "".into(),
                homedir: "/home/alice".into(),
                shell: "/bin/sh".into(),
            })),
            4 => ClientResponse::NssGroups(vec![]),
            5 => ClientResponse::NssGroup(Some(NssGroup { name: "g".into(), gid: 5, members: vec![] })),
            _ => ClientResponse::ProviderStatus(vec![ProviderStatus { name: "kanidm".into(), online: true }]),
        },
        DEv::Garbage | DEv::Eof(_) => return None,
    })
}

/// canonical (Coq term, text) of a request seen by the daemon
fn req_term(r: &ClientRequest) -> (String, String) {
    match r {
        ClientRequest::PamAuthenticateInit { account_id, .. } => {
            (capp("QInit", &[cstr(account_id)]), format!("Init({})", account_id))
        }
        ClientRequest::PamAccountAllowed { account_id, .. } => {
            (capp("QAcct", &[cstr(account_id)]), format!("AccountAllowed({})", account_id))
        }
        ClientRequest::PamAuthenticateStep { request, session_id } => {
            let sid = cn(*session_id);
            match request {
                PamAuthRequest::Password { cred } => {
                    (capp("QPassword", &[cstr(cred), sid]), format!("Password({},{})", cred, session_id))
                }
                PamAuthRequest::DeviceAuthorizationGrant { .. } => (capp("QDevice", &[sid]), format!("Device({})", session_id)),
                PamAuthRequest::MFACode { cred } => {
                    (capp("QMfaCode", &[cstr(cred), sid]), format!("MfaCode({},{})", cred, session_id))
                }
                PamAuthRequest::MFAPoll => (capp("QMfaPoll", &[sid]), format!("MfaPoll({})", session_id)),
                PamAuthRequest::SetupPin { pin } => {
                    (capp("QSetupPin", &[cstr(pin), sid]), format!("SetupPin({},{})", pin, session_id))
                }
                PamAuthRequest::Pin { cred } => (capp("QPin", &[cstr(cred), sid]), format!("Pin({},{})", cred, session_id)),
            }
        }
        other => ("QOther".into(), format!("Other({})", other.as_safe_string())),
    }
}

struct DaemonLog {
    reqs: Vec<(String, String)>,
    served: u64,
}

fn read_frame(s: &mut std::os::unix::net::UnixStream) -> Option<Vec<u8>> {
    let mut len = [0u8; 4];
    s.read_exact(&mut len).ok()?;
    let n = u32::from_be_bytes(len) as usize;
    let mut body = vec![0u8; n];
    s.read_exact(&mut body).ok()?;
    Some(body)
}

fn serve(l: UnixListener, script: Vec<DEv>, log: Arc<Mutex<DaemonLog>>) {
    let _ = l.set_nonblocking(false);
    let Ok((mut s, _)) = l.accept() else { return };
    let _ = s.set_read_timeout(Some(Duration::from_secs(8)));
    let mut script: VecDeque<DEv> = script.into_iter().collect();
    loop {
        let Some(body) = read_frame(&mut s) else { return };
        match serde_json::from_slice::<ClientRequest>(&body) {
            Ok(r) => log.lock().expect("log").reqs.push(req_term(&r)),
            Err(_) => log.lock().expect("log").reqs.push(("QOther".into(), "Undecodable".into())),
        }
        let Some(ev) = script.pop_front() else {
            return; // script exhausted: the daemon goes away
        };
        log.lock().expect("log").served += 1;
        match &ev {
            DEv::Garbage => {
                let body = b"{\"PamAuthenticateStepResponse\":{\"response\":\"Succ";
                let mut out = (body.len() as u32).to_be_bytes().to_vec();
                out.extend_from_slice(body);
                if s.write_all(&out).is_err() {
                    return;
                }
            }
            DEv::Eof(how) => {
                match how {
                    0 => {}
                    1 => {
                        // half of a valid Success frame, then close
                        let body = serde_json::to_vec(&ClientResponse::PamAuthenticateStepResponse {
                            response: PamAuthResponse::Success,
                            session_id: 1,
                        })
                        .expect("json");
                        let mut out = (body.len() as u32).to_be_bytes().to_vec();
                        out.extend_from_slice(&body[..body.len() / 2]);
                        let _ = s.write_all(&out);
                    }
                    _ => {
                        // silent: wait until the client gives up and closes
                        let mut b = [0u8; 16];
                        let _ = s.read(&mut b);
                    }
                }
                return;
            }
            other => {
                let resp = response_of(other).expect("reply");
                let body = serde_json::to_vec(&resp).expect("json");
                let mut out = (body.len() as u32).to_be_bytes().to_vec();
                out.extend_from_slice(&body);
                if s.write_all(&out).is_err() {
                    return;
                }
            }
        }
    }
}

// ------------------------------------------------------------------ cases

#[derive(Clone, Debug)]
struct SEnt {
    name: String,
    pw: String,
    expire: Option<i64>,
    /// the other (unmodelled) fields: lastchg, min, max, warn, inact
    filler: [String; 5],
}

#[derive(Clone, Debug)]
enum Source {
    Daemon(Vec<DEv>),
    /// None = the file is unreadable or has a malformed record
    Fallback { users: Option<Vec<String>>, shadow: Option<Vec<SEnt>>, users_how: u8, shadow_how: u8 },
}

#[derive(Clone, Debug)]
struct Case {
    acct: bool, // false: sm_authenticate, true: acct_mgmt
    first_pass: bool,
    ignore_unknown: bool,
    debug: bool,
    h: HSpec,
    src: Source,
    ct_secs: i64,
    ct_nanos: u32,
    tag: String,
    costly: bool,
}

#[derive(Clone, Debug)]
struct Obs {
    out: Result<u32, String>,
    reqs: Vec<(String, String)>,
    served: u64,
    conv: Vec<u64>,
    secs: f64,
}

fn render_passwd(users: &[String]) -> String {
    let mut s = String::from("# generated\n");
    for (i, u) in users.iter().enumerate() {
        s.push_str(&format!("{}:x:{}:{}:gecos {}:/home/{}:/bin/sh\n", u, 1000 + i, 1000 + i, i, i));
    }
    s
}
fn render_shadow(sh: &[SEnt]) -> String {
    let mut s = String::new();
    for e in sh {
        s.push_str(&format!(
            "{}:{}:{}:{}:{}:{}:{}:{}:\n",
            e.name,
            e.pw,
            e.filler[0],
            e.filler[1],
            e.filler[2],
            e.filler[3],
            e.filler[4],
            e.expire.map(|d| d.to_string()).unwrap_or_default()
        ));
    }
    s
}

fn run_case(c: &Case, dir: &Path, slot: usize) -> Obs {
    let t0 = std::time::Instant::now();
    let opts = ModuleOptions { debug: c.debug, use_first_pass: c.first_pass, ignore_unknown_user: c.ignore_unknown };
    let h = Handler::new(&c.h);
    let ct = OffsetDateTime::from_unix_timestamp(c.ct_secs).expect("time") + time::Duration::nanoseconds(c.ct_nanos as i64);
    core::CLIENT.with_borrow_mut(|cl| *cl = None);
    let log = Arc::new(Mutex::new(DaemonLog { reqs: vec![], served: 0 }));
    let mut server = None;
    let req_opt = match &c.src {
        Source::Daemon(script) => {
            let path = dir.join(format!("d{}.sock", slot));
            let _ = std::fs::remove_file(&path);
            let l = UnixListener::bind(&path).expect("bind");
            let (sc, lg) = (script.clone(), log.clone());
            server = Some(std::thread::spawn(move || serve(l, sc, lg)));
            let client = DaemonClientBlocking::new(path.to_str().expect("path"), 1).expect("connect");
            RequestOptions::Verif { client: Some(client), users: vec![], shadow: vec![] }
        }
        Source::Fallback { users, shadow, users_how, shadow_how } => {
            let pp = dir.join(format!("passwd{}", slot));
            let sp = dir.join(format!("shadow{}", slot));
            let _ = std::fs::remove_file(&pp);
            let _ = std::fs::remove_file(&sp);
            match users {
                Some(u) => std::fs::write(&pp, render_passwd(u)).expect("write"),
                None => {
                    if *users_how == 1 {
                        std::fs::write(&pp, "alice:x:1000:1000:a:/home/a:/bin/sh\nbob:x:notanumber:1:b:/home/b:/bin/sh\n").expect("write")
                    }
                }
            }
            match shadow {
                Some(s) => std::fs::write(&sp, render_shadow(s)).expect("write"),
                None => match shadow_how {
                    1 => std::fs::write(&sp, "alice:$6$abc$def:19980:0:99999:7:::\nbob:!:19980\n").expect("write"),
                    2 => std::fs::write(&sp, "alice:$6$abc$def:19980:0:99999:7::soon:\n").expect("write"),
                    _ => {}
                },
            }
            // exactly what RequestOptions::Main does with the system files
            let users = read_etc_passwd_file(&pp).unwrap_or_default();
            let shadow = read_etc_shadow_file(&sp).unwrap_or_default();
            let _ = std::fs::remove_file(&pp);
            let _ = std::fs::remove_file(&sp);
            RequestOptions::Verif { client: None, users, shadow }
        }
    };
    let acct = c.acct;
    let r = std::panic::catch_unwind(std::panic::AssertUnwindSafe(|| {
        if acct {
            core::acct_mgmt(&h, &opts, req_opt, ct)
        } else {
            core::sm_authenticate(&h, &opts, req_opt, ct)
        }
    }));
    core::CLIENT.with_borrow_mut(|cl| *cl = None);
    if let Some(s) = server {
        let _ = s.join();
    }
    if let Source::Daemon(_) = &c.src {
        let _ = std::fs::remove_file(dir.join(format!("d{}.sock", slot)));
    }
    let lg = log.lock().expect("log");
    let conv = h.log.lock().expect("log").clone();
    Obs {
        out: match r {
            Ok(code) => Ok(code as u32),
            Err(_) => Err("panic".into()),
        },
        reqs: lg.reqs.clone(),
        served: lg.served,
        conv,
        secs: t0.elapsed().as_secs_f64(),
    }
}

// ------------------------------------------------------------------ printing

fn c_hres<T, F: Fn(&T) -> String>(r: &HRes<T>, f: F) -> String {
    match r {
        HRes::Ok(v) => format!("(HOk {})", f(v)),
        HRes::Err(e) => format!("(HErr {})", cn(*e as u64)),
    }
}
fn c_handler(h: &HSpec) -> String {
    capp(
        "mkH",
        &[
            c_hres(&h.service, |_| "tt".into()),
            c_hres(&h.account, |a| cstr(a)),
            c_hres(&h.authtok, |a| copt(a, |x| cstr(x))),
            clist(&h.conv, |e| c_hres(e, |a| copt(a, |x| cstr(x)))),
        ],
    )
}
fn c_dev(e: &DEv) -> String {
    match e {
        DEv::Step(r, sid) => {
            let r = match r {
                Reply::Unknown => "RUnknown".to_string(),
                Reply::Success => "RSuccess".into(),
                Reply::Denied => "RDenied".into(),
                Reply::Password => "RPassword".into(),
                Reply::Device(x) => format!("(RDevice {})", cn(*x as u64)),
                Reply::MfaCode => "RMfaCode".into(),
                Reply::MfaPoll(x) => format!("(RMfaPoll {})", cn(*x as u64)),
                Reply::MfaPollWait => "RMfaPollWait".into(),
                Reply::SetupPin => "RSetupPin".into(),
                Reply::Pin => "RPin".into(),
            };
            capp("DStep", &[r, cn(*sid)])
        }
        DEv::Error => "DError".into(),
        DEv::PamStatus(s) => capp("DPamStatus", &[copt(s, |b| cbool(*b))]),
        DEv::Other(k) => capp("DOther", &[cn(*k)]),
        DEv::Garbage => "DGarbage".into(),
        DEv::Eof(_) => "DEof".into(),
    }
}
fn c_sent(e: &SEnt) -> String {
    capp("mkS", &[cstr(&e.name), cstr(&e.pw), copt(&e.expire, |d| cz(*d))])
}
fn c_out(o: &Result<u32, String>) -> String {
    match o {
        Ok(c) => format!("(ORet {})", cn(*c as u64)),
        Err(_) => "OPanic".into(),
    }
}

fn emit(c: &Case, o: &Obs, ytab: &[(String, String)]) -> (String, String) {
    let src = match &c.src {
        Source::Daemon(s) => capp("SDaemon", &[clist(s, c_dev)]),
        Source::Fallback { users, shadow, .. } => capp(
            "SFallback",
            &[copt(users, |u| clist(u, |x| cstr(x))), copt(shadow, |s| clist(s, c_sent))],
        ),
    };
    // only the yescrypt pairs that can matter for this case are printed (hash strings are long)
    let yt: Vec<(String, String)> = match &c.src {
        Source::Fallback { shadow: Some(s), .. } => {
            ytab.iter().filter(|(h, _)| s.iter().any(|e| &e.pw == h)).cloned().collect()
        }
        _ => vec![],
    };
    let coq = capp(
        "mkcase",
        &[
            (if c.acct { "OpAcct" } else { "OpAuth" }).to_string(),
            capp("mkO", &[cbool(c.first_pass), cbool(c.ignore_unknown)]),
            c_handler(&c.h),
            src,
            cz(c.ct_secs),
            clist(&yt, |(h, p)| cpair(&cstr(h), &cstr(p))),
            c_out(&o.out),
            clist(&o.reqs, |r| r.0.clone()),
            clist(&o.conv, |k| cn(*k)),
            cn(o.served),
        ],
    );
    let txt = format!(
        "{} [{}] opts(first_pass={},ignore_unknown={}) handler={:?} src={:?} ct={}.{:09} => {:?} reqs=[{}] conv={:?} served={}",
        if c.acct { "acct_mgmt" } else { "authenticate" },
        c.tag,
        c.first_pass,
        c.ignore_unknown,
        c.h,
        c.src,
        c.ct_secs,
        c.ct_nanos,
        o.out.as_ref().map(|c| format!("{:?}", code(*c))),
        o.reqs.iter().map(|r| r.1.clone()).collect::<Vec<_>>().join(","),
        o.conv,
        o.served
    );
    (coq, txt)
}

// ------------------------------------------------------------------ generators

const NAMES: [&str; 7] = ["root", "alice", "bob", "carol", "dave", "Alice", "alic"];
const PWS: [&str; 6] = ["a", "hunter2", "correct horse", "p\u{e4}ss", "Tr0ub4dor&3", ""];
const ERRS: [u32; 8] = [19, 9, 4, 7, 26, 30, 25, 5];

struct Pool {
    /// (hash string, its password, kind 5/6/'y')
    good: Vec<(String, String, char)>,
    ytab: Vec<(String, String)>,
}

fn h64(rng: &mut Rng, n: usize) -> String {
    const A: &[u8] = b"./0123456789ABCDEFGHIJKLMNOPQRSTUVWXYZabcdefghijklmnopqrstuvwxyz";
    (0..n).map(|_| A[rng.below(64) as usize] as char).collect()
}

fn build_pool(rng: &mut Rng, thorough: bool) -> Pool {
    use yescrypt::{PasswordHasher, Yescrypt};
    let mut good = vec![];
    let mut ytab = vec![];
    let n_sha = if thorough { 6 } else { 3 };
    for k in 0..n_sha {
        let pw = PWS[k % 5].to_string();
        let salt = h64(rng, [16, 8, 1, 12, 16, 3][k % 6]);
        let p = sha_crypt::Sha256Params::new(1000).expect("params");
        let h = sha_crypt::sha256_crypt_b64(pw.as_bytes(), salt.as_bytes(), &p).expect("sha256");
        good.push((format!("$5$rounds=1000${}${}", salt, h), pw.clone(), '5'));
        let salt = h64(rng, [16, 10, 2, 16, 5, 16][k % 6]);
        let p = sha_crypt::Sha512Params::new(1000).expect("params");
        let h = sha_crypt::sha512_crypt_b64(pw.as_bytes(), salt.as_bytes(), &p).expect("sha512");
        good.push((format!("$6$rounds=1000${}${}", salt, h), pw, '6'));
    }
    // the vectors of the crate's own tests (password "a"; default 5000 rounds)
    good.push((
        "$6$5.bXZTIXuVv.xI3.$sAubscCJPwnBWwaLt2JR33lo539UyiDku.aH5WVSX0Tct9nGL2ePMEmrqT3POEdBlgNQ12HJBwskewGu2dpF//".into(),
        "a".into(),
        'L', // long: 5000 rounds, used sparingly
    ));
    let yv = ("$y$j9T$LdJMENpBABJJ3hIHjB1Bi.$GFxnbKnR8WaEdBMGMctf6JGMs56hU5dYcy6UrKGWr62".to_string(), "a".to_string());
    good.push((yv.0.clone(), yv.1.clone(), 'y'));
    ytab.push(yv);
    for k in 0..(if thorough { 5 } else { 3 }) {
        let pw = PWS[(k + 1) % 5].to_string();
        let salt = rng.bytes(16);
        let h = Yescrypt::default().hash_password_with_salt(pw.as_bytes(), &salt).expect("yescrypt").to_string();
        good.push((h.clone(), pw.clone(), 'y'));
        ytab.push((h, pw));
    }
    Pool { good, ytab }
}

/// a shadow password field: (field, class) — class: 'g' intact supported hash, 'm' mangled supported
/// prefix, 'u' unsupported / locked / empty
fn gen_pwfield(rng: &mut Rng, pool: &Pool, budget: &mut i64) -> (String, char, Option<String>) {
    let allow_costly = false;
    let pick_good = |rng: &mut Rng| loop {
        let g = rng.pick(&pool.good).clone();
        if g.2 == 'L' && !(allow_costly && rng.chance(1, 3)) {
            continue;
        }
        return g;
    };
    match rng.below(10) {
        0..=3 => {
            let g = pick_good(rng);
            (g.0, 'g', Some(g.1))
        }
        4 | 5 => {
            // mangled: still carries a supported prefix
            let g = pick_good(rng);
            let mut s = g.0.clone();
            // kinds 0..=4 (and rounds=01000) of a $5$/$6$ hash may still reach a full hash computation
            // (costly on the Coq side): limited by `budget`
            let sha = !g.0.starts_with("$y$");
            let kind = if !sha || *budget > 0 { rng.below(8) } else { rng.range(5, 7) };
            if sha && kind <= 5 {
                *budget -= 1;
            }
            let cheap_rounds = sha && *budget < 0;
            match kind {
                0 => {
                    s.pop();
                }
                1 => {
                    let n = s.len();
                    s.truncate(n - rng.range(2, 20) as usize);
                }
                2 => s.push('x'),
                3 => {
                    // empty hash field
                    let p = s.rfind('$').expect("dollar");
                    s.truncate(p + 1);
                }
                4 => {
                    // one or two characters of hash
                    let p = s.rfind('$').expect("dollar");
                    s.truncate(p + 1 + rng.range(1, 2) as usize);
                }
                5 => {
                    let opts: &[&str] = if cheap_rounds {
                        &["rounds=999", "rounds=", "rounds=1000000000", "rounds=x"]
                    } else {
                        &["rounds=999", "rounds=", "rounds=1000000000", "rounds=x", "rounds=01000"]
                    };
                    s = s.replace("rounds=1000", *rng.pick(opts))
                }
                6 => {
                    // non-alphabet character inside the hash field
                    let p = s.rfind('$').expect("dollar") + 1 + rng.below(8) as usize;
                    if p < s.len() {
                        s.replace_range(p..p + 1, *rng.pick(&["*", "!", "-", "="]));
                    }
                }
                _ => {
                    // drop the salt field
                    let parts: Vec<&str> = s.split('$').collect();
                    let mut q: Vec<&str> = parts.clone();
                    if q.len() > 3 {
                        q.remove(q.len() - 2);
                    }
                    s = q.join("$");
                }
            }
            (s, 'm', Some(g.1))
        }
        6 => {
            // locked: a valid hash behind ! or *
            let g = pick_good(rng);
            (format!("{}{}", rng.pick(&["!", "!!", "*", "*LK*"]), g.0), 'u', Some(g.1))
        }
        7 => (rng.pick(&["!", "*", "x", "", "!!", "*LK*", "NP"]).to_string(), 'u', None),
        8 => (
            rng.pick(&[
                "$1$saltsalt$qjXMvbEw8oaL.CzflDtaK/",
                "$2b$05$abcdefghijklmnopqrstuuZ5J0kTvZ4q5y9v9yLrE0S5G6p2a6V6G",
                "$7$foo",
                " $6$abc$def",
                "$5",
                "$6",
                "$y",
                "$Y$j9T$abc$def",
                "6$abc$def",
            ])
            .to_string(),
            'u',
            None,
        ),
        _ => (
            rng.pick(&["$5$", "$6$", "$y$", "$5$rounds=1000$", "$6$salt", "$y$j9T$", "$6$rounds=1000$", "$5$rounds=5000$salt", "$y$j9T$LdJMENpBABJJ3hIHjB1Bi.$"])
                .to_string(),
            'm',
            None,
        ),
    }
}

fn gen_handler(rng: &mut Rng, account: &str, authtok: Option<String>, conv: Vec<HRes<Option<String>>>) -> HSpec {
    HSpec {
        service: if rng.chance(1, 25) { HRes::Err(*rng.pick(&ERRS)) } else { HRes::Ok(()) },
        account: if rng.chance(1, 25) { HRes::Err(*rng.pick(&ERRS)) } else { HRes::Ok(account.to_string()) },
        authtok: if rng.chance(1, 20) { HRes::Err(*rng.pick(&ERRS)) } else { HRes::Ok(authtok) },
        conv,
    }
}

fn gen_conv(rng: &mut Rng, n: usize, answers: &[&str]) -> Vec<HRes<Option<String>>> {
    (0..n)
        .map(|_| match rng.below(14) {
            0 => HRes::Err(*rng.pick(&ERRS)),
            1 => HRes::Ok(None),
            _ => HRes::Ok(Some(rng.pick(answers).to_string())),
        })
        .collect()
}

fn gen_script(rng: &mut Rng, acct: bool) -> (Vec<DEv>, String) {
    if acct {
        let ev = match rng.below(10) {
            0..=2 => DEv::PamStatus(Some(true)),
            3 | 4 => DEv::PamStatus(Some(false)),
            5 => DEv::PamStatus(None),
            6 => DEv::Error,
            7 => DEv::Other(rng.below(7)),
            8 => DEv::Step(Reply::Success, 1),
            _ => {
                if rng.chance(1, 2) {
                    DEv::Garbage
                } else {
                    DEv::Eof(rng.below(3) as u8)
                }
            }
        };
        let mut s = vec![ev];
        if rng.chance(1, 4) {
            s.push(DEv::PamStatus(Some(true))); // never read
        }
        if rng.chance(1, 12) {
            s.clear();
        }
        return (s, "acct".into());
    }
    let mut s = vec![];
    let n = match rng.below(10) {
        0 => 0,
        1..=4 => 1,
        5..=7 => 2,
        _ => rng.range(3, 6),
    };
    let mut sid = rng.range(0, 5);
    let mut polled = false;
    for _ in 0..n {
        let r = match rng.below(12) {
            0 | 1 => Reply::Password,
            2 => Reply::Pin,
            3 => Reply::MfaCode,
            4 => {
                polled = true;
                Reply::MfaPoll(rng.below(2) as u32 * rng.below(2) as u32)
            }
            5 => {
                if polled || rng.chance(1, 6) {
                    Reply::MfaPollWait
                } else {
                    polled = true;
                    Reply::MfaPoll(0)
                }
            }
            6 => Reply::SetupPin,
            7 => Reply::Device(*rng.pick(&[0u32, 1, 2, 2, 300])),
            8 | 9 => Reply::Password,
            10 => Reply::Pin,
            _ => Reply::MfaCode,
        };
        if rng.chance(1, 5) {
            sid = rng.range(0, 9);
        }
        s.push(DEv::Step(r, sid));
    }
    // how the conversation ends
    let (end, tag): (Option<DEv>, &str) = match rng.below(16) {
        0..=4 => (Some(DEv::Step(Reply::Success, sid)), "success"),
        5 | 6 => (Some(DEv::Step(Reply::Denied, sid)), "denied"),
        7 => (Some(DEv::Step(Reply::Unknown, sid)), "unknown"),
        8 => (Some(DEv::Error), "error"),
        9 => (Some(DEv::Other(rng.below(7))), "wrongkind"),
        10 => (Some(DEv::PamStatus(*rng.pick(&[Some(true), Some(false), None]))), "wrongkind"),
        11 => (Some(DEv::Garbage), "garbage"),
        12 | 13 => (Some(DEv::Eof(rng.below(3) as u8)), "eof"),
        _ => (None, "exhausted"),
    };
    if let Some(e) = end {
        s.push(e);
    }
    // a Device grant with a long timeout must not be followed by a transport failure (busy wait)
    for i in 0..s.len() {
        if let DEv::Step(Reply::Device(x), sid) = s[i].clone() {
            if x > 2 {
                let bad = match s.get(i + 1) {
                    None => true,
                    Some(DEv::Eof(_)) => true,
                    _ => false,
                };
                if bad {
                    s[i] = DEv::Step(Reply::Device(1), sid);
                }
            }
        }
    }
    // sometimes trailing events that must never be read
    if rng.chance(1, 4) {
        s.push(DEv::Step(Reply::Success, sid));
    }
    (s, tag.into())
}

fn gen_daemon_case(rng: &mut Rng, acct: bool) -> Case {
    let account = rng.pick(&NAMES).to_string();
    let (script, tag) = gen_script(rng, acct);
    let nconv = rng.range(0, 7) as usize;
    let mut conv = gen_conv(rng, nconv, &["1234", "1234", "4321", "hunter2", "000000", ""]);
    // make matching pin pairs likely: duplicate neighbours
    for i in 1..conv.len() {
        if rng.chance(1, 2) {
            conv[i] = conv[i - 1].clone();
        }
    }
    let authtok = if rng.chance(1, 2) { Some(rng.pick(&PWS).to_string()) } else { None };
    let mut h = gen_handler(rng, &account, authtok, conv);
    if rng.chance(1, 60) {
        // outside the PAM contract: an "error" that carries PAM_SUCCESS
        h.service = HRes::Err(0);
    }
    Case {
        acct,
        first_pass: rng.chance(1, 2),
        ignore_unknown: rng.chance(1, 2),
        debug: false,
        h,
        src: Source::Daemon(script),
        ct_secs: rng.range(0, 2_000_000_000) as i64,
        ct_nanos: 0,
        tag: format!("daemon/{}", tag),
        costly: false,
    }
}

fn filler(rng: &mut Rng) -> [String; 5] {
    [
        rng.pick(&["19980", "", "0", "20000"]).to_string(),
        rng.pick(&["0", "", "1"]).to_string(),
        rng.pick(&["99999", "", "90"]).to_string(),
        rng.pick(&["7", "", "0"]).to_string(),
        rng.pick(&["", "", "30"]).to_string(),
    ]
}

/// `want_compare`: the case should reach a real hash comparison of an intact $5$/$6$ hash
fn gen_fallback_case(rng: &mut Rng, pool: &Pool, acct: bool, want_compare: Option<char>, budget: &mut i64) -> Case {
    let mut free: i64 = 1 << 40; // entries that are never looked at cost nothing
    let account = rng.pick(&NAMES[..5]).to_string();
    let ct_day: i64 = rng.range(1, 25000) as i64;
    let ct_secs = ct_day * 86400 + *rng.pick(&[0i64, 0, 1, 43200, 86399]);
    let gen_expire = |rng: &mut Rng| -> Option<i64> {
        match rng.below(10) {
            0..=4 => None,
            5 => Some(ct_day),
            6 => Some(ct_day + 1),
            7 => Some(ct_day - 1),
            8 => Some(rng.range(0, 30000) as i64),
            _ => Some(*rng.pick(&[0i64, -1, 1, 99999])),
        }
    };
    let mut shadow: Vec<SEnt> = vec![];
    let mut users: Vec<String> = vec![];
    let mut target_pw: Option<String> = None;
    let mut class = 'n';
    let mut costly = false;
    if let Some(kind) = want_compare {
        let cands: Vec<&(String, String, char)> = pool.good.iter().filter(|g| g.2 == kind).collect();
        let g = (*rng.pick(&cands)).clone();
        let expire = match rng.below(6) {
            0 => Some(ct_day + 1),
            1 => Some(ct_day + 400),
            _ => None,
        };
        shadow.push(SEnt { name: account.clone(), pw: g.0, expire, filler: filler(rng) });
        users.push(account.clone());
        target_pw = Some(g.1);
        class = 'g';
        costly = true;
    } else {
        // the account's own entry (sometimes absent, sometimes duplicated)
        let present = rng.below(12);
        if present >= 1 {
            let (pw, cl, good_pw) = gen_pwfield(rng, pool, budget);
            // intact $5$/$6$ hashes are reserved for the `want_compare` cases (cost of the Coq side);
            // here they are kept only when the entry is expired or the user is missing
            let is_sha_good = cl == 'g' && !pw.starts_with("$y$");
            let (pw, good_pw) = if is_sha_good && rng.chance(2, 3) {
                let ys: Vec<&(String, String, char)> = pool.good.iter().filter(|g| g.2 == 'y').collect();
                let g = (*rng.pick(&ys)).clone();
                (g.0, Some(g.1))
            } else {
                (pw, good_pw)
            };
            let is_sha_good = cl == 'g' && !pw.starts_with("$y$");
            let expire = if is_sha_good { Some(ct_day - rng.range(0, 3) as i64) } else { gen_expire(rng) };
            class = cl;
            target_pw = good_pw;
            shadow.push(SEnt { name: account.clone(), pw, expire, filler: filler(rng) });
            if present == 1 {
                // duplicate entry: only the FIRST counts
                let (pw2, _, _) = gen_pwfield(rng, pool, &mut free);
                let pw2 = if pw2.starts_with("$5$") || pw2.starts_with("$6$") { "!".to_string() } else { pw2 };
                shadow.push(SEnt { name: account.clone(), pw: pw2, expire: gen_expire(rng), filler: filler(rng) });
            }
        }
        if rng.below(10) >= 1 {
            users.push(account.clone());
        }
    }
    // other people
    for _ in 0..rng.below(4) {
        let n = rng.pick(&NAMES).to_string();
        if n != account {
            let (pw, _, _) = gen_pwfield(rng, pool, &mut free);
            let at = rng.below(shadow.len() as u64 + 1) as usize;
            shadow.insert(at, SEnt { name: n.clone(), pw, expire: gen_expire(rng), filler: filler(rng) });
            if rng.chance(2, 3) {
                let at = rng.below(users.len() as u64 + 1) as usize;
                users.insert(at, n);
            }
        }
    }
    // which password is offered
    let offered: String = match (&target_pw, rng.below(10)) {
        (Some(p), 0..=5) => p.clone(),
        (Some(p), 6) => format!("{}x", p),
        (Some(p), 7) if !p.is_empty() => p[..p.len() - 1].to_string(),
        _ => rng.pick(&PWS).to_string(),
    };
    let first_pass = rng.chance(1, 2);
    let (authtok, conv) = match rng.below(8) {
        0 => (None, vec![HRes::Ok(None)]),
        1 => (None, vec![HRes::Err(*rng.pick(&ERRS))]),
        2 => (None, vec![]),
        3 | 4 => (Some(offered.clone()), vec![HRes::Ok(Some(rng.pick(&PWS).to_string()))]),
        _ => (if rng.chance(1, 2) { Some(rng.pick(&PWS).to_string()) } else { None }, vec![HRes::Ok(Some(offered.clone()))]),
    };
    let (authtok, conv) = if want_compare.is_some() {
        if first_pass && rng.chance(1, 2) {
            (Some(offered.clone()), vec![])
        } else if first_pass {
            (None, vec![HRes::Ok(Some(offered.clone()))])
        } else {
            (Some("decoy".to_string()), vec![HRes::Ok(Some(offered.clone()))])
        }
    } else {
        (authtok, conv)
    };
    let mut h = gen_handler(rng, &account, authtok, conv);
    if want_compare.is_some() {
        h.service = HRes::Ok(());
        h.account = HRes::Ok(account.clone());
        if let HRes::Err(_) = h.authtok {
            h.authtok = HRes::Ok(None);
        }
    }
    let (users_o, users_how) = if want_compare.is_none() && rng.chance(1, 30) { (None, rng.below(2) as u8) } else { (Some(users), 0) };
    let (shadow_o, shadow_how) = if want_compare.is_none() && rng.chance(1, 30) { (None, rng.below(3) as u8) } else { (Some(shadow), 0) };
    Case {
        acct,
        first_pass,
        ignore_unknown: rng.chance(1, 2),
        debug: false,
        h,
        src: Source::Fallback { users: users_o, shadow: shadow_o, users_how, shadow_how },
        ct_secs,
        ct_nanos: *rng.pick(&[0u32, 0, 1, 999_999_999]),
        tag: format!("fallback/{}", class),
        costly,
    }
}

// ------------------------------------------------------------------ probes (facts the model relies on)

fn probe() -> i32 {
    let mut bad = 0;
    let mut chk = |name: &str, got: String, want: &str| {
        let ok = got == want;
        println!("probe {:<58} got {:<10} want {:<10} {}", name, got, want, if ok { "ok" } else { "DIFFERENT" });
        if !ok {
            bad += 1;
        }
    };
    let cp = |h: &str, pw: &str| -> String {
        let c = CryptPw::from_str(h).expect("infallible");
        match guarded(std::panic::AssertUnwindSafe(|| c.check_pw(pw))) {
            Ok(b) => b.to_string(),
            Err(_) => "panic".into(),
        }
    };
    let y = "$y$j9T$LdJMENpBABJJ3hIHjB1Bi.$GFxnbKnR8WaEdBMGMctf6JGMs56hU5dYcy6UrKGWr62";
    chk("yescrypt vector, right password", cp(y, "a"), "true");
    chk("yescrypt vector, wrong password", cp(y, "b"), "false");
    chk("yescrypt EMPTY hash field, any password", cp("$y$j9T$LdJMENpBABJJ3hIHjB1Bi.$", "whatever"), "false");
    chk("yescrypt hash field truncated to 2 chars, right password", cp(&y[..y.rfind('$').unwrap() + 3], "a"), "false");
    chk("yescrypt hash field truncated to 42 chars, right password", cp(&y[..y.len() - 1], "a"), "false");
    chk("yescrypt no hash field at all", cp("$y$j9T$LdJMENpBABJJ3hIHjB1Bi.", "a"), "false");
    // fixed by /repo 054a9cd (was: panic in sha-crypt 0.5.0 decode_sha256().unwrap())
    chk("sha256-crypt undecodable hash field", cp("$5$rounds=1000$saltsalt$***", "a"), "false");
    chk("sha256-crypt 42-character hash field", cp("$5$rounds=1000$saltsalt$WPtYduzN/uAN5rJJyICTeVv322EyddSk2leosnK95U", "a"), "false");
    chk("sha512-crypt undecodable hash field", cp("$6$rounds=1000$saltsalt$***", "a"), "false");
    chk("sha256-crypt empty hash field", cp("$5$rounds=1000$saltsalt$", "a"), "false");
    chk("locked valid hash", cp(&format!("!{}", y), "a"), "false");
    if bad > 0 {
        1
    } else {
        0
    }
}

// ------------------------------------------------------------------ main

fn main() {
    let args = parse_args();
    if args.extra.iter().any(|a| a == "--probe") {
        std::process::exit(probe());
    }
    // the module logs through `tracing`; no subscriber is installed, panics of the implementation
    // are observed outputs: keep the default hook quiet
    std::panic::set_hook(Box::new(|_| {}));
    std::fs::create_dir_all(&args.out).expect("mkdir");
    let mut rng = Rng::new(args.seed);
    let pool = build_pool(&mut rng, args.thorough);

    let (n_daemon, n_fb, n_cmp5, n_cmp6, n_cmp_l) = if args.thorough { (1200, 1200, 24, 12, 2) } else { (330, 330, 4, 2, 0) };
    let mut budget: i64 = if args.thorough { 20 } else { 3 };
    let mut cases: Vec<Case> = vec![];
    for i in 0..n_daemon {
        cases.push(gen_daemon_case(&mut rng, i % 5 == 4));
    }
    for i in 0..n_fb {
        cases.push(gen_fallback_case(&mut rng, &pool, i % 5 == 4, None, &mut budget));
    }
    let mut costly: Vec<Case> = vec![];
    for _ in 0..n_cmp5 {
        costly.push(gen_fallback_case(&mut rng, &pool, false, Some('5'), &mut budget));
    }
    for _ in 0..n_cmp6 {
        costly.push(gen_fallback_case(&mut rng, &pool, false, Some('6'), &mut budget));
    }
    for _ in 0..n_cmp_l {
        costly.push(gen_fallback_case(&mut rng, &pool, false, Some('L'), &mut budget));
    }
    rng.shuffle(&mut cases);
    // spread the costly (real hash comparison in Coq) cases evenly over the shards
    let shard = 55usize;
    let nshards = (cases.len() + costly.len() + shard - 1) / shard;
    let mut all: Vec<Case> = vec![];
    {
        let mut per: Vec<Vec<Case>> = vec![vec![]; nshards];
        for (i, c) in costly.into_iter().enumerate() {
            per[i % nshards].push(c);
        }
        let mut it = cases.into_iter();
        for p in per.iter_mut() {
            while p.len() < shard {
                match it.next() {
                    Some(c) => p.push(c),
                    None => break,
                }
            }
        }
        for p in per {
            all.extend(p);
        }
        all.extend(it);
    }

    // run in parallel worker threads (each case is independent; results are emitted in order)
    let nthreads = 8usize;
    let all = Arc::new(all);
    let next = Arc::new(Mutex::new(0usize));
    let results: Arc<Mutex<Vec<Option<Obs>>>> = Arc::new(Mutex::new(vec![None; all.len()]));
    let mut hs = vec![];
    for t in 0..nthreads {
        let (all, next, results, dir) = (all.clone(), next.clone(), results.clone(), args.out.clone());
        hs.push(std::thread::spawn(move || loop {
            let i = {
                let mut g = next.lock().expect("next");
                let i = *g;
                *g += 1;
                i
            };
            if i >= all.len() {
                break;
            }
            let o = run_case(&all[i], &dir, t);
            results.lock().expect("res")[i] = Some(o);
        }));
    }
    for h in hs {
        h.join().expect("worker");
    }

    let mut sink = Sink::new(&args, "KV.C43.Model", shard);
    sink.rule = "daemon cases: random option flags, scripted PamHandler (errors on every call site), random reply script of \
                 0-6 continuing replies (every PamAuthResponse kind, session ids) ended by Success / Denied / Unknown / Error / \
                 wrong reply kind / undecodable frame / disconnect (at once, half frame, silent) / script exhausted, sometimes \
                 followed by never-read events; fallback cases: random passwd+shadow files (intact / mangled / locked / \
                 unsupported / empty hashes, duplicates, expiry days around the current time, unreadable or malformed files), \
                 right / nearly right / wrong passwords offered by prompt or stacked token. Non-trivial = the daemon served at \
                 least one reply beyond the first, or the fallback path got as far as looking at the shadow entry (result not \
                 USER_UNKNOWN/IGNORE and no handler error before the lookup), or the result is PAM_SUCCESS."
        .into();
    let results = results.lock().expect("res");
    let mut slow = 0.0f64;
    for (c, o) in all.iter().zip(results.iter()) {
        let o = o.as_ref().expect("obs");
        slow += o.secs;
        let (coq, txt) = emit(c, o, &pool.ytab);
        let success = matches!(o.out, Ok(0));
        let nontrivial = match &c.src {
            Source::Daemon(_) => o.served >= 2 || success,
            Source::Fallback { .. } => success || matches!(o.out, Ok(7) | Ok(13) | Ok(8)) || o.out.is_err() || !o.conv.is_empty(),
        };
        sink.case(coq, txt, nontrivial);
        sink.bump(&c.tag);
        sink.bump(&format!(
            "{}:{}",
            if c.acct { "acct_mgmt" } else { "authenticate" },
            match &o.out {
                Ok(n) => format!("{:?}", code(*n)),
                Err(_) => "panic".into(),
            }
        ));
    }
    sink.add_stat("implementation_seconds_total_x100", (slow * 100.0) as u64);
    sink.finish();
    // leave no scratch files behind
    if let Ok(rd) = std::fs::read_dir(&args.out) {
        for e in rd.flatten() {
            let n = e.file_name().to_string_lossy().to_string();
            if n.ends_with(".sock") || n.starts_with("passwd") || n.starts_with("shadow") {
                let _ = std::fs::remove_file(e.path());
            }
        }
    }
    let _ = PathBuf::new();
}
