#!/bin/sh
# usage: commit_hooks.sh "message" file...   — stage the given /repo files and commit them as a
# verif-hooks commit ONLY if the staged diff removes no line outside server/lib/src/verif_hooks/.
msg="$1"; shift
cd /repo || exit 1
git add "$@" || exit 1
bad=$(git diff --cached -- . ':(exclude)server/lib/src/verif_hooks' | grep '^-' | grep -v '^---')
if [ -n "$bad" ]; then
  echo "REFUSED: staged diff removes lines (a temporary mutation?):"; echo "$bad" | head -5
  git reset -q
  exit 1
fi
git commit -q -m "$msg" && git log --oneline | head -1
