#!/bin/sh
# usage: confirm_seed.sh CNN  — store /tmp/mutout-cnn into /verif/seeded/CNN, apply the patch to /repo,
# run the quick check, revert, touch the files, print the verdict and the first failing cases.
P=$1; p=$(echo $P | tr A-Z a-z)
mkdir -p /verif/seeded/$P
for f in patch.diff demo_test.rs demo_output.txt meta.json; do [ -e /verif/seeded/$P/$f ] || cp /tmp/mutout-$p/$f /verif/seeded/$P/ 2>/dev/null; done
git -C /repo worktree remove --force /tmp/mut-$p 2>/dev/null
cd /repo && git apply /verif/seeded/$P/patch.diff || { echo "PATCH DOES NOT APPLY"; exit 2; }
files=$(git -C /repo apply --numstat /verif/seeded/$P/patch.diff | awk '{print $3}')
cd /verif && ./vcheck $P | tail -1
cd /repo && git apply -R /verif/seeded/$P/patch.diff && for f in $files; do touch /repo/$f; done
python3 - <<PY
import json,glob
for f in glob.glob('/verif/replays/$P-*.json'):
    d=json.load(open(f)); print(d['kind']); [print('  ',c['case'][:260]) for c in d.get('cases',[])[:2]]; print('broken:',str(d.get('broken'))[:400]); print('disagree:',str(d.get('correspondence_disagreements'))[:300])
PY
