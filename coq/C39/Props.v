(* KV.C39.Props — property theorems only.
   Model: KV.C39.Model (one account, its parent sessions and OAuth2 sessions, confidential
   clients); [h] is the PKCE hash (SHA-256 in the implementation), a parameter here. *)
From Coq Require Import List NArith Bool.
Import ListNotations.
Require Import KV.C39.Model KV.C39.Proofs.
Open Scope N_scope.

(* An authorisation code yields tokens EXACTLY when: the client is known and authenticated, the
   code is a code of this client, it has not expired (whole seconds, 60 s after issue), the
   redirect URI equals the one of the authorisation request, and — when a PKCE challenge was
   recorded — a verifier is presented and hashes to it; without a recorded challenge the
   client must not enforce PKCE and no verifier may be presented. Nothing else is consulted
   (in particular not the state of the account or of the login session). *)
Theorem C39_code_redeem_iff : forall h cf client sec_ok oc redir ver ct fresh s,
  (exists t s', exchange h cf client sec_ok oc redir ver ct fresh s = (inr t, s')) <->
  redeemable h cf client sec_ok oc redir ver ct.
Proof. exact exchange_iff. Qed.

(* The tokens obtained from a code carry exactly the code's grant: its scopes, its parent (login)
   session, this client, a fresh session; a refused exchange leaves the account untouched. *)
Theorem C39_code_grant_exact : forall h cf client sec_ok cid c redir ver ct fresh s t s',
  exchange h cf client sec_ok (Some (cid, c)) redir ver ct fresh s = (inr t, s') ->
  t_scopes t = c_scopes c /\ t_parent t = Some (c_parent c) /\ t_client t = client /\
  c_client c = client /\ t_sid t = fresh /\ t_code t = cid /\
  t_iat t = secs ct /\ t_aexp t = secs ct + ACCESS_EXP.
Proof. exact exchange_grant. Qed.

Theorem C39_code_refusal_is_silent : forall h cf client sec_ok oc redir ver ct fresh s e s',
  exchange h cf client sec_ok oc redir ver ct fresh s = (inl e, s') -> s' = s.
Proof. exact exchange_err_state. Qed.

(* A successful refresh was made with a genuine, unexpired refresh token of THIS client whose
   account and sessions are valid; the new grant is within the presented token's scopes (equal
   to the request when one is made), for the same session, parent session and original code. *)
Theorem C39_refresh_within_token : forall cf client sec_ok ot req ct s t' s',
  refresh cf client sec_ok ot req ct s = (inr t', s') ->
  exists t, ot = Some t /\ sec_ok = true /\ t_client t = client /\ secs ct < t_rexp t /\
    acct_valid s (t_sid t) (t_parent t) (t_iat t) ct = true /\
    incl (t_scopes t') (t_scopes t) /\
    match req with Some rs => t_scopes t' = rs | None => t_scopes t' = t_scopes t end /\
    t_client t' = client /\ t_sid t' = t_sid t /\ t_parent t' = t_parent t /\ t_code t' = t_code t /\
    (exists o, find_os (t_sid t) (o2s s) = Some o /\ secs (os_issued o) <= t_iat t).
Proof. exact refresh_ok_inv. Qed.

(* Over EVERY history of operations (any length, any interleaving, any times): every token ever
   issued descends from an authorisation code of the same client and the same parent session,
   and its scopes are within that code's scopes — a refresh never grants beyond the original
   grant, however many refreshes (narrowing or not) lie in between. *)
Theorem C39_refresh_subset : forall h cf us ops k t,
  let e := fst (run_from h cf 0 (env0 us) ops) in
  In (k, t) (e_toks e) ->
  exists c, lookup (t_code t) (e_codes e) = Some c /\ incl (t_scopes t) (c_scopes c) /\
            t_client t = c_client c /\ t_parent t = Some (c_parent c).
Proof.
  intros h cf us ops k t e Hin.
  destruct (run_Inv h cf ops 0 (env0 us) (Inv0 us)) as (j & _ & H2).
  exact (H2 k t Hin).
Qed.

(* Reuse detection, one step: when an otherwise acceptable refresh token was issued in an earlier
   clock second than the session's latest issuance, the refresh is refused with invalid_grant AND
   the session is revoked in the resulting account.
   PARTIAL: the link "the token has been rotated" => "it was issued in an earlier second than the
   session's latest issuance" is not proved over histories here (it needs non-decreasing
   clocks); it is false when the rotation happened within the same second, see C39_refuted_replay. *)
Theorem C39_replay_revokes_partial : forall cf client k t req ct s o,
  client_auth cf client true = Some k -> t_client t = client -> secs ct < t_rexp t ->
  acct_valid s (t_sid t) (t_parent t) (t_iat t) ct = true ->
  find_os (t_sid t) (o2s s) = Some o -> t_iat t < secs (os_issued o) ->
  exists s' o', refresh cf client true (Some t) req ct s = (inl E_GRANT, s') /\
    find_os (t_sid t) (o2s s') = Some o' /\ os_state o' = SRevoked.
Proof. exact refresh_replay. Qed.

(* A revoked session stays revoked whatever modifies the account later (the consistency sweep
   and revocations keep it; a later Present cannot revive it). *)
Theorem C39_revoked_is_final : forall ct us o, os_state o = SRevoked -> os_state (sweep_os ct us o) = SRevoked.
Proof. exact sweep_os_revoked. Qed.

(* Tokens whose OAuth2 session record is revoked or past its expiry, or whose parent (login)
   session record is revoked or past its expiry, or whose account is outside its validity
   window are refused by the refresh exchange (for every client, secret and scope request,
   leaving the account unchanged), by introspection (inactive) and by userinfo — whether or
   not the consistency sweep has already turned the expired session into a revoked one. *)
Theorem C39_dead_session_rejected : forall cf s t ct,
  dead s t ct -> refused_everywhere cf s t ct.
Proof. intros cf s t ct H. apply invalid_refused. apply dead_invalid. exact H. Qed.

(* ... spelled out for the case found by this check (K2, fixed by 8607e8e): an expired parent
   session that nothing has swept yet. *)
Theorem C39_lapsed_session_rejected : forall cf s t ct,
  lapsed s t ct -> refused_everywhere cf s t ct.
Proof. intros cf s t ct H. apply C39_dead_session_rejected. apply lapsed_dead. exact H. Qed.

(* What `dead` means for a session record. *)
Theorem C39_session_over_iff : forall ct st,
  live_at ct st = false <-> st = SRevoked \/ exists e, st = SExpires e /\ e <= ct.
Proof. exact live_at_false. Qed.

(* Documentation of the behaviour BEFORE fix 8607e8e: the validity function that only looked for
   RevokedAt accepted a token whose parent session had expired 100 s earlier; the current one
   reports it inactive. *)
Theorem C39_prefix_lapsed_accepted :
  lapsed k2_st k2_tok (10500 * NS) /\
  acct_valid_prefix k2_st (t_sid k2_tok) (t_parent k2_tok) (t_iat k2_tok) (10500 * NS) = true /\
  introspect k2_tok false (10500 * NS) k2_st = RIntro false [].
Proof. exact (conj k2_lapsed (conj k2_prefix_valid k2_now_inactive)). Qed.

(* Expired tokens are refused by all three endpoints. *)
Theorem C39_expired_token_rejected : forall cf s t ct,
  t_rexp t <= secs ct -> t_aexp t <= secs ct -> refused_everywhere cf s t ct.
Proof. exact expired_refused. Qed.

(* A token is useless at any other client. *)
Theorem C39_foreign_client_refused : forall cf client t req ct s sec_ok,
  t_client t <> client ->
  (exists e, refresh cf client sec_ok (Some t) req ct s = (inl e, s)) /\
  (exists e, userinfo cf client t ct s = RErr e).
Proof. exact foreign_client_refused. Qed.

(* ---------------------------------------------------------------- the full statement and its refutation *)

(* (a) dead tokens (revoked or expired session / parent session, account outside its window) are
   refused everywhere — proved: C39_dead_session_rejected *)
Definition C39_full_dead : Prop :=
  forall cf s t ct, dead s t ct -> refused_everywhere cf s t ct.
(* (b) in every history with non-decreasing clocks, a refresh token that is no longer the latest
   issuance of its session is refused when presented by its own, authenticated client *)
Definition C39_full_replay : Prop :=
  forall h cf us ops, times_sorted 0 ops = true -> reuse_refused h cf 0 (env0 us) ops = true.
Definition C39_full_statement : Prop := C39_full_dead /\ C39_full_replay.

Theorem C39_full_dead_holds : C39_full_dead.
Proof. exact C39_dead_session_rejected. Qed.

(* K1: code exchange and first refresh within one clock second; the rotated first refresh token
   is accepted again 40 s later. *)
Theorem C39_refuted_replay : ~ C39_full_replay.
Proof.
  intros H. specialize (H (fun _ => 0) k1_cf [(0, SNever)] k1_ops k1_sorted).
  rewrite k1_reused in H. discriminate.
Qed.

Theorem C39_refuted : ~ C39_full_statement.
Proof. intros [_ H]. exact (C39_refuted_replay H). Qed.
