(* KV.C39.Proofs *)
From Coq Require Import List NArith Bool Lia.
Import ListNotations.
Require Import KV.C39.Model.
Open Scope N_scope.
Arguments N.add : simpl never.
Arguments N.sub : simpl never.
Arguments N.mul : simpl never.
Arguments N.div : simpl never.
Arguments N.ltb : simpl never.
Arguments N.leb : simpl never.
Arguments N.eqb : simpl never.
Arguments secs : simpl never.

(* ---------------------------------------------------------------- small facts *)

Lemma mem_In x l : mem x l = true -> In x l.
Proof.
  unfold mem. rewrite existsb_exists. intros (y & Hy & E). apply N.eqb_eq in E. subst. exact Hy.
Qed.

Lemma subset_incl a b : subset a b = true -> incl a b.
Proof.
  unfold subset. rewrite forallb_forall. intros H x Hx. apply mem_In. apply H. exact Hx.
Qed.

Lemma lookup_In {A} k (l : list (N * A)) v : lookup k l = Some v -> In (k, v) l.
Proof.
  induction l as [|[k' v'] r IH]; cbn [lookup]; [discriminate|].
  destruct (N.eqb_spec k k') as [->|_].
  - intros [= ->]. left. reflexivity.
  - intros H. right. apply IH. exact H.
Qed.

Lemma lookup_cons_ne {A} k k' (v' : A) l : k <> k' -> lookup k ((k', v') :: l) = lookup k l.
Proof. intros H. cbn [lookup]. destruct (N.eqb_spec k k'); [contradiction|reflexivity]. Qed.

Lemma find_os_map f sid l :
  (forall o, os_id (f o) = os_id o) ->
  find_os sid (map f l) = option_map f (find_os sid l).
Proof.
  intros Hid. induction l as [|o r IH]; [reflexivity|].
  cbn [map find_os]. rewrite Hid. destruct (os_id o =? sid); [reflexivity|exact IH].
Qed.

Lemma revoke_os_id o : os_id (revoke_os o) = os_id o.
Proof. reflexivity. Qed.

Lemma orphan_rule_id ct us o : os_id (orphan_rule ct us o) = os_id o.
Proof. unfold orphan_rule. destruct (parent_live _ _); [reflexivity|]. destruct (_ <=? _); reflexivity. Qed.

Lemma sweep_os_id ct us o : os_id (sweep_os ct us o) = os_id o.
Proof.
  unfold sweep_os. destruct (os_state o) as [|e|]; [reflexivity| |apply orphan_rule_id].
  destruct (e <=? ct); [reflexivity|apply orphan_rule_id].
Qed.

(* a revoked session stays revoked through the plugin sweep *)
Lemma sweep_os_revoked ct us o : os_state o = SRevoked -> os_state (sweep_os ct us o) = SRevoked.
Proof. intros H. unfold sweep_os. rewrite H. exact H. Qed.

Lemma find_os_sweep ct s sid :
  find_os sid (o2s (sweep ct s)) =
  option_map (sweep_os ct (map (sweep_uat ct) (uats s))) (find_os sid (o2s s)).
Proof. unfold sweep; cbn [o2s]. apply find_os_map. intros o. apply sweep_os_id. Qed.

Lemma find_os_revoke_sid sid l o :
  find_os sid l = Some o -> find_os sid (revoke_sid sid l) = Some (revoke_os o).
Proof.
  intros H. unfold revoke_sid.
  rewrite find_os_map by (intros x; destruct (os_id x =? sid); reflexivity).
  rewrite H. cbn [option_map].
  assert (E : os_id o = sid).
  { clear -H. induction l as [|x r IH]; [discriminate|]. cbn [find_os] in H.
    destruct (N.eqb_spec (os_id x) sid) as [E|_]; [injection H as <-; exact E | apply IH; exact H]. }
  rewrite E, N.eqb_refl. reflexivity.
Qed.

(* ---------------------------------------------------------------- C39 (1): code redemption *)

Lemma code_checks_none h pkce client c redir ver ct :
  code_checks h pkce client c redir ver ct = None <->
  (c_client c = client /\ secs ct < c_exp c /\ redir = c_redir c /\
   match c_chal c with
   | Some ch => exists v, ver = Some v /\ h v = ch
   | None => pkce = false /\ ver = None
   end).
Proof.
  unfold code_checks, pkce_verify.
  destruct (N.eqb_spec (c_client c) client) as [Ec|Ec]; cbn [negb].
  2:{ split; [discriminate | intros (H & _); contradiction]. }
  destruct (N.leb_spec (c_exp c) (secs ct)) as [Hx|Hx].
  { split; [discriminate | intros (_ & H & _); lia]. }
  destruct (c_chal c) as [ch|].
  - destruct ver as [v|].
    + destruct (N.eqb_spec (h v) ch) as [Eh|Eh].
      * destruct (N.eqb_spec redir (c_redir c)) as [Er|Er]; cbn [negb].
        -- split; [intros _|reflexivity]. repeat split; try assumption. exists v. split; [reflexivity|exact Eh].
        -- split; [discriminate | intros (_ & _ & H & _); contradiction].
      * split; [discriminate|]. intros (_ & _ & _ & (v' & [= <-] & E)). contradiction.
    + split; [discriminate|]. intros (_ & _ & _ & (v' & E & _)). discriminate.
  - destruct pkce.
    + split; [discriminate|]. intros (_ & _ & _ & (E & _)). discriminate.
    + destruct ver as [v|].
      * split; [discriminate|]. intros (_ & _ & _ & (_ & E)). discriminate.
      * destruct (N.eqb_spec redir (c_redir c)) as [Er|Er]; cbn [negb].
        -- split; [intros _|reflexivity]. repeat split; assumption.
        -- split; [discriminate | intros (_ & _ & H & _); contradiction].
Qed.

Definition redeemable (h : N -> N) (cf : cfg) (client : N) (sec_ok : bool) (oc : option (N * code))
                      (redir : N) (ver : option N) (ct : N) : Prop :=
  exists pkce rexp cid c,
    nth_error cf (N.to_nat client) = Some (pkce, rexp) /\ sec_ok = true /\ oc = Some (cid, c) /\
    c_client c = client /\ secs ct < c_exp c /\ redir = c_redir c /\
    match c_chal c with
    | Some ch => exists v, ver = Some v /\ h v = ch
    | None => pkce = false /\ ver = None
    end.

Lemma exchange_iff h cf client sec_ok oc redir ver ct fresh s :
  (exists t s', exchange h cf client sec_ok oc redir ver ct fresh s = (inr t, s')) <->
  redeemable h cf client sec_ok oc redir ver ct.
Proof.
  unfold exchange, client_auth, redeemable.
  destruct (nth_error cf (N.to_nat client)) as [[pkce rexp]|] eqn:En.
  2:{ split; [intros (t & s' & H); discriminate | intros (? & ? & ? & ? & H & _); discriminate]. }
  destruct sec_ok.
  2:{ split; [intros (t & s' & H); discriminate | intros (? & ? & ? & ? & _ & H & _); discriminate]. }
  destruct oc as [[cid c]|].
  2:{ split; [intros (t & s' & H); discriminate | intros (? & ? & ? & ? & _ & _ & H & _); discriminate]. }
  destruct (code_checks h pkce client c redir ver ct) as [e|] eqn:Ek.
  - split; [intros (t & s' & H); discriminate|].
    intros (pk & rx & ci & c' & [= <- <-] & _ & [= <- <-] & H).
    apply code_checks_none in H. rewrite H in Ek. discriminate.
  - apply code_checks_none in Ek. split.
    + intros _. exists pkce, rexp, cid, c. repeat split; try reflexivity; apply Ek.
    + intros _. unfold issue. eexists. eexists. reflexivity.
Qed.

Lemma exchange_grant h cf client sec_ok cid c redir ver ct fresh s t s' :
  exchange h cf client sec_ok (Some (cid, c)) redir ver ct fresh s = (inr t, s') ->
  t_scopes t = c_scopes c /\ t_parent t = Some (c_parent c) /\ t_client t = client /\
  c_client c = client /\ t_sid t = fresh /\ t_code t = cid /\
  t_iat t = secs ct /\ t_aexp t = secs ct + ACCESS_EXP.
Proof.
  unfold exchange. destruct (client_auth cf client sec_ok) as [[pkce rexp]|]; [|discriminate].
  destruct (code_checks h pkce client c redir ver ct) as [e|] eqn:Ek; [discriminate|].
  apply code_checks_none in Ek. unfold issue. intros [= <- <-]. cbn.
  repeat split; try reflexivity. apply Ek.
Qed.

(* a refused exchange changes nothing *)
Lemma exchange_err_state h cf client sec_ok oc redir ver ct fresh s e s' :
  exchange h cf client sec_ok oc redir ver ct fresh s = (inl e, s') -> s' = s.
Proof.
  unfold exchange. destruct (client_auth cf client sec_ok) as [[pkce rexp]|]; [|intros [= _ <-]; reflexivity].
  destruct oc as [[cid c]|]; [|intros [= _ <-]; reflexivity].
  destruct (code_checks h pkce client c redir ver ct); [intros [= _ <-]; reflexivity|].
  unfold issue. discriminate.
Qed.

(* ---------------------------------------------------------------- C39 (2): refresh *)

Lemma refresh_ok_inv cf client sec_ok ot req ct s t' s' :
  refresh cf client sec_ok ot req ct s = (inr t', s') ->
  exists t, ot = Some t /\ sec_ok = true /\ t_client t = client /\ secs ct < t_rexp t /\
    acct_valid s (t_sid t) (t_parent t) (t_iat t) ct = true /\
    incl (t_scopes t') (t_scopes t) /\
    match req with Some rs => t_scopes t' = rs | None => t_scopes t' = t_scopes t end /\
    t_client t' = client /\ t_sid t' = t_sid t /\ t_parent t' = t_parent t /\ t_code t' = t_code t /\
    (exists o, find_os (t_sid t) (o2s s) = Some o /\ secs (os_issued o) <= t_iat t).
Proof.
  unfold refresh, client_auth.
  destruct (nth_error cf (N.to_nat client)) as [[pkce rexp]|]; [|discriminate].
  destruct sec_ok; [|discriminate].
  destruct ot as [t|]; [|discriminate].
  destruct (N.eqb_spec (t_client t) client) as [Ec|Ec]; cbn [negb]; [|discriminate].
  destruct (N.leb_spec (t_rexp t) (secs ct)) as [Hx|Hx]; [discriminate|].
  destruct (acct_valid s (t_sid t) (t_parent t) (t_iat t) ct) eqn:Ev; cbn [negb]; [|discriminate].
  destruct (find_os (t_sid t) (o2s s)) as [o|] eqn:Ef; [|discriminate].
  destruct (N.ltb_spec (t_iat t) (secs (os_issued o))) as [Hr|Hr]; [discriminate|].
  destruct req as [rs|].
  - destruct (subset rs (t_scopes t)) eqn:Es; [|discriminate].
    unfold issue. intros [= <- <-]. exists t. cbn.
    repeat split; try reflexivity; try assumption.
    + apply subset_incl. exact Es.
    + exists o. split; [exact Ef|exact Hr].
  - unfold issue. intros [= <- <-]. exists t. cbn.
    repeat split; try reflexivity; try assumption.
    + apply incl_refl.
    + exists o. split; [exact Ef|exact Hr].
Qed.

(* reuse detected: refused, and the session is revoked in the resulting account *)
Lemma refresh_replay cf client k t req ct s o :
  client_auth cf client true = Some k -> t_client t = client -> secs ct < t_rexp t ->
  acct_valid s (t_sid t) (t_parent t) (t_iat t) ct = true ->
  find_os (t_sid t) (o2s s) = Some o -> t_iat t < secs (os_issued o) ->
  exists s' o', refresh cf client true (Some t) req ct s = (inl E_GRANT, s') /\
    find_os (t_sid t) (o2s s') = Some o' /\ os_state o' = SRevoked.
Proof.
  intros Hk Hc Hx Hv Hf Hr. unfold refresh. rewrite Hk. destruct k as [pkce rexp].
  rewrite Hc, N.eqb_refl. cbn [negb].
  destruct (N.leb_spec (t_rexp t) (secs ct)); [lia|].
  rewrite Hv. cbn [negb]. rewrite Hf.
  destruct (N.ltb_spec (t_iat t) (secs (os_issued o))); [|lia].
  eexists. eexists. split; [reflexivity|].
  rewrite find_os_sweep. unfold with_o2s; cbn [o2s uats].
  rewrite (find_os_revoke_sid _ _ _ Hf). cbn [option_map]. split; [reflexivity|].
  apply sweep_os_revoked. reflexivity.
Qed.

(* ---------------------------------------------------------------- C39 (3): dead sessions / accounts *)

(* a session record is over at ct: revoked, or past its expiry *)
Lemma live_at_false ct st :
  live_at ct st = false <-> st = SRevoked \/ exists e, st = SExpires e /\ e <= ct.
Proof.
  destruct st as [|e|]; cbn [live_at].
  - split; [intros _; left; reflexivity | reflexivity].
  - destruct (N.ltb_spec ct e) as [H|H].
    + split; [discriminate | intros [E|(e' & [= <-] & H')]; [discriminate | lia]].
    + split; [intros _; right; exists e; split; [reflexivity|exact H] | reflexivity].
  - split; [discriminate | intros [E|(e' & E & _)]; discriminate].
Qed.

(* the token's OAuth2 session record is revoked or expired, or its parent session record is
   revoked or expired (while the session record is there), or the account is outside its
   validity window *)
Definition dead (s : st) (t : tok) (ct : N) : Prop :=
  (exists o, find_os (t_sid t) (o2s s) = Some o /\ live_at ct (os_state o) = false) \/
  (exists o p us, find_os (t_sid t) (o2s s) = Some o /\ t_parent t = Some p /\
                  lookup p (uats s) = Some us /\ live_at ct us = false) \/
  in_window s ct = false.

Lemma dead_invalid s t ct : dead s t ct -> acct_valid s (t_sid t) (t_parent t) (t_iat t) ct = false.
Proof.
  unfold acct_valid. intros [(o & Hf & Hs) | [(o & p & us & Hf & Hp & Hu & Hl) | Hw]].
  - rewrite Hf, Hs. cbn. apply andb_false_r.
  - rewrite Hf, Hp, Hu, Hl. destruct (negb (live_at ct (os_state o))); cbn; apply andb_false_r.
  - rewrite Hw. reflexivity.
Qed.

Definition refused_everywhere (cf : cfg) (s : st) (t : tok) (ct : N) : Prop :=
  (forall client sec_ok req, exists e, refresh cf client sec_ok (Some t) req ct s = (inl e, s)) /\
  introspect t false ct s = RIntro false [] /\
  (forall client, exists e, userinfo cf client t ct s = RErr e).

Lemma invalid_refused cf s t ct :
  acct_valid s (t_sid t) (t_parent t) (t_iat t) ct = false -> refused_everywhere cf s t ct.
Proof.
  intros Hv. split; [|split].
  - intros client sec_ok req. unfold refresh.
    destruct (client_auth cf client sec_ok) as [[pkce rexp]|]; [|eexists; reflexivity].
    destruct (negb (t_client t =? client)); [eexists; reflexivity|].
    destruct (t_rexp t <=? secs ct); [eexists; reflexivity|].
    rewrite Hv. cbn [negb]. eexists; reflexivity.
  - unfold introspect. destruct (t_aexp t <=? secs ct); [reflexivity|]. rewrite Hv. reflexivity.
  - intros client. unfold userinfo.
    destruct (nth_error cf (N.to_nat client)); [|eexists; reflexivity].
    destruct (negb (t_client t =? client)); [eexists; reflexivity|].
    destruct (t_aexp t <=? secs ct); [eexists; reflexivity|]. rewrite Hv. eexists; reflexivity.
Qed.

(* expired tokens are refused as well *)
Lemma expired_refused cf s t ct :
  t_rexp t <= secs ct -> t_aexp t <= secs ct -> refused_everywhere cf s t ct.
Proof.
  intros Hr Ha. split; [|split].
  - intros client sec_ok req. unfold refresh.
    destruct (client_auth cf client sec_ok) as [[pkce rexp]|]; [|eexists; reflexivity].
    destruct (negb (t_client t =? client)); [eexists; reflexivity|].
    destruct (N.leb_spec (t_rexp t) (secs ct)); [eexists; reflexivity|lia].
  - unfold introspect. destruct (N.leb_spec (t_aexp t) (secs ct)); [reflexivity|lia].
  - intros client. unfold userinfo.
    destruct (nth_error cf (N.to_nat client)); [|eexists; reflexivity].
    destruct (negb (t_client t =? client)); [eexists; reflexivity|].
    destruct (N.leb_spec (t_aexp t) (secs ct)); [eexists; reflexivity|lia].
Qed.

(* a token presented to another client is refused by exchange and userinfo *)
Lemma foreign_client_refused cf client t req ct s sec_ok :
  t_client t <> client ->
  (exists e, refresh cf client sec_ok (Some t) req ct s = (inl e, s)) /\
  (exists e, userinfo cf client t ct s = RErr e).
Proof.
  intros Hc. split.
  - unfold refresh. destruct (client_auth cf client sec_ok) as [[pkce rexp]|]; [|eexists; reflexivity].
    destruct (N.eqb_spec (t_client t) client); [contradiction|]. eexists; reflexivity.
  - unfold userinfo. destruct (nth_error cf (N.to_nat client)); [|eexists; reflexivity].
    destruct (N.eqb_spec (t_client t) client); [contradiction|]. eexists; reflexivity.
Qed.

(* ---------------------------------------------------------------- histories: grants never widen *)

Definition tok_ok (codes : list (N * code)) (t : tok) : Prop :=
  exists c, lookup (t_code t) codes = Some c /\ incl (t_scopes t) (c_scopes c) /\
            t_client t = c_client c /\ t_parent t = Some (c_parent c).

Definition Inv (i : N) (e : env) : Prop :=
  (forall k c, In (k, c) (e_codes e) -> k < i) /\
  (forall k t, In (k, t) (e_toks e) -> tok_ok (e_codes e) t).

Lemma Inv_st i e s : Inv i e -> Inv i (with_st e s).
Proof. intros H. exact H. Qed.

Lemma Inv_mono i j e : i <= j -> Inv i e -> Inv j e.
Proof. intros Hij [H1 H2]. split; [|exact H2]. intros k c Hk. specialize (H1 k c Hk). lia. Qed.

Lemma Inv_add_tok i e k t s : Inv i e -> tok_ok (e_codes e) t -> Inv i (add_tok e k t s).
Proof.
  intros [H1 H2] Ht. split; [exact H1|]. unfold add_tok; cbn [e_toks e_codes].
  intros k' t' [[= <- <-]|Hin]; [exact Ht | eapply H2; exact Hin].
Qed.

Lemma step_Inv h cf i e o : Inv i e -> Inv (N.succ i) (fst (step h cf i e o)).
Proof.
  intros HI. pose proof HI as [H1 H2].
  destruct o as [ct client parent chal redir scopes | ct client sec_ok cd redir ver
               | ct client sec_ok tk req | ct tk r | ct client tk | ct tk r | ct parent
               | ct from exp | ct | ct sid parent iat]; cbn [step].
  - (* OCode: a fresh key; older lookups are unaffected *)
    cbn [fst]. split; cbn [e_codes e_toks].
    + intros k c [[= <- <-]|Hin]; [lia|]. specialize (H1 k c Hin). lia.
    + intros k t Hin. destruct (H2 k t Hin) as (c & Hl & Hrest).
      exists c. split; [|exact Hrest].
      rewrite lookup_cons_ne; [exact Hl|].
      apply lookup_In in Hl. specialize (H1 _ _ Hl). lia.
  - (* OExch *)
    set (oc := match cd with
               | Some ci => match lookup ci (e_codes e) with Some c => Some (ci, c) | None => None end
               | None => None end).
    destruct (exchange h cf client sec_ok oc redir ver ct i (e_st e)) as [[er|t] s'] eqn:Ex; cbn [fst].
    + apply Inv_mono with i; [lia|]. apply Inv_st. exact HI.
    + apply Inv_mono with i; [lia|]. apply Inv_add_tok; [exact HI|].
      destruct oc as [[cid c]|] eqn:Eoc.
      2:{ unfold exchange in Ex. destruct (client_auth cf client sec_ok) as [[? ?]|]; discriminate. }
      apply exchange_grant in Ex. destruct Ex as (Hs & Hp & Hc & Hcc & _ & Hcode & _).
      assert (Hl : lookup cid (e_codes e) = Some c).
      { subst oc. destruct cd as [ci|]; [|discriminate].
        destruct (lookup ci (e_codes e)) as [c0|] eqn:El; [|discriminate].
        injection Eoc as <- <-. exact El. }
      exists c. rewrite Hcode, Hs, Hp, Hc, Hcc. repeat split; try assumption; try reflexivity. apply incl_refl.
  - (* ORefr *)
    set (ot := match tk with Some (ti, true) => lookup ti (e_toks e) | _ => None end).
    destruct (refresh cf client sec_ok ot req ct (e_st e)) as [[er|t'] s'] eqn:Er; cbn [fst].
    + apply Inv_mono with i; [lia|]. apply Inv_st. exact HI.
    + apply Inv_mono with i; [lia|]. apply Inv_add_tok; [exact HI|].
      apply refresh_ok_inv in Er.
      destruct Er as (t & Hot & _ & Hc & _ & _ & Hincl & _ & Hc' & _ & Hp' & Hcode' & _).
      assert (Hin : exists ti, In (ti, t) (e_toks e)).
      { subst ot. destruct tk as [[ti [|]]|]; try discriminate. exists ti. apply lookup_In. exact Hot. }
      destruct Hin as (ti & Hin). destruct (H2 _ _ Hin) as (c & Hl & Hsc & Hcl & Hpa).
      exists c. rewrite Hcode', Hp', Hc'. repeat split; try assumption.
      * intros x Hx. apply Hsc. apply Hincl. exact Hx.
      * rewrite <- Hc. exact Hcl.
  - cbn [fst]. apply Inv_mono with i; [lia|exact HI].
  - cbn [fst]. apply Inv_mono with i; [lia|exact HI].
  - cbn [fst]. apply Inv_mono with i; [lia|]. destruct (lookup tk (e_toks e)); [apply Inv_st|]; exact HI.
  - cbn [fst]. apply Inv_mono with i; [lia|]. apply Inv_st. exact HI.
  - cbn [fst]. apply Inv_mono with i; [lia|]. apply Inv_st. exact HI.
  - cbn [fst]. apply Inv_mono with i; [lia|]. apply Inv_st. exact HI.
  - cbn [fst]. apply Inv_mono with i; [lia|exact HI].
Qed.

Lemma run_Inv h cf : forall ops i e, Inv i e -> exists j, Inv j (fst (run_from h cf i e ops)).
Proof.
  induction ops as [|o r IH]; intros i e HI; cbn [run_from].
  - exists i. exact HI.
  - pose proof (step_Inv h cf i e o HI) as HS.
    destruct (step h cf i e o) as [e1 x]. cbn [fst] in HS.
    destruct (IH (N.succ i) e1 HS) as (j & Hj).
    destruct (run_from h cf (N.succ i) e1 r) as [e2 xs]. exists j. exact Hj.
Qed.

Lemma Inv0 us : Inv 0 (env0 us).
Proof. split; intros k x []. Qed.

(* ---------------------------------------------------------------- refutations of the full statements *)

(* the parent session of the token has expired, swept or not *)
Definition lapsed (s : st) (t : tok) (ct : N) : Prop :=
  exists o p e, find_os (t_sid t) (o2s s) = Some o /\ t_parent t = Some p /\
                lookup p (uats s) = Some (SExpires e) /\ e <= ct.

Lemma lapsed_dead s t ct : lapsed s t ct -> dead s t ct.
Proof.
  intros (o & p & e & Hf & Hp & Hu & He). right. left. exists o, p, (SExpires e).
  repeat split; try assumption. apply live_at_false. right. exists e. split; [reflexivity|exact He].
Qed.

(* K2 (documentation of the behaviour BEFORE fix 8607e8e): parent session expired at 10400 s and
   not swept; at 10500 s the old validity function still said valid, the fixed one refuses *)
Definition k2_st : st :=
  mkst None None [(0, SExpires (10400 * NS))]
       [mkos 1 (Some 0) (SExpires (10100 * NS + 57600 * NS)) (10100 * NS) 0].
Definition k2_tok : tok := mktok 0 [0; 1] (Some 0) 1 10100 11000 67700 0.

Lemma k2_lapsed : lapsed k2_st k2_tok (10500 * NS).
Proof.
  eexists. exists 0, (10400 * NS). repeat split; try reflexivity. vm_compute. discriminate.
Qed.

Lemma k2_prefix_valid :
  acct_valid_prefix k2_st (t_sid k2_tok) (t_parent k2_tok) (t_iat k2_tok) (10500 * NS) = true.
Proof. vm_compute. reflexivity. Qed.

Lemma k2_now_inactive : introspect k2_tok false (10500 * NS) k2_st = RIntro false [].
Proof. vm_compute. reflexivity. Qed.

(* K1: reuse of a rotated refresh token within the second of its issue is accepted.
   History: code, exchange (tokens #1), refresh with #1 (tokens #2) in the same second,
   refresh with #1 AGAIN 40 s later. *)
Definition k1_cf : cfg := [(false, 57600)].
Definition k1_ops : list op :=
  [ OCode (10000 * NS) 0 0 None 0 [0; 1];
    OExch (10000 * NS + 100) 0 true (Some 0) 0 None;
    ORefr (10000 * NS + 500) 0 true (Some (1, true)) None;
    ORefr (10040 * NS) 0 true (Some (1, true)) None ].

(* executable form of "a presented refresh token that is not the latest issuance of its session
   (right client, right secret, unexpired) is refused" over a model run *)
Fixpoint reuse_refused (h : N -> N) (cf : cfg) (i : N) (e : env) (ops : list op) : bool :=
  match ops with
  | [] => true
  | o :: r =>
      let '(e1, x) := step h cf i e o in
      (match o with
       | ORefr ct client true (Some (ti, true)) _ =>
           match lookup ti (e_toks e) with
           | Some t =>
               match lookup (t_sid t) (e_cur e) with
               | Some j => if negb (j =? ti) && (t_client t =? client) && (secs ct <? t_rexp t)
                           then is_err x else true
               | None => true
               end
           | None => true
           end
       | _ => true
       end) && reuse_refused h cf (N.succ i) e1 r
  end.

Fixpoint times_sorted (last : N) (ops : list op) : bool :=
  match ops with
  | [] => true
  | o :: r => (last <=? op_ct o) && times_sorted (op_ct o) r
  end.

Lemma k1_sorted : times_sorted 0 k1_ops = true.
Proof. vm_compute. reflexivity. Qed.

Lemma k1_reused : reuse_refused (fun _ => 0) k1_cf 0 (env0 [(0, SNever)]) k1_ops = false.
Proof. vm_compute. reflexivity. Qed.
