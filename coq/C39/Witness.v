(* KV.C39.Witness — non-vacuity: concrete values meeting the hypotheses of the implication theorems,
   and concrete cases inside / outside the known classes. *)
From Coq Require Import List NArith Bool.
Import ListNotations.
Require Import KV.C39.Model KV.C39.Proofs.
Open Scope N_scope.

Definition w_cf : cfg := [(true, 1200); (false, 600)].
Definition w_h (v : N) : N := v + 1.
Definition w_s0 : st := mkst None None [(0, SExpires (20000 * NS)); (1, SNever)] [].
Definition w_code : code := mkcode 0 10060 (Some 1) 1 [0; 2; 3] 0.

(* C39_code_redeem_iff / C39_code_grant_exact: a PKCE code redeemed at its client with the right verifier *)
Example C39_witness_redeem :
  exists t s', exchange w_h w_cf 0 true (Some (7, w_code)) 1 (Some 0) (10059 * NS + 999999999) 8 w_s0 = (inr t, s')
               /\ t_scopes t = [0; 2; 3] /\ t_sid t = 8 /\ o2s s' <> [].
Proof. eexists. eexists. vm_compute. repeat split; discriminate. Qed.

(* ... and every single deviation is refused: other client, late by one tick, other URI, wrong / missing verifier *)
Example C39_witness_redeem_refused :
  fst (exchange w_h w_cf 1 true (Some (7, w_code)) 1 (Some 0) (10059 * NS) 8 w_s0) = inl E_REQ /\
  fst (exchange w_h w_cf 0 true (Some (7, w_code)) 1 (Some 0) (10060 * NS) 8 w_s0) = inl E_REQ /\
  fst (exchange w_h w_cf 0 true (Some (7, w_code)) 0 (Some 0) (10059 * NS) 8 w_s0) = inl E_ORIGIN /\
  fst (exchange w_h w_cf 0 true (Some (7, w_code)) 1 (Some 1) (10059 * NS) 8 w_s0) = inl E_REQ /\
  fst (exchange w_h w_cf 0 true (Some (7, w_code)) 1 None (10059 * NS) 8 w_s0) = inl E_REQ /\
  fst (exchange w_h w_cf 0 false (Some (7, w_code)) 1 (Some 0) (10059 * NS) 8 w_s0) = inl E_AUTH.
Proof. vm_compute. repeat split; reflexivity. Qed.

(* a live session with one rotation in a LATER second: the state and the two tokens *)
Definition w_s1 : st :=
  mkst None None [(0, SExpires (20000 * NS)); (1, SNever)]
       [mkos 8 (Some 0) (SExpires (10030 * NS + 1200 * NS)) (10030 * NS) 0].
Definition w_old : tok := mktok 0 [0; 2; 3] (Some 0) 8 10010 10910 11210 7.
Definition w_new : tok := mktok 0 [0; 2] (Some 0) 8 10030 10930 11230 7.

(* C39_refresh_within_token: the current token refreshes, narrowing further *)
Example C39_witness_refresh_ok :
  exists t' s', refresh w_cf 0 true (Some w_new) (Some [2]) (10100 * NS) w_s1 = (inr t', s') /\ t_scopes t' = [2].
Proof. eexists. eexists. vm_compute. split; reflexivity. Qed.
(* ... but cannot widen back to what the FIRST token had *)
Example C39_witness_refresh_no_widen :
  fst (refresh w_cf 0 true (Some w_new) (Some [0; 2; 3]) (10100 * NS) w_s1) = inl E_SCOPE.
Proof. vm_compute. reflexivity. Qed.

(* C39_replay_revokes_partial: all six hypotheses hold for the rotated token *)
Example C39_witness_replay_hyps :
  client_auth w_cf 0 true = Some (true, 1200) /\ t_client w_old = 0 /\ secs (10100 * NS) < t_rexp w_old /\
  acct_valid w_s1 (t_sid w_old) (t_parent w_old) (t_iat w_old) (10100 * NS) = true /\
  find_os (t_sid w_old) (o2s w_s1) = Some (mkos 8 (Some 0) (SExpires (10030 * NS + 1200 * NS)) (10030 * NS) 0) /\
  t_iat w_old < secs (10030 * NS).
Proof. vm_compute. repeat split; reflexivity. Qed.

(* C39_dead_session_rejected: each way of being dead occurs *)
Definition w_s_rev : st := mkst None None [(0, SNever)] [mkos 8 (Some 0) SRevoked (10030 * NS) 0].
Definition w_s_prev : st := mkst None None [(0, SRevoked)] [mkos 8 (Some 0) (SExpires (99999 * NS)) (10030 * NS) 0].
Definition w_s_pexp : st := mkst None None [(0, SExpires (10099 * NS))] [mkos 8 (Some 0) (SExpires (99999 * NS)) (10030 * NS) 0].
Definition w_s_oexp : st := mkst None None [(0, SNever)] [mkos 8 (Some 0) (SExpires (10100 * NS)) (10030 * NS) 0].
Definition w_s_win : st := mkst None (Some (10050 * NS)) [(0, SNever)] [mkos 8 (Some 0) (SExpires (99999 * NS)) (10030 * NS) 0].
Example C39_witness_dead_session : dead w_s_rev w_new (10100 * NS).
Proof. left. eexists. split; reflexivity. Qed.
Example C39_witness_dead_session_expired : dead w_s_oexp w_new (10100 * NS).
Proof. left. eexists. split; [reflexivity | vm_compute; reflexivity]. Qed.
Example C39_witness_dead_parent : dead w_s_prev w_new (10100 * NS).
Proof. right. left. eexists. exists 0, SRevoked. repeat split; reflexivity. Qed.
Example C39_witness_dead_parent_expired : dead w_s_pexp w_new (10100 * NS) /\ lapsed w_s_pexp w_new (10100 * NS).
Proof.
  split.
  - right. left. eexists. exists 0, (SExpires (10099 * NS)). repeat split; try reflexivity.
  - eexists. exists 0, (10099 * NS). repeat split; try reflexivity. vm_compute. discriminate.
Qed.
Example C39_witness_dead_window : dead w_s_win w_new (10100 * NS).
Proof. right. right. vm_compute. reflexivity. Qed.
(* ... while the same token is accepted in the live state (the theorem is not about a model that refuses everything) *)
Example C39_witness_live_accepted :
  introspect w_new false (10100 * NS) w_s1 = RIntro true [0; 2] /\ userinfo w_cf 0 w_new (10100 * NS) w_s1 = RUnit.
Proof. vm_compute. split; reflexivity. Qed.

(* C39_expired_token_rejected / C39_foreign_client_refused *)
Example C39_witness_expired : t_rexp w_old <= secs (11210 * NS) /\ t_aexp w_old <= secs (11210 * NS).
Proof. vm_compute. split; discriminate. Qed.
Example C39_witness_foreign : t_client w_new <> 1.
Proof. discriminate. Qed.

(* C39_refresh_subset: a history with a narrowing refresh, a refused widening, a reuse that revokes *)
Definition w_ops : list op :=
  [ OCode (10000 * NS) 0 0 (Some 1) 1 [0; 2; 3];
    OExch (10010 * NS) 0 true (Some 0) 1 (Some 0);
    ORefr (10030 * NS) 0 true (Some (1, true)) (Some [0; 2]);
    ORefr (10040 * NS) 0 true (Some (2, true)) (Some [0; 2; 3]);
    OIntro (10041 * NS) 2 false;
    ORefr (10050 * NS) 0 true (Some (1, true)) None;
    OIntro (10051 * NS) 2 false ].
Example C39_witness_history :
  snd (run_from w_h w_cf 0 (env0 [(0, SNever)]) w_ops) =
  [ RUnit; RTok 1 [0; 2; 3] 10010 10910 11210 (Some 0); RTok 1 [0; 2] 10030 10930 11230 (Some 0);
    RErr E_SCOPE; RIntro true [0; 2]; RErr E_GRANT; RIntro false [] ] /\
  length (e_toks (fst (run_from w_h w_cf 0 (env0 [(0, SNever)]) w_ops))) = 2%nat.
Proof. vm_compute. split; reflexivity. Qed.

(* ---------------------------------------------------------------- cases: agree / pcheck / known *)

Definition w_obs1 : obs := ([(0, SNever)], [(1, Some 0, SExpires (10010 * NS + 1200 * NS), 10010 * NS, 0)]).
Definition w_case_ok : case :=
  CHist w_cf [(0, 1)] [(0, SNever)]
    [ (OCode (10000 * NS) 0 0 (Some 1) 1 [0; 2; 3], RUnit, ([(0, SNever)], []));
      (OExch (10010 * NS) 0 true (Some 0) 1 (Some 0), RTok 1 [0; 2; 3] 10010 10910 11210 (Some 0), w_obs1);
      (OIntro (10011 * NS) 1 false, RIntro true [0; 2; 3], w_obs1) ].
Example C39_witness_case_ok : agree w_case_ok = true /\ pcheck w_case_ok = true /\ known w_case_ok = false.
Proof. vm_compute. repeat split; reflexivity. Qed.

(* an implementation that redeems the code at ANOTHER redirect URI fails pcheck outside the known classes *)
Definition w_case_bad : case :=
  CHist w_cf [(0, 1)] [(0, SNever)]
    [ (OCode (10000 * NS) 0 0 (Some 1) 1 [0; 2; 3], RUnit, ([(0, SNever)], []));
      (OExch (10010 * NS) 0 true (Some 0) 0 (Some 0), RTok 1 [0; 2; 3] 10010 10910 11210 (Some 0), w_obs1) ].
Example C39_witness_case_bad : pcheck w_case_bad = false /\ known w_case_bad = false /\ agree w_case_bad = false.
Proof. vm_compute. repeat split; reflexivity. Qed.

(* former class K2 as a case: parent session 0 expires at 10400 s. The fixed server reports the
   token inactive at 10500 s (agrees with the model, property holds) ... *)
Definition w_obs_k2 : obs :=
  ([(0, SExpires (10400 * NS))], [(1, Some 0, SExpires (10010 * NS + 1200 * NS), 10010 * NS, 0)]).
Definition w_case_k2 (answer : res) : case :=
  CHist w_cf [(0, 1)] [(0, SExpires (10400 * NS))]
    [ (OCode (10000 * NS) 0 0 (Some 1) 1 [0], RUnit, ([(0, SExpires (10400 * NS))], []));
      (OExch (10010 * NS) 0 true (Some 0) 1 (Some 0), RTok 1 [0] 10010 10910 11210 (Some 0), w_obs_k2);
      (OIntro (10500 * NS) 1 false, answer, w_obs_k2) ].
Example C39_witness_case_k2_fixed :
  agree (w_case_k2 (RIntro false [])) = true /\ pcheck (w_case_k2 (RIntro false [])) = true.
Proof. vm_compute. split; reflexivity. Qed.
(* ... and the answer of the server before fix 8607e8e (active) is a property failure OUTSIDE the
   known class, and a disagreement with the model *)
Example C39_witness_case_k2_prefix :
  pcheck (w_case_k2 (RIntro true [0])) = false /\ known (w_case_k2 (RIntro true [0])) = false /\
  agree (w_case_k2 (RIntro true [0])) = false.
Proof. vm_compute. repeat split; reflexivity. Qed.

(* K1 as a case: exchange and first refresh in second 10010; the rotated token works again at 10050 *)
Definition w_case_k1 : case :=
  CHist w_cf [(0, 1)] [(0, SNever)]
    [ (OCode (10000 * NS) 0 0 (Some 1) 1 [0], RUnit, ([(0, SNever)], []));
      (OExch (10010 * NS) 0 true (Some 0) 1 (Some 0), RTok 1 [0] 10010 10910 11210 (Some 0),
       ([(0, SNever)], [(1, Some 0, SExpires (10010 * NS + 1200 * NS), 10010 * NS, 0)]));
      (ORefr (10010 * NS + 500) 0 true (Some (1, true)) None, RTok 1 [0] 10010 10910 11210 (Some 0),
       ([(0, SNever)], [(1, Some 0, SExpires (10010 * NS + 500 + 1200 * NS), 10010 * NS + 500, 0)]));
      (ORefr (10050 * NS) 0 true (Some (1, true)) None, RTok 1 [0] 10050 10950 11250 (Some 0),
       ([(0, SNever)], [(1, Some 0, SExpires (10050 * NS + 1200 * NS), 10050 * NS, 0)])) ].
Example C39_witness_case_k1 : agree w_case_k1 = true /\ pcheck w_case_k1 = false /\ known w_case_k1 = true.
Proof. vm_compute. repeat split; reflexivity. Qed.
