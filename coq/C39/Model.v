(* KV.C39.Model — OAuth2 token redemption (executable definitions only).
   Transcribes, from /repo/server/lib/src:
     idm/oauth2.rs   check_oauth2_token_exchange (client authentication part),
                     check_oauth2_token_exchange_authorization_code, check_oauth2_token_refresh,
                     generate_access_token_response, oauth2_token_revoke,
                     oauth2_token_introspect_jwt / _jwe, oauth2_openid_userinfo,
                     PkceS256Secret::verify (the hash is a parameter, see [h]);
     idm/server.rs   check_oauth2_account_uuid_valid;
     idm/account.rs  Account::check_within_valid_time;
     plugins/session.rs  SessionConsistency::modify_inner (runs inside EVERY modify of the account);
     valueset/session.rs ValueSetOauth2Session::insert_checked / remove, value.rs Ord for SessionState.
   One account; times are nanoseconds since the epoch (N); token times are whole seconds. *)
From Coq Require Import List NArith Bool.
Import ListNotations.
Open Scope N_scope.

Definition NS : N := 1000000000.
Definition secs (t : N) : N := t / NS.
Definition GRACE : N := 300 * NS.          (* AUTH_TOKEN_GRACE_WINDOW *)
Definition ACCESS_EXP : N := 900.          (* OAUTH2_ACCESS_TOKEN_EXPIRY *)
Definition CODE_EXP : N := 60.             (* "The exchange must be performed in the next 60 seconds" *)

(* error codes of Oauth2Error that can be observed here *)
Definition E_REQ : N := 1.      (* InvalidRequest *)
Definition E_GRANT : N := 2.    (* InvalidGrant *)
Definition E_ORIGIN : N := 3.   (* InvalidOrigin *)
Definition E_SCOPE : N := 4.    (* InvalidScope *)
Definition E_AUTH : N := 5.     (* AuthenticationRequired *)
Definition E_TOKEN : N := 6.    (* InvalidToken *)
Definition E_CLIENT : N := 7.   (* InvalidClientId *)

Inductive sstate := SRevoked | SExpires (t : N) | SNever.

(* `m.state > e_v.state` of insert_checked (Ord for SessionState). A Present never carries
   RevokedAt, so the RevokedAt/RevokedAt arm (cid order) is not reachable: totalised to false. *)
Definition state_gt (nw old : sstate) : bool :=
  match nw, old with
  | SRevoked, SRevoked => false
  | SRevoked, _ => true
  | _, SRevoked => false
  | SExpires a, SExpires b => b <? a
  | SExpires _, SNever => true
  | SNever, _ => false
  end.

(* value::Oauth2Session keyed by its id *)
Record osess := mkos { os_id : N; os_parent : option N; os_state : sstate; os_issued : N; os_rs : N }.

(* the account entry: validity window, UserAuthTokenSession map, OAuth2Session map *)
Record st := mkst { a_from : option N; a_exp : option N; uats : list (N * sstate); o2s : list osess }.

Fixpoint lookup {A} (k : N) (l : list (N * A)) : option A :=
  match l with
  | [] => None
  | (k', v) :: r => if k =? k' then Some v else lookup k r
  end.

Fixpoint find_os (sid : N) (l : list osess) : option osess :=
  match l with
  | [] => None
  | o :: r => if os_id o =? sid then Some o else find_os sid r
  end.

Definition revoked (s : sstate) : bool := match s with SRevoked => true | _ => false end.

(* ---------------------------------------------------------------- validity of a token's account/session *)

(* Account::check_within_valid_time *)
Definition in_window (s : st) (ct : N) : bool :=
  (match a_from s with Some f => f <=? ct | None => true end) &&
  (match a_exp s with Some e => ct <=? e | None => true end).

Definition grace_ok (iat ct : N) : bool := ct <? iat * NS + GRACE.

(* `session_is_live` of check_oauth2_account_uuid_valid (since fix 8607e8e): a session past its
   expiry is as dead as a revoked one, whether or not the plugin has swept it yet *)
Definition live_at (ct : N) (s : sstate) : bool :=
  match s with
  | SRevoked => false
  | SExpires e => ct <? e
  | SNever => true
  end.

(* check_oauth2_account_uuid_valid = Ok(Some(entry)); there are no api token sessions *)
Definition acct_valid (s : st) (sid : N) (parent : option N) (iat ct : N) : bool :=
  in_window s ct &&
  match find_os sid (o2s s) with
  | Some o =>
      if negb (live_at ct (os_state o)) then false else
      match parent with
      | None => true
      | Some p =>
          match lookup p (uats s) with
          | Some us => live_at ct us
          | None => grace_ok iat ct
          end
      end
  | None => grace_ok iat ct
  end.

(* the same function BEFORE fix 8607e8e (documentation only, used by the C39_prefix_* facts):
   only RevokedAt was looked at *)
Definition acct_valid_prefix (s : st) (sid : N) (parent : option N) (iat ct : N) : bool :=
  in_window s ct &&
  match find_os sid (o2s s) with
  | Some o =>
      if revoked (os_state o) then false else
      match parent with
      | None => true
      | Some p =>
          match lookup p (uats s) with
          | Some us => negb (revoked us)
          | None => grace_ok iat ct
          end
      end
  | None => grace_ok iat ct
  end.

(* ---------------------------------------------------------------- SessionConsistency::modify_inner *)

Definition sweep_uat (ct : N) (u : N * sstate) : N * sstate :=
  match snd u with
  | SExpires e => if e <=? ct then (fst u, SRevoked) else u
  | _ => u
  end.

Definition parent_live (us : list (N * sstate)) (p : option N) : bool :=
  match p with
  | None => true
  | Some p => match lookup p us with Some s => negb (revoked s) | None => false end
  end.

Definition revoke_os (o : osess) : osess := mkos (os_id o) (os_parent o) SRevoked (os_issued o) (os_rs o).

Definition orphan_rule (ct : N) (us : list (N * sstate)) (o : osess) : osess :=
  if parent_live us (os_parent o) then o
  else if os_issued o + GRACE <=? ct then revoke_os o else o.

Definition sweep_os (ct : N) (us : list (N * sstate)) (o : osess) : osess :=
  match os_state o with
  | SRevoked => o
  | SExpires e => if e <=? ct then revoke_os o else orphan_rule ct us o
  | SNever => orphan_rule ct us o
  end.

Definition sweep (ct : N) (s : st) : st :=
  let us := map (sweep_uat ct) (uats s) in
  mkst (a_from s) (a_exp s) us (map (sweep_os ct us) (o2s s)).

(* Modify::Present(OAuth2Session, v): insert_checked *)
Fixpoint upsert (n : osess) (l : list osess) : list osess :=
  match l with
  | [] => [n]
  | o :: r => if os_id o =? os_id n
              then (if state_gt (os_state n) (os_state o) then n else o) :: r
              else o :: upsert n r
  end.

(* Modify::Removed(OAuth2Session, Refer(sid)): remove (the rs_uuid fallback never matches a session id) *)
Definition revoke_sid (sid : N) (l : list osess) : list osess :=
  map (fun o => if os_id o =? sid then revoke_os o else o) l.

Definition revoke_uat (p : N) (l : list (N * sstate)) : list (N * sstate) :=
  map (fun u => if fst u =? p then (fst u, SRevoked) else u) l.

Definition with_o2s (s : st) (l : list osess) : st := mkst (a_from s) (a_exp s) (uats s) l.

(* ---------------------------------------------------------------- codes and tokens *)

(* TokenExchangeCode (+ the client whose key encrypted it) *)
Record code := mkcode { c_client : N; c_exp : N; c_chal : option N; c_redir : N;
                        c_scopes : list N; c_parent : N }.

(* one issuance = the access token and the refresh token of one AccessTokenResponse;
   t_code is a ghost: the op index of the authorisation code the grant descends from *)
Record tok := mktok { t_client : N; t_scopes : list N; t_parent : option N; t_sid : N;
                      t_iat : N; t_aexp : N; t_rexp : N; t_code : N }.

Definition cfg := list (bool * N).   (* per client: require_pkce, refresh_token_expiry (s) *)

Definition mem (x : N) (l : list N) : bool := existsb (N.eqb x) l.
Definition subset (a b : list N) : bool := forallb (fun x => mem x b) a.
Fixpoint list_eqb (a b : list N) : bool :=
  match a, b with
  | [], [] => true
  | x :: a', y :: b' => (x =? y) && list_eqb a' b'
  | _, _ => false
  end.
Definition opt_eqb (a b : option N) : bool :=
  match a, b with
  | None, None => true
  | Some x, Some y => x =? y
  | _, _ => false
  end.

(* generate_access_token_response: the token pair, and the account after
   Present(OAuth2Session{parent, ExpiresAt(ct + refresh), issued_at = ct, rs}) + plugin sweep *)
Definition issue (rexp : N) (client : N) (ct : N) (scopes : list N) (parent : option N)
                 (sid codeid : N) (s : st) : tok * st :=
  (mktok client scopes parent sid (secs ct) (secs ct + ACCESS_EXP) (secs ct + rexp) codeid,
   sweep ct (with_o2s s (upsert (mkos sid parent (SExpires (ct + rexp * NS)) ct client) (o2s s)))).

(* the client authentication prefix of check_oauth2_token_exchange (basic clients) *)
Definition client_auth (cf : cfg) (client : N) (sec_ok : bool) : option (bool * N) :=
  match nth_error cf (N.to_nat client) with
  | None => None
  | Some k => if sec_ok then Some k else None
  end.

(* PkceS256Secret::verify with the hash as a parameter *)
Definition pkce_verify (h : N -> N) (ver chal : N) : bool := h ver =? chal.

(* the checks of check_oauth2_token_exchange_authorization_code, in the order of the code;
   None = all passed *)
Definition code_checks (h : N -> N) (pkce : bool) (client : N) (c : code)
                       (redir : N) (ver : option N) (ct : N) : option N :=
  if negb (c_client c =? client) then Some E_REQ          (* does not decrypt with this client's key *)
  else if c_exp c <=? secs ct then Some E_REQ
  else match c_chal c, ver with
       | Some ch, None => Some E_REQ
       | Some ch, Some v => if pkce_verify h v ch
                            then (if negb (redir =? c_redir c) then Some E_ORIGIN else None)
                            else Some E_REQ
       | None, _ => if pkce then Some E_REQ
                    else match ver with
                         | Some _ => Some E_REQ
                         | None => if negb (redir =? c_redir c) then Some E_ORIGIN else None
                         end
       end.

Inductive res :=
| RUnit
| RTok (sid : N) (scopes : list N) (iat aexp rexp : N) (parent : option N)
| RErr (e : N)
| RIntro (active : bool) (scopes : list N)
| RBool (b : bool).

Definition res_of_tok (t : tok) : res :=
  RTok (t_sid t) (t_scopes t) (t_iat t) (t_aexp t) (t_rexp t) (t_parent t).

(* authorization_code grant. [fresh] = the new session id (Uuid::new_v4 in the code) *)
Definition exchange (h : N -> N) (cf : cfg) (client : N) (sec_ok : bool) (oc : option (N * code))
                    (redir : N) (ver : option N) (ct : N) (fresh : N) (s : st)
  : (N + tok) * st :=
  match client_auth cf client sec_ok with
  | None => (inl E_AUTH, s)
  | Some (pkce, rexp) =>
      match oc with
      | None => (inl E_REQ, s)                                       (* not a JWE at all *)
      | Some (cid, c) =>
          match code_checks h pkce client c redir ver ct with
          | Some e => (inl e, s)
          | None => let '(t, s') := issue rexp client ct (c_scopes c) (Some (c_parent c)) fresh cid s
                    in (inr t, s')
          end
      end
  end.

(* refresh_token grant. [ot] = the presented string: None = not a refresh token (garbage / an
   access token); Some t = the refresh token of issuance t *)
Definition refresh (cf : cfg) (client : N) (sec_ok : bool) (ot : option tok)
                   (req : option (list N)) (ct : N) (s : st) : (N + tok) * st :=
  match client_auth cf client sec_ok with
  | None => (inl E_AUTH, s)
  | Some (_, rexp) =>
      match ot with
      | None => (inl E_REQ, s)
      | Some t =>
          if negb (t_client t =? client) then (inl E_REQ, s)          (* foreign key: no decrypt *)
          else if t_rexp t <=? secs ct then (inl E_GRANT, s)
          else if negb (acct_valid s (t_sid t) (t_parent t) (t_iat t) ct) then (inl E_GRANT, s)
          else match find_os (t_sid t) (o2s s) with
               | None => (inl E_GRANT, s)
               | Some o =>
                   if t_iat t <? secs (os_issued o)
                   then (* reuse detected: Removed(OAuth2Session, sid) + sweep *)
                        (inl E_GRANT, sweep ct (with_o2s s (revoke_sid (t_sid t) (o2s s))))
                   else
                     let go sc := let '(t', s') := issue rexp client ct sc (t_parent t) (t_sid t) (t_code t) s
                                  in (inr t', s') in
                     match req with
                     | Some rs => if subset rs (t_scopes t) then go rs else (inl E_SCOPE, s)
                     | None => go (t_scopes t)
                     end
               end
      end
  end.

(* introspection of an access token (JWS) / of a refresh token (JWE: always inactive) *)
Definition introspect (t : tok) (is_refresh : bool) (ct : N) (s : st) : res :=
  if is_refresh then RIntro false []
  else if t_aexp t <=? secs ct then RIntro false []
  else if acct_valid s (t_sid t) (t_parent t) (t_iat t) ct then RIntro true (t_scopes t)
  else RIntro false [].

(* userinfo with an access token *)
Definition userinfo (cf : cfg) (client : N) (t : tok) (ct : N) (s : st) : res :=
  match nth_error cf (N.to_nat client) with
  | None => RErr E_CLIENT
  | Some _ =>
      if negb (t_client t =? client) then RErr E_REQ
      else if t_aexp t <=? secs ct then RErr E_TOKEN
      else if acct_valid s (t_sid t) (t_parent t) (t_iat t) ct then RUnit
      else RErr E_TOKEN
  end.

(* oauth2_token_revoke: an expired token changes nothing (no modify, hence no sweep) *)
Definition revoke (t : tok) (is_refresh : bool) (ct : N) (s : st) : st :=
  if (if is_refresh then t_rexp t else t_aexp t) <=? secs ct then s
  else sweep ct (with_o2s s (revoke_sid (t_sid t) (o2s s))).

(* ---------------------------------------------------------------- histories *)

Inductive op :=
| OCode (ct client parent : N) (chal : option N) (redir : N) (scopes : list N)
| OExch (ct client : N) (sec_ok : bool) (cd : option N) (redir : N) (ver : option N)
| ORefr (ct client : N) (sec_ok : bool) (tk : option (N * bool)) (req : option (list N))
| OIntro (ct tk : N) (is_refresh : bool)
| OUser (ct client tk : N)
| ORevoke (ct tk : N) (is_refresh : bool)
| ORevokeParent (ct parent : N)
| OSetWin (ct : N) (from exp : option N)
| OTouch (ct : N)
| OProbe (ct sid : N) (parent : option N) (iat : N).

Definition op_ct (o : op) : N :=
  match o with
  | OCode ct _ _ _ _ _ | OExch ct _ _ _ _ _ | ORefr ct _ _ _ _ | OIntro ct _ _ | OUser ct _ _
  | ORevoke ct _ _ | ORevokeParent ct _ | OSetWin ct _ _ | OTouch ct | OProbe ct _ _ _ => ct
  end.

(* replay environment: account state, issued codes and issuances keyed by the index of the op
   that produced them; e_cur (ghost) = per session, the index of its latest issuance *)
Record env := mkenv { e_st : st; e_codes : list (N * code); e_toks : list (N * tok);
                      e_cur : list (N * N) }.

Definition set_cur (sid i : N) (l : list (N * N)) : list (N * N) :=
  (sid, i) :: filter (fun p => negb (fst p =? sid)) l.

Definition with_st (e : env) (s : st) : env := mkenv s (e_codes e) (e_toks e) (e_cur e).
Definition add_tok (e : env) (i : N) (t : tok) (s : st) : env :=
  mkenv s (e_codes e) ((i, t) :: e_toks e) (set_cur (t_sid t) i (e_cur e)).

Definition out_of (r : N + tok) : res := match r with inl e => RErr e | inr t => res_of_tok t end.

(* one operation, [i] = its index in the history *)
Definition step (h : N -> N) (cf : cfg) (i : N) (e : env) (o : op) : env * res :=
  let s := e_st e in
  match o with
  | OCode ct client parent chal redir scopes =>
      (* environment event: the authorisation endpoint issued a code (read transaction) *)
      (mkenv s ((i, mkcode client (secs ct + CODE_EXP) chal redir scopes parent) :: e_codes e)
             (e_toks e) (e_cur e), RUnit)
  | OExch ct client sec_ok cd redir ver =>
      let oc := match cd with
                | None => None
                | Some ci => match lookup ci (e_codes e) with Some c => Some (ci, c) | None => None end
                end in
      let '(r, s') := exchange h cf client sec_ok oc redir ver ct i s in
      (match r with inr t => add_tok e i t s' | inl _ => with_st e s' end, out_of r)
  | ORefr ct client sec_ok tk req =>
      let ot := match tk with
                | Some (ti, true) => lookup ti (e_toks e)
                | _ => None
                end in
      let '(r, s') := refresh cf client sec_ok ot req ct s in
      (match r with inr t => add_tok e i t s' | inl _ => with_st e s' end, out_of r)
  | OIntro ct tk is_refresh =>
      (e, match lookup tk (e_toks e) with
          | Some t => introspect t is_refresh ct s
          | None => RErr E_AUTH
          end)
  | OUser ct client tk =>
      (e, match lookup tk (e_toks e) with
          | Some t => userinfo cf client t ct s
          | None => RErr E_REQ
          end)
  | ORevoke ct tk is_refresh =>
      (match lookup tk (e_toks e) with
       | Some t => with_st e (revoke t is_refresh ct s)
       | None => e
       end, RUnit)
  | ORevokeParent ct parent =>
      (with_st e (sweep ct (mkst (a_from s) (a_exp s) (revoke_uat parent (uats s)) (o2s s))), RUnit)
  | OSetWin ct from exp =>
      (with_st e (sweep ct (mkst from exp (uats s) (o2s s))), RUnit)
  | OTouch ct => (with_st e (sweep ct s), RUnit)
  | OProbe ct sid parent iat => (e, RBool (acct_valid s sid parent iat ct))
  end.

Fixpoint run_from (h : N -> N) (cf : cfg) (i : N) (e : env) (ops : list op) : env * list res :=
  match ops with
  | [] => (e, [])
  | o :: r => let '(e1, x) := step h cf i e o in
              let '(e2, xs) := run_from h cf (N.succ i) e1 r in (e2, x :: xs)
  end.

Definition env0 (us : list (N * sstate)) : env := mkenv (mkst None None us []) [] [] [].

(* ---------------------------------------------------------------- correspondence *)

(* what the harness reads back from the account entry after every op *)
Definition obs := (list (N * sstate) * list (N * option N * sstate * N * N))%type.

Definition sstate_eqb (a b : sstate) : bool :=
  match a, b with
  | SRevoked, SRevoked => true
  | SExpires x, SExpires y => x =? y
  | SNever, SNever => true
  | _, _ => false
  end.

Definition os_tuple (o : osess) := (os_id o, os_parent o, os_state o, os_issued o, os_rs o).
Definition os_tuple_eqb (a b : N * option N * sstate * N * N) : bool :=
  let '(i1, p1, s1, t1, r1) := a in let '(i2, p2, s2, t2, r2) := b in
  (i1 =? i2) && opt_eqb p1 p2 && sstate_eqb s1 s2 && (t1 =? t2) && (r1 =? r2).

Fixpoint all2 {A B} (f : A -> B -> bool) (a : list A) (b : list B) : bool :=
  match a, b with
  | [], [] => true
  | x :: a', y :: b' => f x y && all2 f a' b'
  | _, _ => false
  end.

(* insertion sort of the model's session list by id (the entry's map is a BTreeMap, the
   harness prints it in ascending interned id) *)
Fixpoint ins_os (o : osess) (l : list osess) : list osess :=
  match l with
  | [] => [o]
  | x :: r => if os_id o <=? os_id x then o :: l else x :: ins_os o r
  end.
Definition sort_os (l : list osess) : list osess := fold_right ins_os [] l.

Definition obs_eqb (s : st) (ob : obs) : bool :=
  all2 (fun u v => (fst u =? fst v) && sstate_eqb (snd u) (snd v)) (uats s) (fst ob) &&
  all2 (fun o t => os_tuple_eqb (os_tuple o) t) (sort_os (o2s s)) (snd ob).

Definition res_eqb (a b : res) : bool :=
  match a, b with
  | RUnit, RUnit => true
  | RTok s1 sc1 i1 a1 r1 p1, RTok s2 sc2 i2 a2 r2 p2 =>
      (s1 =? s2) && list_eqb sc1 sc2 && (i1 =? i2) && (a1 =? a2) && (r1 =? r2) && opt_eqb p1 p2
  | RErr x, RErr y => x =? y
  | RIntro x sx, RIntro y sy => Bool.eqb x y && list_eqb sx sy
  | RBool x, RBool y => Bool.eqb x y
  | _, _ => false
  end.

Definition htab_fn (tab : list (N * N)) (v : N) : N :=
  match lookup v tab with Some c => c | None => 0 end.

Inductive case :=
| CHist (cf : cfg) (htab : list (N * N)) (us : list (N * sstate))
        (steps : list (op * res * obs)).

Fixpoint agree_from (h : N -> N) (cf : cfg) (i : N) (e : env) (steps : list (op * res * obs)) : bool :=
  match steps with
  | [] => true
  | (o, r, ob) :: rest =>
      let '(e1, x) := step h cf i e o in
      res_eqb x r && obs_eqb (e_st e1) ob && agree_from h cf (N.succ i) e1 rest
  end.

Definition agree (c : case) : bool :=
  match c with
  | CHist cf tab us steps => agree_from (htab_fn tab) cf 0 (env0 us) steps
  end.

(* ---------------------------------------------------------------- the property on the implementation's outputs
   Written as a specification over the inputs and the OBSERVED outputs only: it never calls
   exchange / refresh / acct_valid / sweep.
   Spec state: the codes issued (inputs), the token pairs the implementation returned, per
   session the scopes of its original grant and the index of its latest issuance, the sets of
   sessions / parent sessions for which a revocation was requested or a reuse was attempted,
   the parent sessions' expiry and the account window (inputs). *)

Record pst := mkpst { p_codes : list (N * code);
                      p_toks : list (N * tok);             (* as OBSERVED (t_code unused = 0) *)
                      p_orig : list (N * (N * list N));    (* sid -> (client, scopes of the code) *)
                      p_cur : list (N * N);                (* sid -> latest issuance *)
                      p_dead : list N;                     (* sids revoked / reused *)
                      p_pdead : list N;                    (* parent sessions revoked *)
                      p_pexp : list (N * sstate);          (* parent sessions as configured *)
                      p_from : option N; p_to : option N }.

(* a parent session was revoked on request *)
Definition parent_revoked (p : pst) (par : option N) : bool :=
  match par with
  | None => false
  | Some x => mem x (p_pdead p) ||
              match lookup x (p_pexp p) with Some SRevoked => true | _ => false end
  end.

(* a parent session is past its configured expiry at ct *)
Definition parent_expired (p : pst) (par : option N) (ct : N) : bool :=
  match par with
  | None => false
  | Some x => match lookup x (p_pexp p) with Some (SExpires e) => e <=? ct | _ => false end
  end.

(* the OAuth2 session itself is past its expiry: the refresh token of its latest issuance has
   been expired for a full second (token times are whole seconds, the session record is not) *)
Definition own_expired (p : pst) (t : tok) (ct : N) : bool :=
  match lookup (t_sid t) (p_cur p) with
  | Some j => match lookup j (p_toks p) with Some tj => t_rexp tj + 1 <=? secs ct | None => false end
  | None => false
  end.

Definition window_over (p : pst) (ct : N) : bool :=
  negb ((match p_from p with Some f => f <=? ct | None => true end) &&
        (match p_to p with Some e => ct <=? e | None => true end)).

(* the token must be refused at ct, whatever the endpoint ... *)
(* ... because its session or its parent session was REVOKED, or the account is outside its window *)
Definition must_refuse_hard (p : pst) (t : tok) (ct : N) : bool :=
  mem (t_sid t) (p_dead p) || parent_revoked p (t_parent t) || window_over p ct.
(* ... because its session or its parent session has EXPIRED *)
Definition must_refuse_lapsed (p : pst) (t : tok) (ct : N) : bool :=
  parent_expired p (t_parent t) ct || own_expired p t ct.
Definition must_refuse (p : pst) (t : tok) (ct : N) : bool :=
  must_refuse_hard p t ct || must_refuse_lapsed p t ct.

Definition is_err (r : res) : bool := match r with RErr _ => true | _ => false end.

(* the presented refresh token is not the latest one issued for its session *)
Definition rotated (p : pst) (ti : N) (t : tok) : bool :=
  match lookup (t_sid t) (p_cur p) with Some j => negb (j =? ti) | None => false end.

(* ... and the rotation happened within the same clock second as the presented token's issue *)
Definition same_second_rotation (p : pst) (ti : N) (t : tok) : bool :=
  match lookup (t_sid t) (p_cur p) with
  | Some j => negb (j =? ti) &&
              match lookup j (p_toks p) with Some tj => t_iat tj =? t_iat t | None => false end
  | None => false
  end.

Definition kill (sid : N) (p : pst) : pst :=
  mkpst (p_codes p) (p_toks p) (p_orig p) (p_cur p) (sid :: p_dead p) (p_pdead p) (p_pexp p) (p_from p) (p_to p).

Definition tok_of_res (client : N) (r : res) : option tok :=
  match r with
  | RTok sid sc iat aexp rexp par => Some (mktok client sc par sid iat aexp rexp 0)
  | _ => None
  end.

Definition p_add_tok (p : pst) (i : N) (t : tok) : pst :=
  mkpst (p_codes p) ((i, t) :: p_toks p) (p_orig p) (set_cur (t_sid t) i (p_cur p))
        (p_dead p) (p_pdead p) (p_pexp p) (p_from p) (p_to p).

(* VBad: the property fails on this output outside the known class; VKnown: it fails inside it:
     K1 same-second rotation: a rotated refresh token is accepted again because the rotation
        happened within the clock second of its own issue.
   (K2, a token accepted although its parent session or its OAuth2 session has EXPIRED, was a
   second class until fix 8607e8e; it is an ordinary failure now.) *)
Inductive verdict := VOk | VBad | VKnown.

Definition pstep (h : N -> N) (cf : cfg) (i : N) (p : pst) (o : op) (r : res) : pst * verdict :=
  match o with
  | OCode ct client parent chal redir scopes =>
      (mkpst ((i, mkcode client (secs ct + CODE_EXP) chal redir scopes parent) :: p_codes p)
             (p_toks p) (p_orig p) (p_cur p) (p_dead p) (p_pdead p) (p_pexp p) (p_from p) (p_to p), VOk)
  | OExch ct client sec_ok cd redir ver =>
      match tok_of_res client r with
      | None => (p, VOk)                       (* a refusal is always allowed *)
      | Some t =>
          (* tokens came out: the code exists, belongs to this client, is unexpired, same
             redirect URI, verifier hashes to the recorded challenge; the grant is the code's *)
          let ok :=
            sec_ok &&
            match cd with
            | None => false
            | Some ci =>
                match lookup ci (p_codes p) with
                | None => false
                | Some c =>
                    (c_client c =? client) && (secs ct <? c_exp c) && (redir =? c_redir c) &&
                    match c_chal c with
                    | Some ch => match ver with Some v => h v =? ch | None => false end
                    | None => true
                    end &&
                    list_eqb (t_scopes t) (c_scopes c) && opt_eqb (t_parent t) (Some (c_parent c)) &&
                    negb (mem (t_sid t) (map fst (p_orig p)))       (* a NEW session *)
                end
            end in
          let p' := p_add_tok p i t in
          (mkpst (p_codes p') (p_toks p') ((t_sid t, (client, t_scopes t)) :: p_orig p') (p_cur p')
                 (p_dead p') (p_pdead p') (p_pexp p') (p_from p') (p_to p'),
           if ok then VOk else VBad)
      end
  | ORefr ct client sec_ok tk req =>
      let presented := match tk with Some (ti, true) => match lookup ti (p_toks p) with
                                                        | Some t => Some (ti, t) | None => None end
                                   | _ => None end in
      match tok_of_res client r with
      | Some t' =>
          match presented with
          | None => (p_add_tok p i t', VBad)     (* tokens for something that is no refresh token *)
          | Some (ti, t) =>
              let ok_basic :=
                sec_ok && (t_client t =? client) && (secs ct <? t_rexp t) &&
                (t_sid t' =? t_sid t) && opt_eqb (t_parent t') (t_parent t) &&
                (* never beyond the ORIGINAL grant of that session, nor to another client *)
                match lookup (t_sid t) (p_orig p) with
                | Some (cl, sc) => (cl =? client) && subset (t_scopes t') sc
                | None => false
                end &&
                match req with Some rs => list_eqb (t_scopes t') rs | None => true end &&
                negb (must_refuse p t ct) in
              let v := if negb ok_basic then VBad
                       else if rotated p ti t
                            then (if same_second_rotation p ti t then VKnown else VBad)
                            else VOk in
              (p_add_tok p i t', v)
          end
      | None =>
          (* refused. If the presented token was genuine, of this client, and already rotated,
             the session must be dead from now on *)
          match presented with
          | Some (ti, t) =>
              if sec_ok && (t_client t =? client) && rotated p ti t && negb (same_second_rotation p ti t)
                 && (secs ct <? t_rexp t) && negb (must_refuse p t ct)
              then (kill (t_sid t) p, VOk) else (p, VOk)
          | None => (p, VOk)
          end
      end
  | OIntro ct tk is_refresh =>
      (p, match r with
          | RIntro true sc =>
              match lookup tk (p_toks p) with
              | Some t => if negb is_refresh && (secs ct <? t_aexp t) && negb (must_refuse p t ct)
                             && list_eqb sc (t_scopes t) then VOk else VBad
              | None => VBad
              end
          | _ => VOk
          end)
  | OUser ct client tk =>
      (p, match r with
          | RUnit =>
              match lookup tk (p_toks p) with
              | Some t => if (t_client t =? client) && (secs ct <? t_aexp t) && negb (must_refuse p t ct)
                          then VOk else VBad
              | None => VBad
              end
          | _ => VOk
          end)
  | ORevoke ct tk is_refresh =>
      (match lookup tk (p_toks p) with
       | Some t => if secs ct <? (if is_refresh then t_rexp t else t_aexp t) then kill (t_sid t) p else p
       | None => p
       end, VOk)
  | ORevokeParent ct parent =>
      (mkpst (p_codes p) (p_toks p) (p_orig p) (p_cur p) (p_dead p) (parent :: p_pdead p) (p_pexp p)
             (p_from p) (p_to p), VOk)
  | OSetWin ct from exp =>
      (mkpst (p_codes p) (p_toks p) (p_orig p) (p_cur p) (p_dead p) (p_pdead p) (p_pexp p) from exp, VOk)
  | OTouch _ => (p, VOk)
  | OProbe _ _ _ _ => (p, VOk)
  end.

Definition pst0 (us : list (N * sstate)) : pst := mkpst [] [] [] [] [] [] us None None.

(* (no unexplained failure, no failure at all) *)
Fixpoint pcheck_from (h : N -> N) (cf : cfg) (i : N) (p : pst) (steps : list (op * res * obs))
  : bool * bool :=
  match steps with
  | [] => (true, true)
  | (o, r, _) :: rest =>
      let '(p1, v) := pstep h cf i p o r in
      let '(a, b) := pcheck_from h cf (N.succ i) p1 rest in
      match v with
      | VOk => (a, b)
      | VKnown => (a, false)
      | VBad => (false, false)
      end
  end.

Definition pcheck (c : case) : bool :=
  match c with
  | CHist cf tab us steps => snd (pcheck_from (htab_fn tab) cf 0 (pst0 us) steps)
  end.

(* known-finding class: every failure of the history is K1 *)
Definition known (c : case) : bool :=
  match c with
  | CHist cf tab us steps =>
      let '(a, b) := pcheck_from (htab_fn tab) cf 0 (pst0 us) steps in a && negb b
  end.
