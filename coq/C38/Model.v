(* KV.C38.Model — OAuth2 authorisation (server/lib/src/idm/oauth2.rs):
     Oauth2ResourceServersWriteTransaction::reload   (client entry -> Oauth2RS; URI split)   `load`
     check_oauth2_authorisation                       (:2221)                                 `authorise`
     process_requested_scopes_for_identity            (:3483)                                 `process_scopes`
     check_is_loopback / host_is_local                (:3595)                                 `host_is_local`
     check_oauth2_authorise_permit                    (:1365)                                 `permit`
   transcribed branch by branch, in the order of the code. Executable definitions only.
   What is NOT modelled (compared differentially through the harness instead): the URL parser
   (a URI arrives as its serialisation id + fragment id + scheme class + parsed host), the scope
   regular expression (the request carries the list of its ill-formed scope ids), JWE
   encryption of the code / consent token (the harness opens them with the server's own keys). *)
From Coq Require Import List NArith ZArith Bool.
Import ListNotations.
Open Scope N_scope.

(* ------------------------------------------------------------------ finite sets of ids *)
(* BTreeSet<String> over interned scope ids: strictly ascending lists *)
Fixpoint ins (x : N) (l : list N) : list N :=
  match l with
  | [] => [x]
  | y :: t => if x <? y then x :: l else if x =? y then l else y :: ins x t
  end.
Definition collect (l : list N) : list N := fold_right ins [] l.     (* .collect::<BTreeSet<_>>() *)
Definition mem (x : N) (l : list N) : bool := existsb (N.eqb x) l.
Definition subset (a b : list N) : bool := forallb (fun x => mem x b) a.
Fixpoint leqb (a b : list N) : bool :=
  match a, b with
  | [], [] => true
  | x :: a', y :: b' => (x =? y) && leqb a' b'
  | _, _ => false
  end.
Definition oeqb (a b : option N) : bool :=
  match a, b with Some x, Some y => x =? y | None, None => true | _, _ => false end.
Definition oleqb (a b : option (list N)) : bool :=
  match a, b with Some x, Some y => leqb x y | None, None => true | _, _ => false end.

(* ------------------------------------------------------------------ URIs *)
Inductive scheme := SHttps | SHttp | SOther.
(* url::Host as produced by the URL parser *)
Inductive host := HNone | HDomain (name : list N) | HV4 (a b c d : N) | HV6 (segs : list N).
(* `Url` equality is equality of the serialisation; the serialisation is
   (everything before '#', fragment). u_scheme / u_host are what the parser reports. *)
Record uri := mkuri { u_id : N; u_frag : option N; u_scheme : scheme; u_host : host }.

Definition uri_eqb (a b : uri) : bool := (u_id a =? u_id b) && oeqb (u_frag a) (u_frag b).
Definition strip (u : uri) : uri := mkuri (u_id u) None (u_scheme u) (u_host u).   (* set_fragment(None) *)
Definition contains (l : list uri) (u : uri) : bool := existsb (uri_eqb u) l.       (* HashSet::contains *)

Definition localhost_bytes : list N := [108; 111; 99; 97; 108; 104; 111; 115; 116].
(* host_is_local: Ipv4Addr::is_loopback = 127.0.0.0/8, Ipv6Addr::is_loopback = ::1 *)
Definition host_is_local (h : host) : bool :=
  match h with
  | HNone => false
  | HV4 a _ _ _ => a =? 127
  | HV6 s => leqb s [0; 0; 0; 0; 0; 0; 0; 1]
  | HDomain d => leqb d localhost_bytes
  end.
Definition check_is_loopback (u : uri) : bool := host_is_local (u_host u).
Definition is_https (u : uri) : bool := match u_scheme u with SHttps => true | _ => false end.
Definition is_web (u : uri) : bool := match u_scheme u with SOther => false | _ => true end.

(* ------------------------------------------------------------------ client configuration *)
(* the client ENTRY as the administrator wrote it *)
Record centry := mkcentry {
  e_public : bool;                       (* class oauth2_resource_server_public (else _basic) *)
  e_disable_pkce : option bool;          (* oauth2_allow_insecure_client_disable_pkce *)
  e_consent_enable : option bool;        (* oauth2_consent_prompt_enable *)
  e_localhost : option bool;             (* oauth2_allow_localhost_redirect *)
  e_landing : uri;                       (* oauth2_rs_origin_landing *)
  e_origins : list uri;                  (* oauth2_rs_origin *)
  e_scope_maps : list (N * list N);      (* group -> scopes *)
  e_sup_maps : list (N * list N) }.

Inductive ctype := TBasic (enable_pkce enable_consent : bool) | TPublic (allow_localhost : bool).
Record client := mkclient {
  c_type : ctype; c_redirect : list uri; c_opaque : list uri; c_secure : bool;
  c_maps : list (N * list N); c_sup : list (N * list N) }.

Definition configured (e : centry) : list uri := e_landing e :: e_origins e.

(* reload(): type from the classes, then every configured URI loses its fragment and goes to
   redirect_uris (http/https) or opaque_origins (anything else); one https URI switches
   origin_secure_required on *)
Definition load (e : centry) : client :=
  let ty := if e_public e
            then TPublic (match e_localhost e with Some b => b | None => false end)
            else TBasic (match e_disable_pkce e with Some b => negb b | None => true end)
                        (match e_consent_enable e with Some b => b | None => true end) in
  let all := map strip (configured e) in
  mkclient ty (filter is_web all) (filter (fun u => negb (is_web u)) all) (existsb is_https all)
           (e_scope_maps e) (e_sup_maps e).

Definition allow_localhost_redirect (t : ctype) : bool :=
  match t with TBasic _ _ => false | TPublic b => b end.
Definition require_pkce (t : ctype) : bool :=
  match t with TBasic p _ => p | TPublic _ => true end.
Definition enable_consent_prompt (t : ctype) : bool :=
  match t with TBasic _ c => c | TPublic _ => true end.
Definition is_basic (t : ctype) : bool := match t with TBasic _ _ => true | TPublic _ => false end.

(* ------------------------------------------------------------------ identity, request *)
(* account id 0 is the anonymous account (UUID_ANONYMOUS) *)
Record ident := mkident {
  i_acct : N; i_session : N; i_groups : list N;          (* memberof *)
  i_consent : option (list N);                           (* oauth2_consent_scope_map for THIS client *)
  i_auth_time : option N }.                              (* last_verified_at, whole seconds *)

Inductive rtype := RCode | RToken | RIdToken.
Inductive rmode := MQuery | MFragment | MFormPost | MInvalid.
Inductive prompt := PNone | PLogin | PConsent | PSelect | PInvalid.
(* the PKCE parameters as they arrive on the wire *)
Inductive pkce_in := KAbsent | KS256 (challenge : N) | KOther (challenge : N) | KNoMethod (challenge : N).

Record req := mkreq {
  q_rtype : rtype; q_rmode : option rmode; q_pkce : pkce_in; q_redirect : uri;
  q_scope : list N;                      (* requested scope set (ascending ids) *)
  q_bad : list N;                        (* ids of scopes that do not match OAUTHSCOPE_RE *)
  q_prompt : list prompt; q_max_age : option Z; q_resumed : bool; q_state : option N }.

(* PkceRequest is a flattened Option: anything but a challenge with method S256 is no request *)
Definition pkce_of (k : pkce_in) : option N :=
  match k with KS256 c => Some c | _ => None end.

Definition get_response_mode (rm : option rmode) (rt : rtype) : option rmode :=
  match rm, rt with
  | None, RIdToken => Some MFragment
  | Some MQuery, RIdToken => None
  | None, RCode => Some MQuery
  | None, RToken => Some MFragment
  | Some MQuery, RToken => None
  | Some m, _ => Some m
  end.

Definition is_pnone (p : prompt) := match p with PNone => true | _ => false end.
Definition is_plogin (p : prompt) := match p with PLogin => true | _ => false end.
Definition is_pinvalid (p : prompt) := match p with PInvalid => true | _ => false end.

(* ------------------------------------------------------------------ results *)
Inductive err := EUnsupportedResponseType | EInvalidRequest | EInvalidClientId | EInvalidOrigin
  | ELoginRequired | EInteractionRequired | EAccessDenied | EInvalidScope | EOther.

(* what an exchange code / a consent token carries (plus state and response mode, which travel
   next to the code in AuthorisePermitSuccess) *)
Record grant := mkgrant {
  g_acct : N; g_session : N; g_expiry : N; g_challenge : option N;
  g_redirect : N * option N; g_scopes : list N; g_state : option N; g_fragment : bool }.

Inductive outcome :=
| OErr (e : err)
| OAuthRequired
| OReauthRequired
| OConsent (g : grant) (pii : list N)
| OPermitted (g : grant).

(* well-known scope ids fixed by the harness' interning order *)
Definition SC_OPENID : N := 0.
Definition SC_EMAIL : N := 1.
Definition SC_SSH : N := 2.
Definition SC_EMAIL_VERIFIED : N := 3.
Definition OAUTH2_OIDC_MAX_AGE_CLAMP : Z := 86400%Z.

(* scope_maps.iter().filter_map(|(u, m)| ident.is_memberof(u).then_some(m.iter())).flatten() *)
Definition held (maps : list (N * list N)) (i : ident) : list N :=
  flat_map (fun gm => if mem (fst gm) (i_groups i) then snd gm else []) maps.

(* process_requested_scopes_for_identity *)
Definition process_scopes (c : client) (i : ident) (q : req) : err + list N :=
  match q_scope q with
  | [] => inl EInvalidRequest
  | _ =>
    if existsb (fun s => mem s (q_bad q)) (q_scope q) then inl EInvalidScope
    else if negb (subset (q_scope q) (collect (held (c_maps c) i))) then inl EAccessDenied
    else inr (collect (held (c_sup c) i ++ q_scope q))
  end.

Definition key (u : uri) : N * option N := (u_id u, u_frag u).

Definition authorise (ce : option centry) (id : option ident) (q : req) (ct : N) : outcome :=
  match q_rtype q with
  | RCode =>
    match get_response_mode (q_rmode q) (q_rtype q) with
    | None => OErr EInvalidRequest
    | Some MInvalid => OErr EInvalidRequest
    | Some rm =>
      let fragment := match rm with MFragment => true | _ => false end in
      if (4 <? N.of_nat (length (q_prompt q))) then OErr EInvalidRequest
      else if existsb is_pinvalid (q_prompt q) then OErr EInvalidRequest
      else if existsb is_pnone (q_prompt q) && (1 <? N.of_nat (length (q_prompt q))) then OErr EInvalidRequest
      else match ce with
      | None => OErr EInvalidClientId
      | Some e =>
        let c := load e in
        let u := q_redirect q in
        let is_loopback := check_is_loopback u in
        let loopback_matched := is_loopback && allow_localhost_redirect (c_type c) in
        let strict_matched := contains (c_redirect c) u in
        let opaque_matched := contains (c_opaque c) u in
        let origin_secure := opaque_matched || is_loopback || is_https u in
        if negb (loopback_matched || strict_matched || opaque_matched) then OErr EInvalidOrigin
        else if c_secure c && negb origin_secure then OErr EInvalidOrigin
        else
          let pk := pkce_of (q_pkce q) in
          if (match pk with None => require_pkce (c_type c) | Some _ => false end) then OErr EInvalidRequest
          else match id with
          | None => if existsb is_pnone (q_prompt q) then OErr ELoginRequired else OAuthRequired
          | Some i =>
            let max_age := if existsb is_plogin (q_prompt q) then Some 0%Z
                           else option_map (fun m => Z.max 0 (Z.min m OAUTH2_OIDC_MAX_AGE_CLAMP)) (q_max_age q) in
            let reauth :=
              match max_age with
              | None => false
              | Some m =>
                let recent := if (m <=? 0)%Z then false
                              else match i_auth_time i with
                                   | Some a => (Z.of_N ct - m <? Z.of_N a)%Z
                                   | None => false end in
                negb (q_resumed q || recent)
              end in
            if reauth then OReauthRequired
            else if i_acct i =? 0 then OErr EAccessDenied
            else match process_scopes c i q with
            | inl e => OErr e
            | inr granted =>
              let consent_previously_granted :=
                match i_consent i with Some cs => leqb granted cs | None => false end in
              let consent_required :=
                (negb consent_previously_granted || (negb (is_basic (c_type c)) && loopback_matched))
                && enable_consent_prompt (c_type c) in
              if negb consent_required then
                OPermitted (mkgrant (i_acct i) (i_session i) (ct + 60) pk (key u) granted (q_state q) fragment)
              else if existsb is_pnone (q_prompt q) then OErr EInteractionRequired
              else
                let pii := (if mem SC_OPENID (q_scope q) && mem SC_EMAIL granted
                            then [SC_EMAIL; SC_EMAIL_VERIFIED] else [])
                           ++ (if mem SC_SSH granted then [SC_SSH] else []) in
                OConsent (mkgrant (i_acct i) (i_session i) (ct + 300) pk (key u) granted (q_state q) fragment)
                         (collect pii)
            end
          end
      end
    end
  | _ => OErr EUnsupportedResponseType
  end.

(* check_oauth2_authorise_permit: the consent token must be bound to this identity and session,
   unexpired, and name an existing client; then the code carries the token's content *)
Definition permit (g : grant) (i : ident) (client_exists : bool) (ct : N) : option grant :=
  if negb (g_acct g =? i_acct i) then None
  else if negb (g_session g =? i_session i) then None
  else if g_expiry g <=? ct then None
  else if negb client_exists then None
  else Some (mkgrant (i_acct i) (i_session i) (ct + 60) (g_challenge g) (g_redirect g) (g_scopes g)
                     (g_state g) (g_fragment g)).

(* ------------------------------------------------------------------ the property, executable *)
(* Stated on configuration + request + a grant, without reference to `load` / `authorise`. *)
Definition exact_registered (e : centry) (u : uri) : bool :=
  existsb (fun r => is_web r && (u_id r =? u_id u) && match u_frag u with None => true | Some _ => false end)
          (configured e).
Definition app_registered (e : centry) (u : uri) : bool :=
  existsb (fun r => negb (is_web r) && (u_id r =? u_id u) && match u_frag u with None => true | Some _ => false end)
          (configured e).
Definition loopback_allowed (e : centry) (u : uri) : bool :=
  e_public e && match e_localhost e with Some true => true | _ => false end && host_is_local (u_host u).
Definition pkce_required (e : centry) : bool :=
  e_public e || negb (match e_disable_pkce e with Some true => true | _ => false end).
Definition secure_needed (e : centry) : bool := existsb is_https (configured e).
(* the user holds scope s through some map of a group they are a member of *)
Definition holds (maps : list (N * list N)) (i : ident) (s : N) : bool :=
  existsb (fun gm => mem (fst gm) (i_groups i) && mem s (snd gm)) maps.
Definition sup_all (maps : list (N * list N)) : list N := flat_map snd maps.

Definition terms_ok (e : centry) (i : ident) (q : req) (g : grant) : bool :=
  (exact_registered e (q_redirect q) || loopback_allowed e (q_redirect q) || app_registered e (q_redirect q))
  && (negb (secure_needed e) || is_https (q_redirect q) || host_is_local (u_host (q_redirect q))
      || app_registered e (q_redirect q))
  && negb (i_acct i =? 0)
  && negb (match q_scope q with [] => true | _ => false end)
  && forallb (fun s => holds (e_scope_maps e) i s) (q_scope q)
  && (negb (pkce_required e) || match q_pkce q with KS256 _ => true | _ => false end)
  && oeqb (g_challenge g) (pkce_of (q_pkce q))
  (* granted = requested + supplementary held, nothing else *)
  && forallb (fun s => mem s (q_scope q) || holds (e_sup_maps e) i s) (g_scopes g)
  && forallb (fun s => mem s (g_scopes g)) (q_scope q)
  && forallb (fun s => negb (holds (e_sup_maps e) i s) || mem s (g_scopes g)) (sup_all (e_sup_maps e))
  (* and the grant is bound to this request and this user *)
  && (fst (g_redirect g) =? u_id (q_redirect q)) && oeqb (snd (g_redirect g)) (u_frag (q_redirect q))
  && (g_acct g =? i_acct i) && (g_session g =? i_session i).

Definition out_ok (ce : option centry) (id : option ident) (q : req) (o : outcome) : bool :=
  match o with
  | OPermitted g | OConsent g _ =>
      match ce, id with Some e, Some i => terms_ok e i q g | _, _ => false end
  | _ => true
  end.

(* a code issued by `permit` carries exactly what the consent token carried, for the same user *)
Definition permit_ok (g : grant) (i : ident) (ct : N) (r : option grant) : bool :=
  match r with
  | None => true
  | Some g' =>
      (g_acct g =? i_acct i) && (g_session g =? i_session i) && (ct <? g_expiry g)
      && (g_acct g' =? g_acct g) && (g_session g' =? g_session g)
      && oeqb (g_challenge g') (g_challenge g)
      && (fst (g_redirect g') =? fst (g_redirect g)) && oeqb (snd (g_redirect g')) (snd (g_redirect g))
      && leqb (g_scopes g') (g_scopes g)
  end.

(* ------------------------------------------------------------------ correspondence *)
Definition grant_eqb (a b : grant) : bool :=
  (g_acct a =? g_acct b) && (g_session a =? g_session b) && (g_expiry a =? g_expiry b)
  && oeqb (g_challenge a) (g_challenge b)
  && (fst (g_redirect a) =? fst (g_redirect b)) && oeqb (snd (g_redirect a)) (snd (g_redirect b))
  && leqb (g_scopes a) (g_scopes b) && oeqb (g_state a) (g_state b) && Bool.eqb (g_fragment a) (g_fragment b).
Definition err_eqb (a b : err) : bool :=
  match a, b with
  | EUnsupportedResponseType, EUnsupportedResponseType | EInvalidRequest, EInvalidRequest
  | EInvalidClientId, EInvalidClientId | EInvalidOrigin, EInvalidOrigin | ELoginRequired, ELoginRequired
  | EInteractionRequired, EInteractionRequired | EAccessDenied, EAccessDenied
  | EInvalidScope, EInvalidScope | EOther, EOther => true
  | _, _ => false
  end.
Definition outcome_eqb (a b : outcome) : bool :=
  match a, b with
  | OErr x, OErr y => err_eqb x y
  | OAuthRequired, OAuthRequired => true
  | OReauthRequired, OReauthRequired => true
  | OConsent g p, OConsent g' p' => grant_eqb g g' && leqb p p'
  | OPermitted g, OPermitted g' => grant_eqb g g'
  | _, _ => false
  end.
Definition ogrant_eqb (a b : option grant) : bool :=
  match a, b with Some x, Some y => grant_eqb x y | None, None => true | _, _ => false end.

(* the follow-up of a ConsentRequested answer: the harness presents the consent token to
   check_oauth2_authorise_permit as identity `p_ident` at time `p_ct`; when it commits the
   transaction it reads the stored consent scopes of the account back *)
Record follow := mkfollow {
  p_ident : ident; p_ct : N; p_commit : bool;
  p_result : option grant;               (* code content, None = refused *)
  p_stored : option (list N) }.          (* consent map entry after a committed permit *)

Inductive case :=
| CAuth (ce : option centry) (id : option ident) (q : req) (ct : N) (impl : outcome) (fu : option follow).

Definition consent_grant (o : outcome) : option grant :=
  match o with OConsent g _ => Some g | _ => None end.

Definition agree (c : case) : bool :=
  match c with
  | CAuth ce id q ct impl fu =>
      outcome_eqb (authorise ce id q ct) impl
      && match fu, consent_grant impl with
         | None, _ => true
         | Some f, Some g =>
             let r := permit g (p_ident f) (match ce with Some _ => true | None => false end) (p_ct f) in
             ogrant_eqb r (p_result f)
             && (negb (p_commit f) ||
                 oleqb (p_stored f) (match r with Some _ => Some (g_scopes g) | None => None end))
         | Some _, None => false
         end
  end.

Definition pcheck (c : case) : bool :=
  match c with
  | CAuth ce id q ct impl fu =>
      out_ok ce id q impl
      && match fu, consent_grant impl with
         | None, _ => true
         | Some f, Some g => permit_ok g (p_ident f) (p_ct f) (p_result f)
         | Some _, None => false
         end
  end.

Definition known (_ : case) : bool := false.
