(* KV.C38.Witness — the hypotheses of the implication theorems are met by concrete, non-trivial
   configurations and requests (non-vacuity), and the refusing branches refuse. *)
From Coq Require Import List NArith ZArith Bool.
Import ListNotations.
Require Import KV.C38.Model KV.C38.Proofs KV.C38.Props.
Open Scope N_scope.

(* a public client: https landing page, an app URI, localhost redirects enabled;
   group 10 -> {openid,email,groups}, group 11 -> {read}; supplementary: group 10 -> {profile}, group 13 -> {write} *)
Definition u_landing := mkuri 1 None SHttps (HDomain [97; 112; 112]).
Definition u_app := mkuri 2 None SOther (HDomain [99; 104; 101; 101; 115; 101]).
Definition u_frag_reg := mkuri 3 (Some 0) SHttps (HDomain [97; 112; 112]).   (* registered WITH a fragment *)
Definition e_pub := mkcentry true None None (Some true) u_landing [u_app; u_frag_reg]
                             [(10, [0; 1; 4]); (11, [6])] [(10, [5]); (13, [7])].
(* a basic client with PKCE switched off and the consent prompt switched off, http only *)
Definition u_http := mkuri 4 None SHttp (HDomain [105; 110; 116; 114; 97]).
Definition e_basic := mkcentry false (Some true) (Some false) None u_http [] [(10, [0; 4])] [].

Definition alice := mkident 7 3 [10; 12] None (Some 100).
Definition alice_consented := mkident 7 3 [10; 12] (Some [0; 1; 5]) (Some 100).
Definition anonymous := mkident 0 3 [10] None (Some 100).
Definition q0 := mkreq RCode None (KS256 9) u_landing [0; 1] [] [] None false (Some 1).
Definition with_redirect (q : req) (u : uri) : req :=
  mkreq (q_rtype q) (q_rmode q) (q_pkce q) u (q_scope q) (q_bad q) (q_prompt q) (q_max_age q) (q_resumed q) (q_state q).
Definition with_pkce (q : req) (k : pkce_in) : req :=
  mkreq (q_rtype q) (q_rmode q) k (q_redirect q) (q_scope q) (q_bad q) (q_prompt q) (q_max_age q) (q_resumed q) (q_state q).
Definition with_scope (q : req) (s : list N) : req :=
  mkreq (q_rtype q) (q_rmode q) (q_pkce q) (q_redirect q) s (q_bad q) (q_prompt q) (q_max_age q) (q_resumed q) (q_state q).

Definition g_consent := mkgrant 7 3 500 (Some 9) (1, None) [0; 1; 5] (Some 1) false.

(* hypothesis of C38_code_only_if / C38_granted_exact, consent form: exact https match, the
   supplementary scope `profile` (5) is added, `write` (7, group 13) is not *)
Example C38_witness_consent :
  authorise (Some e_pub) (Some alice) q0 200 = OConsent g_consent [1; 3].
Proof. vm_compute. reflexivity. Qed.
Example C38_witness_issues : issues (authorise (Some e_pub) (Some alice) q0 200) g_consent.
Proof. right. exists [1; 3]. vm_compute. reflexivity. Qed.

(* code form: consent recorded earlier for exactly this scope set *)
Example C38_witness_permitted :
  authorise (Some e_pub) (Some alice_consented) q0 200
  = OPermitted (mkgrant 7 3 260 (Some 9) (1, None) [0; 1; 5] (Some 1) false).
Proof. vm_compute. reflexivity. Qed.

(* loopback redirect to a public client that allows it: never silently permitted (consent again) *)
Example C38_witness_loopback :
  authorise (Some e_pub) (Some alice_consented) (with_redirect q0 (mkuri 50 None SHttp (HV4 127 0 0 1))) 200
  = OConsent (mkgrant 7 3 500 (Some 9) (50, None) [0; 1; 5] (Some 1) false) [1; 3].
Proof. vm_compute. reflexivity. Qed.

(* registered app URI *)
Example C38_witness_app :
  grant_of (authorise (Some e_pub) (Some alice) (with_redirect q0 u_app) 200)
  = Some (mkgrant 7 3 500 (Some 9) (2, None) [0; 1; 5] (Some 1) false).
Proof. vm_compute. reflexivity. Qed.

(* basic client, PKCE and consent prompt disabled: a code without a challenge *)
Example C38_witness_basic_no_pkce :
  authorise (Some e_basic) (Some alice) (with_scope (with_pkce (with_redirect q0 u_http) KAbsent) [0; 4]) 200
  = OPermitted (mkgrant 7 3 260 None (4, None) [0; 4] (Some 1) false).
Proof. vm_compute. reflexivity. Qed.

(* hypothesis of C38_permit_carries_consent and of the second disjunct of C38_code_from_flow *)
Example C38_witness_permit :
  permit g_consent alice true 499 = Some (mkgrant 7 3 559 (Some 9) (1, None) [0; 1; 5] (Some 1) false).
Proof. vm_compute. reflexivity. Qed.
Example C38_witness_flow :
  exists g pii i' b ct', authorise (Some e_pub) (Some alice) q0 200 = OConsent g pii /\
    permit g i' b ct' = Some (mkgrant 7 3 559 (Some 9) (1, None) [0; 1; 5] (Some 1) false).
Proof. exists g_consent, [1; 3], alice, true, 499. split; vm_compute; reflexivity. Qed.

(* the refusing branches refuse *)
Example C38_witness_refusals :
  (* same URI but with a fragment / the URI registered with a fragment is stored without it *)
  authorise (Some e_pub) (Some alice) (with_redirect q0 (mkuri 1 (Some 0) SHttps (HDomain [97; 112; 112]))) 200 = OErr EInvalidOrigin /\
  authorise (Some e_pub) (Some alice) (with_redirect q0 u_frag_reg) 200 = OErr EInvalidOrigin /\
  grant_of (authorise (Some e_pub) (Some alice) (with_redirect q0 (strip u_frag_reg)) 200) <> None /\
  (* another host *)
  authorise (Some e_pub) (Some alice) (with_redirect q0 (mkuri 60 None SHttps (HDomain [101; 118; 105; 108]))) 200 = OErr EInvalidOrigin /\
  (* loopback to a basic client *)
  authorise (Some e_basic) (Some alice) (with_scope (with_redirect q0 (mkuri 50 None SHttp (HV4 127 0 0 1))) [0]) 200 = OErr EInvalidOrigin /\
  (* not loopback: 128.0.0.1, ::2, "localhost.evil" *)
  host_is_local (HV4 128 0 0 1) = false /\ host_is_local (HV6 [0; 0; 0; 0; 0; 0; 0; 2]) = false /\
  host_is_local (HDomain (localhost_bytes ++ [46; 101])) = false /\
  (* anonymous *)
  authorise (Some e_pub) (Some anonymous) q0 200 = OErr EAccessDenied /\
  (* a scope the user does not hold (read = 6 is mapped to group 11 only) *)
  authorise (Some e_pub) (Some alice) (with_scope q0 [0; 6]) 200 = OErr EAccessDenied /\
  (* PKCE required: absent, or a non-S256 method *)
  authorise (Some e_pub) (Some alice) (with_pkce q0 KAbsent) 200 = OErr EInvalidRequest /\
  authorise (Some e_pub) (Some alice) (with_pkce q0 (KOther 9)) 200 = OErr EInvalidRequest /\
  (* no user / unknown client *)
  authorise (Some e_pub) None q0 200 = OAuthRequired /\
  authorise None (Some alice) q0 200 = OErr EInvalidClientId /\
  (* consent token: wrong session, expired *)
  permit g_consent (mkident 7 4 [10] None None) true 300 = None /\
  permit g_consent alice true 500 = None.
Proof. vm_compute. repeat split; try reflexivity. discriminate. Qed.

(* the case-level predicates on a concrete implementation-style case *)
Example C38_witness_case :
  let c := CAuth (Some e_pub) (Some alice) q0 200 (OConsent g_consent [1; 3])
                 (Some (mkfollow alice 499 true
                          (Some (mkgrant 7 3 559 (Some 9) (1, None) [0; 1; 5] (Some 1) false))
                          (Some [0; 1; 5]))) in
  agree c = true /\ pcheck c = true.
Proof. vm_compute. split; reflexivity. Qed.
(* pcheck is not trivially true: an answer granting a scope nobody asked for or holds fails it *)
Example C38_witness_pcheck_rejects :
  pcheck (CAuth (Some e_pub) (Some alice) q0 200
            (OPermitted (mkgrant 7 3 260 (Some 9) (1, None) [0; 1; 5; 7] (Some 1) false)) None) = false /\
  pcheck (CAuth (Some e_pub) (Some alice) (with_redirect q0 (mkuri 60 None SHttps (HDomain [101])))
            200 (OPermitted (mkgrant 7 3 260 (Some 9) (60, None) [0; 1; 5] (Some 1) false)) None) = false /\
  pcheck (CAuth (Some e_pub) (Some anonymous) q0 200 (OConsent (mkgrant 0 3 500 (Some 9) (1, None) [0; 1; 5] (Some 1) false) []) None) = false /\
  pcheck (CAuth (Some e_pub) (Some alice) (with_pkce q0 KAbsent) 200
            (OPermitted (mkgrant 7 3 260 None (1, None) [0; 1; 5] (Some 1) false)) None) = false.
Proof. vm_compute. repeat split; reflexivity. Qed.
