(* KV.C38.Props — property theorems only. *)
From Coq Require Import List NArith ZArith Bool.
Import ListNotations.
Require Import KV.C38.Model KV.C38.Proofs.
Open Scope N_scope.

(* the answer `o` hands out grant `g`: an exchange code directly (Permitted), or a consent token
   (ConsentRequested) that check_oauth2_authorise_permit turns into a code *)
Definition issues (o : outcome) (g : grant) : Prop :=
  o = OPermitted g \/ exists pii, o = OConsent g pii.

Lemma issues_grant_of o g : issues o g -> grant_of o = Some g.
Proof. intros [->|[pii ->]]; reflexivity. Qed.

(* C38, main statement. For EVERY client entry, identity, request and time: if
   check_oauth2_authorisation answers with a code or a consent token, then (Terms)
   - the redirect URI equals a registered http(s) URI (fragment-free, as registration strips it),
     or the client is public with localhost redirects enabled and the URI's host is loopback,
     or it equals a registered non-http(s) ("app") URI;
   - if any registered URI is https, the redirect URI is https, loopback or a registered app URI;
   - a client with that id exists, an identity is present and it is not the anonymous account;
   - at least one scope is requested and the user holds EVERY requested scope through a scope
     map of a group they are a member of;
   - if the client requires PKCE (public, or basic without the disable flag) the request carries
     an S256 challenge; the grant records exactly the request's S256 challenge (or none);
   - the granted scopes are exactly the requested ones plus the supplementary scopes the user
     holds, nothing else;
   - the grant is bound to the request's redirect URI, the user's account and session. *)
Theorem C38_code_only_if : forall ce id q ct g,
  issues (authorise ce id q ct) g ->
  exists e i, ce = Some e /\ id = Some i /\ Terms e i q g.
Proof.
  intros ce id q ct g H. apply issues_grant_of in H.
  destruct (authorise_terms _ _ _ _ _ H) as [e [i [H1 [H2 H3]]]].
  exists e, i. split; [exact H1|]. split; [exact H2|]. apply terms_ok_sound. exact H3.
Qed.

(* the granted scope set, as a set and as the canonical list the code carries *)
Theorem C38_granted_exact : forall e i q ct g,
  issues (authorise (Some e) (Some i) q ct) g ->
  (forall s, In s (g_scopes g) <-> In s (q_scope q) \/ Holds (e_sup_maps e) i s) /\
  g_scopes g = collect (held (e_sup_maps e) i ++ q_scope q).
Proof.
  intros e i q ct g H. split.
  - destruct (C38_code_only_if _ _ _ _ _ H) as [e' [i' [[= <-] [[= <-] T]]]]. exact (t_granted _ _ _ _ T).
  - apply issues_grant_of in H. destruct (authorise_inv _ _ _ _ _ H) as [e' i' gr [= <-] [= <-] _ _ _ _ _ Hps [ex [-> _]]].
    apply process_scopes_inv in Hps as [_ [_ [_ ->]]]. reflexivity.
Qed.

(* codes and consent tokens are short lived: 60 s / 300 s from the request time *)
Theorem C38_grant_expiry : forall ce id q ct g,
  (authorise ce id q ct = OPermitted g -> g_expiry g = ct + 60) /\
  (forall pii, authorise ce id q ct = OConsent g pii -> g_expiry g = ct + 300).
Proof.
  intros ce id q ct g. pose proof (authorise_expiry ce id q ct) as H. split.
  - intros E. rewrite E in H. apply N.eqb_eq. exact H.
  - intros pii E. rewrite E in H. apply N.eqb_eq. exact H.
Qed.

(* check_oauth2_authorise_permit: a code is issued only to the identity and session the consent
   token is bound to, before the token expires, for an existing client; and the code carries
   exactly the token's scopes, redirect URI and PKCE challenge *)
Theorem C38_permit_carries_consent : forall g i b ct g',
  permit g i b ct = Some g' ->
  b = true /\ g_acct g = i_acct i /\ g_session g = i_session i /\ ct < g_expiry g /\
  g_scopes g' = g_scopes g /\ g_redirect g' = g_redirect g /\ g_challenge g' = g_challenge g /\
  g_acct g' = i_acct i /\ g_session g' = i_session i /\ g_expiry g' = ct + 60.
Proof.
  intros g i b ct g' H. apply permit_inv in H as [H1 [H2 [H3 [H4 ->]]]].
  repeat split; assumption.
Qed.

(* the whole flow: EVERY exchange code — issued directly, or through a consent token presented
   to permit by any identity at any time — meets the terms for the ORIGINAL request and user *)
Theorem C38_code_from_flow : forall ce id q ct code,
  (authorise ce id q ct = OPermitted code \/
   exists g pii i' b ct', authorise ce id q ct = OConsent g pii /\ permit g i' b ct' = Some code) ->
  exists e i, ce = Some e /\ id = Some i /\ Terms e i q code.
Proof.
  intros ce id q ct code [H|[g [pii [i' [b [ct' [H P]]]]]]].
  - apply C38_code_only_if with (ct := ct). left. exact H.
  - destruct (C38_code_only_if ce id q ct g) as [e [i [-> [-> T]]]]; [right; exists pii; exact H|].
    exists e, i. split; [reflexivity|]. split; [reflexivity|].
    apply C38_permit_carries_consent in P as [_ [Ha [Hs [_ [Hsc [Hr [Hc [Ha' [Hs' _]]]]]]]]].
    destruct T. constructor; try assumption.
    + rewrite Hc. assumption.
    + rewrite Hsc. assumption.
    + rewrite Hr. assumption.
    + rewrite Ha', <- Ha. assumption.
    + rewrite Hs', <- Hs. assumption.
Qed.

(* corollaries spelled out *)
Theorem C38_never_without_client_or_user : forall id q ct g,
  ~ issues (authorise None id q ct) g /\
  (forall ce, ~ issues (authorise ce None q ct) g) /\
  (forall ce i, i_acct i = 0 -> ~ issues (authorise ce (Some i) q ct) g).
Proof.
  intros id q ct g. repeat split.
  - intros H. destruct (C38_code_only_if _ _ _ _ _ H) as [e [i [H1 _]]]. discriminate.
  - intros ce H. destruct (C38_code_only_if _ _ _ _ _ H) as [e [i [_ [H1 _]]]]. discriminate.
  - intros ce i Hi H. destruct (C38_code_only_if _ _ _ _ _ H) as [e [i' [_ [[= <-] T]]]].
    exact (t_not_anonymous _ _ _ _ T Hi).
Qed.

(* which hosts count as loopback: 127.0.0.0/8, ::1, and the name "localhost" — nothing else *)
Theorem C38_loopback_hosts : forall h,
  host_is_local h = true <->
  (exists b c d, h = HV4 127 b c d) \/ h = HV6 [0; 0; 0; 0; 0; 0; 0; 1] \/ h = HDomain localhost_bytes.
Proof. exact host_is_local_spec. Qed.

(* transfer to the implementation: on every case where the real code's answer equals the model's,
   the property's executable predicate holds of the real answer ... *)
Theorem C38_agree_implies_property : forall c, agree c = true -> pcheck c = true.
Proof. exact agree_pcheck. Qed.

(* ... and the executable predicate means the terms above, whatever produced the answer *)
Theorem C38_pcheck_sound : forall ce id q ct impl fu,
  pcheck (CAuth ce id q ct impl fu) = true ->
  (forall g, issues impl g -> exists e i, ce = Some e /\ id = Some i /\ Terms e i q g) /\
  (forall f g code, fu = Some f -> consent_grant impl = Some g -> p_result f = Some code ->
     g_acct g = i_acct (p_ident f) /\ g_session g = i_session (p_ident f) /\ p_ct f < g_expiry g /\
     g_scopes code = g_scopes g /\ g_redirect code = g_redirect g /\ g_challenge code = g_challenge g /\
     g_acct code = g_acct g /\ g_session code = g_session g).
Proof.
  intros ce id q ct impl fu H. unfold pcheck in H. apply andb_true_iff in H as [H1 H2]. split.
  - intros g Hi. assert (Ht : match ce, id with Some e, Some i => terms_ok e i q g | _, _ => false end = true).
    { destruct Hi as [->|[pii ->]]; exact H1. }
    destruct ce as [e|]; [|discriminate]. destruct id as [i|]; [|discriminate].
    exists e, i. split; [reflexivity|]. split; [reflexivity|]. apply terms_ok_sound. exact Ht.
  - intros f g code -> Hg Hr. rewrite Hg in H2. unfold permit_ok in H2. rewrite Hr in H2.
    apply andb_true_iff in H2 as [H2 K9]. apply andb_true_iff in H2 as [H2 K8].
    apply andb_true_iff in H2 as [H2 K7]. apply andb_true_iff in H2 as [H2 K6].
    apply andb_true_iff in H2 as [H2 K5]. apply andb_true_iff in H2 as [H2 K4].
    apply andb_true_iff in H2 as [H2 K3]. apply andb_true_iff in H2 as [K1 K2].
    apply N.eqb_eq in K1, K2, K4, K5, K7. apply N.ltb_lt in K3. apply oeqb_eq in K6, K8. apply leqb_eq in K9.
    repeat split; try assumption.
    destruct (g_redirect code), (g_redirect g). cbn [fst snd] in *. subst. reflexivity.
Qed.
