(* KV.C38.Proofs *)
From Coq Require Import List NArith ZArith Bool Lia.
Import ListNotations.
Require Import KV.C38.Model.
Open Scope N_scope.
Arguments N.add : simpl never.
Arguments N.sub : simpl never.
Arguments N.ltb : simpl never.
Arguments N.leb : simpl never.
Arguments N.eqb : simpl never.

(* ------------------------------------------------------------------ sets of ids *)
Lemma mem_In x l : mem x l = true <-> In x l.
Proof.
  unfold mem. rewrite existsb_exists. split.
  - intros [y [Hy He]]. apply N.eqb_eq in He. subst. exact Hy.
  - intros H. exists x. split; [exact H | apply N.eqb_refl].
Qed.

Lemma ins_In s x l : In s (ins x l) <-> s = x \/ In s l.
Proof.
  induction l as [|y t IH]; cbn [ins].
  - cbn. intuition.
  - destruct (x <? y) eqn:E1; [cbn; intuition|].
    destruct (x =? y) eqn:E2.
    + apply N.eqb_eq in E2. subst. cbn. intuition.
    + cbn [In]. rewrite IH. intuition.
Qed.

Lemma collect_In s l : In s (collect l) <-> In s l.
Proof.
  unfold collect. induction l as [|x t IH]; cbn [fold_right]; [reflexivity|].
  rewrite ins_In, IH. cbn. intuition.
Qed.

Lemma subset_spec a b : subset a b = true <-> forall x, In x a -> In x b.
Proof.
  unfold subset. rewrite forallb_forall. split; intros H x Hx.
  - apply mem_In. apply H. exact Hx.
  - apply mem_In. apply H. exact Hx.
Qed.

Lemma leqb_eq a : forall b, leqb a b = true <-> a = b.
Proof.
  induction a as [|x a IH]; destruct b as [|y b]; cbn [leqb]; try (split; [discriminate | discriminate]).
  - split; reflexivity.
  - rewrite andb_true_iff, N.eqb_eq, IH. split.
    + intros [-> ->]. reflexivity.
    + intros [= -> ->]. split; reflexivity.
Qed.
Lemma leqb_refl a : leqb a a = true.
Proof. apply leqb_eq. reflexivity. Qed.

Lemma oeqb_eq a b : oeqb a b = true <-> a = b.
Proof.
  destruct a, b; cbn [oeqb]; try (split; [discriminate | discriminate]).
  - rewrite N.eqb_eq. split; [intros ->; reflexivity | intros [= ->]; reflexivity].
  - split; reflexivity.
Qed.
Lemma oeqb_refl a : oeqb a a = true.
Proof. apply oeqb_eq. reflexivity. Qed.
Lemma oleqb_eq a b : oleqb a b = true <-> a = b.
Proof.
  destruct a, b; cbn [oleqb]; try (split; [discriminate | discriminate]).
  - rewrite leqb_eq. split; [intros ->; reflexivity | intros [= ->]; reflexivity].
  - split; reflexivity.
Qed.

(* ------------------------------------------------------------------ scopes held through maps *)
Definition Holds (maps : list (N * list N)) (i : ident) (s : N) : Prop :=
  exists g m, In (g, m) maps /\ In g (i_groups i) /\ In s m.

Lemma held_In maps i s : In s (held maps i) <-> Holds maps i s.
Proof.
  unfold held, Holds. rewrite in_flat_map. split.
  - intros [[g m] [Hin Hs]]. cbn [fst snd] in Hs.
    destruct (mem g (i_groups i)) eqn:E; [|destruct Hs].
    exists g, m. repeat split; [exact Hin | apply mem_In; exact E | exact Hs].
  - intros [g [m [Hin [Hg Hs]]]]. exists (g, m). split; [exact Hin|]. cbn [fst snd].
    apply mem_In in Hg. rewrite Hg. exact Hs.
Qed.

Lemma holds_spec maps i s : holds maps i s = true <-> Holds maps i s.
Proof.
  unfold holds, Holds. rewrite existsb_exists. split.
  - intros [[g m] [Hin H]]. cbn [fst snd] in H. apply andb_true_iff in H as [H1 H2].
    exists g, m. repeat split; [exact Hin | apply mem_In; exact H1 | apply mem_In; exact H2].
  - intros [g [m [Hin [Hg Hs]]]]. exists (g, m). split; [exact Hin|]. cbn [fst snd].
    apply andb_true_iff. split; apply mem_In; assumption.
Qed.

Lemma holds_held maps i s : holds maps i s = mem s (held maps i).
Proof.
  apply eq_true_iff_eq. rewrite holds_spec, mem_In, held_In. reflexivity.
Qed.

Lemma Holds_sup_all maps i s : Holds maps i s -> In s (sup_all maps).
Proof.
  intros [g [m [Hin [_ Hs]]]]. unfold sup_all. apply in_flat_map. exists (g, m). split; assumption.
Qed.

(* ------------------------------------------------------------------ load: URI tables *)
Lemma is_web_strip r : is_web (strip r) = is_web r.
Proof. reflexivity. Qed.
Lemma is_https_strip r : is_https (strip r) = is_https r.
Proof. reflexivity. Qed.

Lemma uri_eqb_strip u r :
  uri_eqb u (strip r) = (u_id r =? u_id u) && match u_frag u with None => true | Some _ => false end.
Proof.
  unfold uri_eqb, strip. cbn [u_id u_frag]. rewrite (N.eqb_sym (u_id u)).
  destruct (u_frag u); reflexivity.
Qed.

Lemma contains_filter_strip (P : uri -> bool) (HP : forall r, P (strip r) = P r) l u :
  contains (filter P (map strip l)) u =
  existsb (fun r => P r && (u_id r =? u_id u) && match u_frag u with None => true | Some _ => false end) l.
Proof.
  unfold contains. induction l as [|r t IH]; cbn [map filter existsb]; [reflexivity|].
  rewrite HP. destruct (P r) eqn:E; cbn [existsb andb].
  - rewrite IH, uri_eqb_strip. reflexivity.
  - exact IH.
Qed.

Lemma load_redirect e u : contains (c_redirect (load e)) u = exact_registered e u.
Proof. unfold load, exact_registered. cbn [c_redirect]. apply contains_filter_strip. exact is_web_strip. Qed.

Lemma load_opaque e u : contains (c_opaque (load e)) u = app_registered e u.
Proof.
  unfold load, app_registered. cbn [c_opaque].
  apply (contains_filter_strip (fun u => negb (is_web u))). reflexivity.
Qed.

Lemma load_secure e : c_secure (load e) = secure_needed e.
Proof.
  unfold load, secure_needed. cbn [c_secure]. induction (configured e) as [|r t IH]; cbn [map existsb]; [reflexivity|].
  rewrite IH. reflexivity.
Qed.

Lemma load_loopback e u :
  check_is_loopback u && allow_localhost_redirect (c_type (load e)) = loopback_allowed e u.
Proof.
  unfold load, loopback_allowed, check_is_loopback. cbn [c_type].
  destruct (e_public e); cbn [allow_localhost_redirect andb].
  - destruct (e_localhost e) as [[|]|]; cbn [andb]; rewrite ?andb_true_r, ?andb_false_r; reflexivity.
  - rewrite andb_false_r. reflexivity.
Qed.

Lemma load_pkce e : require_pkce (c_type (load e)) = pkce_required e.
Proof.
  unfold load, pkce_required. cbn [c_type]. destruct (e_public e); cbn [require_pkce orb]; [reflexivity|].
  destruct (e_disable_pkce e) as [[|]|]; reflexivity.
Qed.

(* ------------------------------------------------------------------ inversion of authorise *)
Definition grant_of (o : outcome) : option grant :=
  match o with OPermitted g | OConsent g _ => Some g | _ => None end.

Lemma process_scopes_inv c i q granted :
  process_scopes c i q = inr granted ->
  q_scope q <> [] /\
  existsb (fun s => mem s (q_bad q)) (q_scope q) = false /\
  subset (q_scope q) (collect (held (c_maps c) i)) = true /\
  granted = collect (held (c_sup c) i ++ q_scope q).
Proof.
  unfold process_scopes. destruct (q_scope q) as [|s0 r] eqn:Es; [discriminate|].
  destruct (existsb _ (s0 :: r)) eqn:Eb; [discriminate|].
  destruct (subset (s0 :: r) _) eqn:Esub; cbn [negb]; [|discriminate].
  intros [= <-]. repeat split; try assumption; try discriminate; reflexivity.
Qed.

Inductive AuthInv (ce : option centry) (id : option ident) (q : req) (ct : N) (g : grant) : Prop :=
| Build_AuthInv (ai_e : centry) (ai_i : ident) (ai_granted : list N)
  (ai_ce : ce = Some ai_e) (ai_id : id = Some ai_i) (ai_rtype : q_rtype q = RCode)
  (ai_match : (check_is_loopback (q_redirect q) && allow_localhost_redirect (c_type (load ai_e))
              || contains (c_redirect (load ai_e)) (q_redirect q)
              || contains (c_opaque (load ai_e)) (q_redirect q)) = true)
  (ai_secure : (c_secure (load ai_e) &&
               negb (contains (c_opaque (load ai_e)) (q_redirect q) || check_is_loopback (q_redirect q)
                     || is_https (q_redirect q))) = false)
  (ai_pkce : (match pkce_of (q_pkce q) with None => require_pkce (c_type (load ai_e)) | Some _ => false end) = false)
  (ai_anon : (i_acct ai_i =? 0) = false)
  (ai_scopes : process_scopes (load ai_e) ai_i q = inr ai_granted)
  (ai_g : exists exp, g = mkgrant (i_acct ai_i) (i_session ai_i) exp (pkce_of (q_pkce q)) (key (q_redirect q))
                                 ai_granted (q_state q)
                                 (match get_response_mode (q_rmode q) RCode with Some MFragment => true | _ => false end)
                     /\ (exp = ct + 60 \/ exp = ct + 300)).

Lemma authorise_inv ce id q ct g :
  grant_of (authorise ce id q ct) = Some g -> AuthInv ce id q ct g.
Proof.
  unfold authorise. destruct (q_rtype q) eqn:Ert; cbn [grant_of]; try discriminate.
  destruct (get_response_mode (q_rmode q) RCode) as [rm|] eqn:Erm; cbn [grant_of]; try discriminate.
  assert (Hgo : forall (X : outcome),
    (match rm with MInvalid => OErr EInvalidRequest | _ => X end) = (if match rm with MInvalid => true | _ => false end then OErr EInvalidRequest else X)).
  { intros X. destruct rm; reflexivity. }
  intros H.
  assert (Hrm : rm <> MInvalid). { intros ->. cbn in H. discriminate. }
  assert (H' : grant_of (
      if 4 <? N.of_nat (length (q_prompt q)) then OErr EInvalidRequest
      else if existsb is_pinvalid (q_prompt q) then OErr EInvalidRequest
      else if existsb is_pnone (q_prompt q) && (1 <? N.of_nat (length (q_prompt q))) then OErr EInvalidRequest
      else match ce with
      | None => OErr EInvalidClientId
      | Some e =>
        let c := load e in
        let u := q_redirect q in
        let is_loopback := check_is_loopback u in
        let loopback_matched := is_loopback && allow_localhost_redirect (c_type c) in
        let strict_matched := contains (c_redirect c) u in
        let opaque_matched := contains (c_opaque c) u in
        let origin_secure := opaque_matched || is_loopback || is_https u in
        if negb (loopback_matched || strict_matched || opaque_matched) then OErr EInvalidOrigin
        else if c_secure c && negb origin_secure then OErr EInvalidOrigin
        else
          let pk := pkce_of (q_pkce q) in
          if (match pk with None => require_pkce (c_type c) | Some _ => false end) then OErr EInvalidRequest
          else match id with
          | None => if existsb is_pnone (q_prompt q) then OErr ELoginRequired else OAuthRequired
          | Some i =>
            let max_age := if existsb is_plogin (q_prompt q) then Some 0%Z
                           else option_map (fun m => Z.max 0 (Z.min m OAUTH2_OIDC_MAX_AGE_CLAMP)) (q_max_age q) in
            let reauth :=
              match max_age with
              | None => false
              | Some m =>
                let recent := if (m <=? 0)%Z then false
                              else match i_auth_time i with
                                   | Some a => (Z.of_N ct - m <? Z.of_N a)%Z
                                   | None => false end in
                negb (q_resumed q || recent)
              end in
            if reauth then OReauthRequired
            else if i_acct i =? 0 then OErr EAccessDenied
            else match process_scopes c i q with
            | inl e => OErr e
            | inr granted =>
              let consent_previously_granted :=
                match i_consent i with Some cs => leqb granted cs | None => false end in
              let consent_required :=
                (negb consent_previously_granted || (negb (is_basic (c_type c)) && loopback_matched))
                && enable_consent_prompt (c_type c) in
              if negb consent_required then
                OPermitted (mkgrant (i_acct i) (i_session i) (ct + 60) pk (key u) granted (q_state q)
                                    (match rm with MFragment => true | _ => false end))
              else if existsb is_pnone (q_prompt q) then OErr EInteractionRequired
              else
                let pii := (if mem SC_OPENID (q_scope q) && mem SC_EMAIL granted
                            then [SC_EMAIL; SC_EMAIL_VERIFIED] else [])
                           ++ (if mem SC_SSH granted then [SC_SSH] else []) in
                OConsent (mkgrant (i_acct i) (i_session i) (ct + 300) pk (key u) granted (q_state q)
                                  (match rm with MFragment => true | _ => false end))
                         (collect pii)
            end
          end
      end) = Some g).
  { destruct rm; try exact H. contradiction Hrm. reflexivity. }
  clear H Hgo. revert H'.
  destruct (4 <? N.of_nat (length (q_prompt q))); cbn [grant_of]; try discriminate.
  destruct (existsb is_pinvalid (q_prompt q)); cbn [grant_of]; try discriminate.
  destruct (existsb is_pnone (q_prompt q) && (1 <? N.of_nat (length (q_prompt q)))); cbn [grant_of]; try discriminate.
  destruct ce as [e|]; cbn [grant_of]; try discriminate.
  cbv zeta.
  destruct (check_is_loopback (q_redirect q) && allow_localhost_redirect (c_type (load e))
            || contains (c_redirect (load e)) (q_redirect q)
            || contains (c_opaque (load e)) (q_redirect q)) eqn:Ematch; cbn [negb grant_of]; try discriminate.
  destruct (c_secure (load e) && negb (contains (c_opaque (load e)) (q_redirect q) || check_is_loopback (q_redirect q)
                     || is_https (q_redirect q))) eqn:Esec; cbn [grant_of]; try discriminate.
  destruct (match pkce_of (q_pkce q) with None => require_pkce (c_type (load e)) | Some _ => false end) eqn:Epk;
    cbn [grant_of]; try discriminate.
  destruct id as [i|]; [|destruct (existsb is_pnone (q_prompt q)); cbn [grant_of]; discriminate].
  match goal with |- context [if ?b then OReauthRequired else _] => destruct b end; cbn [grant_of]; try discriminate.
  destruct (i_acct i =? 0) eqn:Eanon; cbn [grant_of]; try discriminate.
  destruct (process_scopes (load e) i q) as [er|granted] eqn:Eps; cbn [grant_of]; try discriminate.
  match goal with |- context [if negb ?b then OPermitted _ else _] => destruct b end; cbn [negb grant_of].
  - destruct (existsb is_pnone (q_prompt q)); cbn [grant_of]; try discriminate.
    intros [= <-].
    refine (Build_AuthInv _ _ _ _ _ e i granted eq_refl eq_refl Ert Ematch Esec Epk Eanon Eps _).
    exists (ct + 300). split; [|right; reflexivity]. rewrite Erm. reflexivity.
  - intros [= <-].
    refine (Build_AuthInv _ _ _ _ _ e i granted eq_refl eq_refl Ert Ematch Esec Epk Eanon Eps _).
    exists (ct + 60). split; [|left; reflexivity]. rewrite Erm. reflexivity.
Qed.

(* ------------------------------------------------------------------ the terms *)
Lemma forallb_true_intro {A} (f : A -> bool) l : (forall x, In x l -> f x = true) -> forallb f l = true.
Proof. intros H. apply forallb_forall. exact H. Qed.

Lemma authorise_terms ce id q ct g :
  grant_of (authorise ce id q ct) = Some g ->
  exists e i, ce = Some e /\ id = Some i /\ terms_ok e i q g = true.
Proof.
  intros H. destruct (authorise_inv _ _ _ _ _ H) as [e i granted -> -> Hrt Hm Hs Hp Ha Hps [ex [-> Hex]]].
  exists e, i. split; [reflexivity|]. split; [reflexivity|].
  apply process_scopes_inv in Hps as [Hne [_ [Hsub ->]]].
  rewrite load_loopback, load_redirect, load_opaque in Hm.
  rewrite load_secure, load_opaque in Hs. rewrite load_pkce in Hp.
  unfold terms_ok. cbn [g_challenge g_scopes g_redirect g_acct g_session key fst snd].
  assert (E0 : (exact_registered e (q_redirect q) || loopback_allowed e (q_redirect q)
                || app_registered e (q_redirect q)) = true).
  { destruct (exact_registered e (q_redirect q)), (loopback_allowed e (q_redirect q)),
      (app_registered e (q_redirect q)); cbn in *; congruence. }
  rewrite E0, Ha, !N.eqb_refl, !oeqb_refl. cbn [negb andb].
  assert (E1 : (negb (secure_needed e) || is_https (q_redirect q) || host_is_local (u_host (q_redirect q))
                || app_registered e (q_redirect q)) = true).
  { unfold check_is_loopback in Hs. destruct (secure_needed e); [|reflexivity]. cbn [andb negb orb] in *.
    apply negb_false_iff in Hs.
    destruct (app_registered e (q_redirect q)), (host_is_local (u_host (q_redirect q))), (is_https (q_redirect q));
      cbn in *; congruence. }
  rewrite E1. cbn [andb].
  assert (E2 : match q_scope q with [] => true | _ => false end = false).
  { destruct (q_scope q); [contradiction Hne; reflexivity | reflexivity]. }
  rewrite E2. cbn [negb andb].
  assert (E3 : forallb (fun s => holds (e_scope_maps e) i s) (q_scope q) = true).
  { apply forallb_true_intro. intros s Hin. rewrite holds_held.
    pose proof (proj1 (subset_spec _ _) Hsub s Hin) as Hc. apply (proj1 (collect_In _ _)) in Hc. apply mem_In. exact Hc. }
  rewrite E3. cbn [andb].
  assert (E4 : (negb (pkce_required e) || match q_pkce q with KS256 _ => true | _ => false end) = true).
  { destruct (q_pkce q); cbn [pkce_of] in Hp; try (rewrite Hp; reflexivity). apply orb_true_r. }
  rewrite E4. cbn [andb].
  assert (E5 : forallb (fun s => mem s (q_scope q) || holds (e_sup_maps e) i s)
                 (collect (held (c_sup (load e)) i ++ q_scope q)) = true).
  { apply forallb_true_intro. intros s Hin. apply (proj1 (collect_In _ _)) in Hin. apply in_app_or in Hin as [Hh|Hq].
    - rewrite holds_held. change (c_sup (load e)) with (e_sup_maps e) in Hh.
      apply mem_In in Hh. rewrite Hh. apply orb_true_r.
    - apply mem_In in Hq. rewrite Hq. reflexivity. }
  rewrite E5. cbn [andb].
  assert (E6 : forallb (fun s => mem s (collect (held (c_sup (load e)) i ++ q_scope q))) (q_scope q) = true).
  { apply forallb_true_intro. intros s Hin. apply mem_In, collect_In, in_or_app. right. exact Hin. }
  rewrite E6. cbn [andb].
  assert (E7 : forallb (fun s => negb (holds (e_sup_maps e) i s)
                                 || mem s (collect (held (c_sup (load e)) i ++ q_scope q)))
                 (sup_all (e_sup_maps e)) = true).
  { apply forallb_true_intro. intros s _. destruct (holds (e_sup_maps e) i s) eqn:Eh; [|reflexivity].
    cbn [negb orb]. apply mem_In, collect_In, in_or_app. left.
    rewrite holds_held in Eh. apply mem_In in Eh. exact Eh. }
  rewrite E7. reflexivity.
Qed.

Lemma out_ok_authorise ce id q ct : out_ok ce id q (authorise ce id q ct) = true.
Proof.
  destruct (authorise ce id q ct) as [er| | |g pii|g] eqn:E; cbn [out_ok]; try reflexivity.
  - destruct (authorise_terms ce id q ct g) as [e [i [-> [-> Ht]]]]; [rewrite E; reflexivity | exact Ht].
  - destruct (authorise_terms ce id q ct g) as [e [i [-> [-> Ht]]]]; [rewrite E; reflexivity | exact Ht].
Qed.

(* ------------------------------------------------------------------ readable form of the terms *)
Definition RegisteredExact (e : centry) (u : uri) : Prop :=
  exists r, In r (configured e) /\ is_web r = true /\ u_id u = u_id r /\ u_frag u = None.
Definition RegisteredApp (e : centry) (u : uri) : Prop :=
  exists r, In r (configured e) /\ is_web r = false /\ u_id u = u_id r /\ u_frag u = None.
Definition LoopbackAllowed (e : centry) (u : uri) : Prop :=
  e_public e = true /\ e_localhost e = Some true /\ host_is_local (u_host u) = true.
Definition PkceRequired (e : centry) : Prop := e_public e = true \/ e_disable_pkce e <> Some true.
Definition SecureNeeded (e : centry) : Prop := exists r, In r (configured e) /\ is_https r = true.

Record Terms (e : centry) (i : ident) (q : req) (g : grant) : Prop := {
  t_redirect : RegisteredExact e (q_redirect q) \/ LoopbackAllowed e (q_redirect q) \/ RegisteredApp e (q_redirect q);
  t_secure : SecureNeeded e ->
             is_https (q_redirect q) = true \/ host_is_local (u_host (q_redirect q)) = true
             \/ RegisteredApp e (q_redirect q);
  t_not_anonymous : i_acct i <> 0;
  t_some_scope : q_scope q <> [];
  t_holds_requested : forall s, In s (q_scope q) -> Holds (e_scope_maps e) i s;
  t_pkce : PkceRequired e -> exists c, q_pkce q = KS256 c;
  t_challenge : g_challenge g = pkce_of (q_pkce q);
  t_granted : forall s, In s (g_scopes g) <-> In s (q_scope q) \/ Holds (e_sup_maps e) i s;
  t_bound_uri : g_redirect g = key (q_redirect q);
  t_bound_acct : g_acct g = i_acct i;
  t_bound_session : g_session g = i_session i }.

Lemma registered_spec (P : uri -> bool) e u :
  existsb (fun r => P r && (u_id r =? u_id u) && match u_frag u with None => true | Some _ => false end)
          (configured e) = true ->
  exists r, In r (configured e) /\ P r = true /\ u_id u = u_id r /\ u_frag u = None.
Proof.
  intros H. apply existsb_exists in H as [r [Hin H]].
  apply andb_true_iff in H as [H H3]. apply andb_true_iff in H as [H1 H2].
  exists r. repeat split; [exact Hin | exact H1 | symmetry; apply N.eqb_eq; exact H2 |].
  destruct (u_frag u); [discriminate | reflexivity].
Qed.

Lemma app_registered_spec e u : app_registered e u = true -> RegisteredApp e u.
Proof.
  intros H. destruct (registered_spec (fun r => negb (is_web r)) e u H) as [r [H1 [H2 [H3 H4]]]].
  exists r. repeat split; try assumption. apply negb_true_iff. exact H2.
Qed.

Lemma terms_ok_sound e i q g : terms_ok e i q g = true -> Terms e i q g.
Proof.
  unfold terms_ok. intros H.
  apply andb_true_iff in H as [H K14]. apply andb_true_iff in H as [H K13].
  apply andb_true_iff in H as [H K12]. apply andb_true_iff in H as [H K11].
  apply andb_true_iff in H as [H K10]. apply andb_true_iff in H as [H K9].
  apply andb_true_iff in H as [H K8]. apply andb_true_iff in H as [H K7].
  apply andb_true_iff in H as [H K6]. apply andb_true_iff in H as [H K5].
  apply andb_true_iff in H as [H K4]. apply andb_true_iff in H as [H K3].
  apply andb_true_iff in H as [K1 K2].
  constructor.
  - apply orb_true_iff in K1 as [K1|K1]; [apply orb_true_iff in K1 as [K1|K1]|].
    + left. exact (registered_spec is_web e _ K1).
    + right; left. unfold loopback_allowed in K1. apply andb_true_iff in K1 as [K1 H3].
      apply andb_true_iff in K1 as [H1 H2].
      repeat split; try assumption. destruct (e_localhost e) as [[|]|]; try discriminate. reflexivity.
    + right; right. apply app_registered_spec. exact K1.
  - intros [r [Hin Hr]].
    assert (Hs : secure_needed e = true). { apply existsb_exists. exists r. split; assumption. }
    rewrite Hs in K2. cbn [negb orb] in K2.
    apply orb_true_iff in K2 as [K2|K2]; [apply orb_true_iff in K2 as [K2|K2]|].
    + left. exact K2.
    + right; left. exact K2.
    + right; right. apply app_registered_spec. exact K2.
  - apply negb_true_iff in K3. apply N.eqb_neq. exact K3.
  - destruct (q_scope q); [discriminate | discriminate].
  - intros s Hin. apply holds_spec. rewrite forallb_forall in K5. apply K5. exact Hin.
  - intros [Hp|Hd].
    + unfold pkce_required in K6. rewrite Hp in K6. cbn in K6. destruct (q_pkce q); try discriminate. eexists; reflexivity.
    + unfold pkce_required in K6. destruct (e_disable_pkce e) as [[|]|]; [contradiction Hd; reflexivity| |];
        rewrite orb_true_r in K6; cbn in K6; destruct (q_pkce q); try discriminate; eexists; reflexivity.
  - apply oeqb_eq. exact K7.
  - intros s. rewrite forallb_forall in K8, K9, K10. split.
    + intros Hin. specialize (K8 s Hin). apply orb_true_iff in K8 as [K8|K8].
      * left. apply mem_In. exact K8.
      * right. apply holds_spec. exact K8.
    + intros [Hin|Hh].
      * apply mem_In. apply K9. exact Hin.
      * specialize (K10 s (Holds_sup_all _ _ _ Hh)). apply holds_spec in Hh. rewrite Hh in K10.
        cbn in K10. apply mem_In. exact K10.
  - unfold key. destruct (g_redirect g) as [a b]. cbn [fst snd] in *.
    apply N.eqb_eq in K11. apply oeqb_eq in K12. subst. reflexivity.
  - apply N.eqb_eq. exact K13.
  - apply N.eqb_eq. exact K14.
Qed.

(* ------------------------------------------------------------------ permit *)
Lemma permit_inv g i b ct g' :
  permit g i b ct = Some g' ->
  g_acct g = i_acct i /\ g_session g = i_session i /\ ct < g_expiry g /\ b = true /\
  g' = mkgrant (i_acct i) (i_session i) (ct + 60) (g_challenge g) (g_redirect g) (g_scopes g) (g_state g) (g_fragment g).
Proof.
  unfold permit.
  destruct (g_acct g =? i_acct i) eqn:E1; cbn [negb]; [|discriminate].
  destruct (g_session g =? i_session i) eqn:E2; cbn [negb]; [|discriminate].
  destruct (g_expiry g <=? ct) eqn:E3; [discriminate|].
  destruct b; cbn [negb]; [|discriminate].
  intros [= <-]. apply N.eqb_eq in E1, E2. apply N.leb_gt in E3. repeat split; assumption.
Qed.

Lemma permit_ok_permit g i b ct : permit_ok g i ct (permit g i b ct) = true.
Proof.
  destruct (permit g i b ct) as [g'|] eqn:E; [|reflexivity].
  apply permit_inv in E as [H1 [H2 [H3 [_ ->]]]].
  unfold permit_ok. cbn [g_acct g_session g_challenge g_redirect g_scopes].
  rewrite H1, H2, !N.eqb_refl, !oeqb_refl, leqb_refl.
  apply N.ltb_lt in H3. rewrite H3. reflexivity.
Qed.

(* ------------------------------------------------------------------ eqb soundness *)
Lemma grant_eqb_eq a b : grant_eqb a b = true -> a = b.
Proof.
  unfold grant_eqb. intros H.
  apply andb_true_iff in H as [H K9]. apply andb_true_iff in H as [H K8].
  apply andb_true_iff in H as [H K7]. apply andb_true_iff in H as [H K6].
  apply andb_true_iff in H as [H K5]. apply andb_true_iff in H as [H K4].
  apply andb_true_iff in H as [H K3]. apply andb_true_iff in H as [K1 K2].
  destruct a as [a1 a2 a3 a4 [a5 a5'] a6 a7 a8], b as [b1 b2 b3 b4 [b5 b5'] b6 b7 b8].
  cbn [g_acct g_session g_expiry g_challenge g_redirect g_scopes g_state g_fragment fst snd] in *.
  apply N.eqb_eq in K1, K2, K3, K5. apply oeqb_eq in K4, K6, K8. apply leqb_eq in K7. apply Bool.eqb_prop in K9.
  subst. reflexivity.
Qed.

Lemma err_eqb_eq a b : err_eqb a b = true -> a = b.
Proof. destruct a, b; cbn; intros H; try discriminate; reflexivity. Qed.

Lemma outcome_eqb_eq a b : outcome_eqb a b = true -> a = b.
Proof.
  destruct a, b; cbn [outcome_eqb]; intros H; try discriminate; try reflexivity.
  - apply err_eqb_eq in H. subst. reflexivity.
  - apply andb_true_iff in H as [H1 H2]. apply grant_eqb_eq in H1. apply leqb_eq in H2. subst. reflexivity.
  - apply grant_eqb_eq in H. subst. reflexivity.
Qed.

Lemma ogrant_eqb_eq a b : ogrant_eqb a b = true -> a = b.
Proof.
  destruct a, b; cbn [ogrant_eqb]; intros H; try discriminate; try reflexivity.
  apply grant_eqb_eq in H. subst. reflexivity.
Qed.

Lemma agree_pcheck c : agree c = true -> pcheck c = true.
Proof.
  destruct c as [ce id q ct impl fu]. unfold agree, pcheck. intros H.
  apply andb_true_iff in H as [H1 H2]. apply outcome_eqb_eq in H1. subst impl.
  rewrite out_ok_authorise. cbn [andb].
  destruct fu as [f|]; [|reflexivity].
  destruct (consent_grant (authorise ce id q ct)) as [g|]; [|discriminate].
  apply andb_true_iff in H2 as [H2 _]. apply ogrant_eqb_eq in H2. rewrite <- H2. apply permit_ok_permit.
Qed.

(* ------------------------------------------------------------------ loopback hosts *)
Lemma host_is_local_spec h :
  host_is_local h = true <->
  (exists b c d, h = HV4 127 b c d) \/ h = HV6 [0; 0; 0; 0; 0; 0; 0; 1] \/ h = HDomain localhost_bytes.
Proof.
  destruct h as [|d|a b c d|s]; cbn [host_is_local].
  - split; [discriminate|]. intros [[b [c [d H]]]|[H|H]]; discriminate.
  - rewrite leqb_eq. split.
    + intros ->. right; right. reflexivity.
    + intros [[b [c [d' H]]]|[H|H]]; try discriminate. injection H as ->. reflexivity.
  - rewrite N.eqb_eq. split.
    + intros ->. left. exists b, c, d. reflexivity.
    + intros [[b' [c' [d' H]]]|[H|H]]; try discriminate. injection H as -> _ _ _. reflexivity.
  - rewrite leqb_eq. split.
    + intros ->. right; left. reflexivity.
    + intros [[b [c [d' H]]]|[H|H]]; try discriminate. injection H as ->. reflexivity.
Qed.

(* ------------------------------------------------------------------ lifetimes *)
Definition expiry_ok (ct : N) (o : outcome) : bool :=
  match o with
  | OPermitted g => g_expiry g =? ct + 60
  | OConsent g _ => g_expiry g =? ct + 300
  | _ => true
  end.

Lemma authorise_expiry ce id q ct : expiry_ok ct (authorise ce id q ct) = true.
Proof.
  unfold authorise. cbv zeta.
  repeat lazymatch goal with
  | |- expiry_ok _ (match ?x with _ => _ end) = true => destruct x
  end; cbn [expiry_ok g_expiry]; try reflexivity; apply N.eqb_refl.
Qed.
