(* KV.C31.Props — property theorems only.
   Vocabulary: a password is its list of grapheme clusters; `ok_pw cf pw` is the property's sentence for one
   account configuration: at least the account's effective minimum (spec_min: the largest minimum of its
   account-policy groups, never below 10, and never below 15 unless a group demands MFA) and at most 128
   grapheme clusters, and not equal to any badlist entry after lowercasing both. *)
From Coq Require Import List NArith Bool.
Import ListNotations.
Require Import KV.C31.Model KV.C31.Proofs.
Open Scope N_scope.

(* The minimum the code resolves (fold over the groups + single-factor bump) IS the declarative effective
   minimum, for any number of groups in any order. *)
Theorem C31_effective_minimum : forall pols, fst (resolve pols) = spec_min pols.
Proof. exact resolve_min. Qed.
(* ... which respects every group's minimum, and is at least 15 when no group demands MFA *)
Theorem C31_effective_minimum_bounds : forall pols,
  PW_MFA_MIN <= spec_min pols /\ (forall p, In p pols -> pol_min p <= spec_min pols) /\
  ((forall p, In p pols -> pol_cred p < CT_MFA) -> PW_SFA_MIN <= spec_min pols).
Proof. intro pols. split; [apply spec_min_ge|]. split; [apply spec_min_ge_group | apply spec_min_sfa]. Qed.

(* The credential-update gate accepts a password IF AND ONLY IF it is within the bounds in grapheme clusters,
   contains neither the RADIUS secret nor a related input, scores 4 with zxcvbn and is not badlisted
   (case-insensitively). *)
Theorem C31_cu_accept_iff : forall pmin pmax bad rel radius zx pw,
  quality_cu pmin pmax bad rel radius zx pw = ROk <-> cu_accepts pmin pmax bad rel radius zx pw.
Proof. exact quality_cu_ok_iff. Qed.

(* Sessions of ANY length: whatever primary / POSIX password a committed session stores comes from a
   set-request of that kind in the session whose password satisfies the property, and every accepted request
   (including the quality-check endpoint) carries such a password. *)
Theorem C31_cu_sessions : forall cf ops rs cm stp stu,
  run_sess cf ops = (rs, cm, stp, stu) ->
  stored_from cf ops true stp /\ stored_from cf ops false stu /\ accepted_all cf ops rs.
Proof. exact sessions_ok. Qed.

(* THE FULL STATEMENT (C31_statement, Proofs.v): no accepted direct POSIX password change and no credential
   update session stores or accepts a password outside ok_pw.  It is stated per tree variant; the current tree
   (Model.tree_fixed = true, /repo commit cec32bc) is the variant `true`. *)
Definition C31_full_statement : Prop := C31_statement tree_fixed.

(* HEADLINE: the full statement holds for the current tree: every path — direct POSIX change, session primary,
   session POSIX, quality-check endpoint, commit — for all configurations, passwords and session lengths. *)
Theorem C31_full_fixed_tree : C31_statement true.
Proof. exact statement_fixed. Qed.
Theorem C31_full : C31_full_statement.
Proof. exact statement_fixed. Qed.

(* Bridge: on every case where the implementation agrees with the model, the property's executable predicate
   holds of the IMPLEMENTATION's answers (there is no known class). *)
Theorem C31_agree_implies_property : forall c, agree c = true -> pcheck c = true.
Proof. exact agree_implies_property_fixed. Qed.

(* ---- documentation of the defect this check found in the tree before fix commit cec32bc ---- *)
(* The pre-fix tree violated the statement: account policy minimum 30, the 18 character password
   "eiK7ohvie4Aeph9Eix" was accepted and stored by set_unix_account_password. *)
Theorem C31_prefix_refuted : ~ C31_statement false.
Proof. exact statement_unfixed_refuted. Qed.
(* Independently of any policy: 9 grapheme clusters (27 bytes) passed the 15 BYTE check of the POSIX path. *)
Theorem C31_prefix_refuted_graphemes :
  ~ (forall cf pw zx, pwd_wf pw = true -> posix_op_gen false cf pw zx = ROk -> ok_pw cf pw).
Proof. exact statement_unfixed_refuted_graphemes. Qed.
(* what did hold before the fix: everything except KnownClass = { POSIX account, >= 15 bytes, fewer grapheme
   clusters than the effective minimum } *)
Theorem C31_prefix_partial :
  (forall cf pw zx, pwd_wf pw = true -> posix_op_gen false cf pw zx = ROk -> ~ KnownClass cf pw -> ok_pw cf pw) /\
  (forall cf ops rs cm stp stu, run_sess cf ops = (rs, cm, stp, stu) ->
     stored_from cf ops true stp /\ stored_from cf ops false stu /\ accepted_all cf ops rs).
Proof. exact statement_unfixed_partial. Qed.
Theorem C31_prefix_posix_guarantees : forall cf pw zx,
  pwd_wf pw = true -> posix_op_gen false cf pw zx = ROk ->
  c_posix cf = true /\ PW_SFA_MIN <= bytes pw /\ bytes pw <= PW_MAX /\ graphemes pw <= PW_MAX /\
  ~ badlist_hit (c_bad cf) (flat pw) /\ 4 <= zx /\ (spec_min (c_pols cf) <= graphemes pw -> ok_pw cf pw).
Proof. exact posix_unfixed_partial. Qed.
(* the pre-fix bridge: agreement with the pre-fix model outside its known class gave the property *)
Theorem C31_prefix_agree_implies_property : forall c,
  agree_gen false c = true -> known_gen false c = false -> pcheck c = true.
Proof. exact (agree_implies_property_gen false). Qed.

(* pcheck says what it should: for a direct POSIX change, acceptance or a changed stored credential imply
   ok_pw; for a session, the stored credentials and accepted requests do. *)
Theorem C31_pcheck_sound_posix : forall cf pw zx impl chg items,
  pcheck (CGroup cf items) = true -> In (IPosix pw zx impl chg) items ->
  (impl = ROk -> ok_pw cf pw) /\ (chg <> 0 -> chg = 1 /\ ok_pw cf pw).
Proof. exact pcheck_sound_posix. Qed.
Theorem C31_pcheck_sound_session : forall cf ops impl commit stp stu items,
  pcheck (CGroup cf items) = true -> In (ISess ops impl commit stp stu) items ->
  stored_from cf ops true stp /\ stored_from cf ops false stu /\ accepted_all cf ops impl.
Proof. exact pcheck_sound_sess. Qed.
