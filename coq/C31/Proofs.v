(* KV.C31.Proofs — lemmas and proofs about KV.C31.Model. *)
From Coq Require Import List NArith Bool Lia.
Import ListNotations.
Require Import KV.C31.Model.
Open Scope N_scope.
Arguments N.add : simpl never.
Arguments N.sub : simpl never.
Arguments N.ltb : simpl never.
Arguments N.leb : simpl never.
Arguments N.eqb : simpl never.
Arguments N.max : simpl never.
Arguments N.of_nat : simpl never.

(* ------------------------------------------------------------------ small facts *)
Lemma str_eqb_eq : forall a b, str_eqb a b = true <-> a = b.
Proof.
  induction a as [|x a IH]; destruct b as [|y b]; cbn [str_eqb]; split; intro H; try reflexivity; try discriminate.
  - apply andb_true_iff in H as [H1 H2]. apply N.eqb_eq in H1. apply IH in H2. subst. reflexivity.
  - injection H as -> ->. apply andb_true_iff. split; [apply N.eqb_refl | apply IH; reflexivity].
Qed.
Lemma res_eqb_eq : forall a b, res_eqb a b = true -> a = b.
Proof.
  intros a b H. destruct a, b; cbn in H; try discriminate; try reflexivity; apply N.eqb_eq in H; subst; reflexivity.
Qed.
Lemma res_list_eqb_eq : forall a b, res_list_eqb a b = true -> a = b.
Proof.
  induction a as [|x a IH]; destruct b as [|y b]; cbn [res_list_eqb]; intro H; try reflexivity; try discriminate.
  apply andb_true_iff in H as [H1 H2]. apply res_eqb_eq in H1. apply IH in H2. subst. reflexivity.
Qed.
Lemma is_ok_eq : forall r, is_ok r = true <-> r = ROk.
Proof. intro r. destruct r; cbn; split; intro H; try reflexivity; discriminate. Qed.
Lemma ifmax : forall a b, (if a <? b then b else a) = N.max a b.
Proof. intros a b. destruct (N.ltb_spec a b); lia. Qed.

(* ------------------------------------------------------------------ strings *)
Lemma cp_bytes_pos : forall c, 1 <= cp_bytes c.
Proof. intro c. unfold cp_bytes. repeat match goal with |- context [if ?b then _ else _] => destruct b end; lia. Qed.
Lemma str_bytes_app : forall a b, str_bytes (a ++ b) = str_bytes a + str_bytes b.
Proof. induction a as [|x a IH]; intro b; cbn [app str_bytes]; [lia | rewrite IH; lia]. Qed.
Lemma str_bytes_nonempty : forall s, s <> [] -> 1 <= str_bytes s.
Proof. intros [|c t] H; [contradiction|]. cbn [str_bytes]. pose proof (cp_bytes_pos c). lia. Qed.
(* a grapheme cluster holds at least one scalar value of at least one byte *)
Lemma graphemes_le_bytes : forall p, pwd_wf p = true -> graphemes p <= bytes p.
Proof.
  unfold graphemes, bytes, flat. induction p as [|c p IH]; intro H.
  - cbn. lia.
  - cbn [pwd_wf forallb] in H. apply andb_true_iff in H as [Hc Hp]. specialize (IH Hp).
    cbn [concat length]. rewrite str_bytes_app. rewrite Nat2N.inj_succ.
    assert (1 <= str_bytes c) by (apply str_bytes_nonempty; destruct c; [discriminate | discriminate]). lia.
Qed.

(* ------------------------------------------------------------------ policy resolution = declarative minimum *)
Definition gmin (pols : list polattr) : N := fold_right (fun p m => N.max (pol_min p) m) PW_MFA_MIN pols.
Definition gcred (pols : list polattr) : N := fold_right (fun p m => N.max (pol_cred p) m) 0 pols.

Lemma fr_max : forall (f : polattr -> N) l a b,
  fold_right (fun p m => N.max (f p) m) (N.max a b) l = N.max a (fold_right (fun p m => N.max (f p) m) b l).
Proof. intros f l a b. induction l as [|p l IH]; cbn [fold_right]; [reflexivity | rewrite IH; lia]. Qed.
Lemma fold_pstep : forall pols m c,
  fold_left pstep pols (m, c) =
  (fold_right (fun p x => N.max (pol_min p) x) m pols, fold_right (fun p x => N.max (pol_cred p) x) c pols).
Proof.
  induction pols as [|p t IH]; intros m c; cbn [fold_left fold_right]; [reflexivity|].
  unfold pstep at 2. cbn [fst snd]. rewrite !ifmax, IH.
  rewrite (N.max_comm m), (N.max_comm c), !fr_max. reflexivity.
Qed.
Lemma existsb_cred : forall pols, existsb (fun p => CT_MFA <=? pol_cred p) pols = (CT_MFA <=? gcred pols).
Proof.
  induction pols as [|p t IH]; [reflexivity|]. cbn [existsb]. unfold gcred in *. cbn [fold_right]. rewrite IH.
  destruct (N.leb_spec CT_MFA (pol_cred p)), (N.leb_spec CT_MFA (fold_right (fun p m => N.max (pol_cred p) m) 0 t)),
    (N.leb_spec CT_MFA (N.max (pol_cred p) (fold_right (fun p m => N.max (pol_cred p) m) 0 t))); try reflexivity; lia.
Qed.
Lemma gmin_ge : forall pols, PW_MFA_MIN <= gmin pols.
Proof. induction pols as [|p t IH]; unfold gmin in *; cbn [fold_right]; [lia | lia]. Qed.
(* the code's fold + NIST bump computes exactly the declarative effective minimum *)
Lemma resolve_min : forall pols, fst (resolve pols) = spec_min pols.
Proof.
  intro pols. unfold resolve, spec_min. rewrite fold_pstep, existsb_cred. cbn [fst snd].
  fold (gmin pols) (gcred pols). pose proof (gmin_ge pols) as Hg. unfold PW_MFA_MIN, PW_SFA_MIN, CT_MFA in *.
  destruct (N.ltb_spec (gcred pols) 10), (N.ltb_spec (gmin pols) 15), (N.leb_spec 10 (gcred pols)); cbn [andb fst]; lia.
Qed.
Lemma resolve_cred : forall pols, snd (resolve pols) = gcred pols.
Proof.
  intro pols. unfold resolve. rewrite fold_pstep. cbn [fst snd]. fold (gcred pols).
  destruct ((gcred pols <? CT_MFA) && _); reflexivity.
Qed.
Lemma spec_min_ge : forall pols, PW_MFA_MIN <= spec_min pols.
Proof. intro pols. unfold spec_min. fold (gmin pols). pose proof (gmin_ge pols). lia. Qed.
(* every group minimum is respected *)
Lemma spec_min_ge_group : forall pols p, In p pols -> pol_min p <= spec_min pols.
Proof.
  intros pols p Hin. unfold spec_min. fold (gmin pols).
  assert (pol_min p <= gmin pols).
  { unfold gmin. induction pols as [|q t IH]; [contradiction|]. cbn [fold_right]. destruct Hin as [->|Hin]; [lia|].
    specialize (IH Hin). lia. }
  lia.
Qed.
(* single factor accounts need 15 *)
Lemma spec_min_sfa : forall pols, (forall p, In p pols -> pol_cred p < CT_MFA) -> PW_SFA_MIN <= spec_min pols.
Proof.
  intros pols H. unfold spec_min.
  assert (E : existsb (fun p => CT_MFA <=? pol_cred p) pols = false).
  { apply not_true_is_false. intro Hx. apply existsb_exists in Hx as [p [Hin Hp]]. apply N.leb_le in Hp.
    specialize (H p Hin). lia. }
  rewrite E. lia.
Qed.

(* ------------------------------------------------------------------ the property as a Prop *)
Definition badlist_hit (bad : list str) (s : str) : Prop := exists b, In b bad /\ lower b = lower s.
Definition ok_pw (cf : cfg) (pw : pwd) : Prop :=
  spec_min (c_pols cf) <= graphemes pw /\ graphemes pw <= PW_MAX /\ ~ badlist_hit (c_bad cf) (flat pw).

Lemma badlisted_spec : forall bad s, badlisted bad s = true <-> badlist_hit bad s.
Proof.
  intros bad s. unfold badlisted, badlist_hit. rewrite existsb_exists. split; intros [b [Hin H]]; exists b; split; try exact Hin.
  - apply str_eqb_eq. exact H.
  - apply str_eqb_eq. exact H.
Qed.
Lemma ok_pwb_spec : forall cf pw, ok_pwb cf pw = true <-> ok_pw cf pw.
Proof.
  intros cf pw. unfold ok_pwb, ok_pw. fold (badlisted (c_bad cf) (flat pw)).
  rewrite !andb_true_iff, negb_true_iff, !N.leb_le. split.
  - intros [[H1 H2] H3]. repeat split; try assumption. intro Hb. apply badlisted_spec in Hb. congruence.
  - intros [H1 [H2 H3]]. repeat split; try assumption. apply not_true_is_false. intro Hb. apply H3. apply badlisted_spec. exact Hb.
Qed.

(* ------------------------------------------------------------------ the session gate: accept iff *)
Definition cu_accepts (pmin pmax : N) (bad rel : list str) (radius : option str) (zx : N) (pw : pwd) : Prop :=
  pmin <= graphemes pw /\ graphemes pw <= pmax /\
  (forall r, radius = Some r -> containsb (flat pw) r = false) /\
  (forall r, In r rel -> containsb (flat pw) r = false) /\
  4 <= zx /\ ~ badlist_hit bad (flat pw).

Lemma quality_cu_ok_iff : forall pmin pmax bad rel radius zx pw,
  quality_cu pmin pmax bad rel radius zx pw = ROk <-> cu_accepts pmin pmax bad rel radius zx pw.
Proof.
  intros pmin pmax bad rel radius zx pw. unfold quality_cu, cu_accepts. split.
  - intro H.
    destruct (N.ltb_spec (graphemes pw) pmin) as [|H1]; [discriminate|].
    destruct (N.ltb_spec pmax (graphemes pw)) as [|H2]; [discriminate|].
    destruct (match radius with Some r => containsb (flat pw) r | None => false end) eqn:H3; [discriminate|].
    destruct (existsb (containsb (flat pw)) rel) eqn:H4; [discriminate|].
    destruct (N.ltb_spec zx 4) as [|H5]; [discriminate|].
    destruct (badlisted bad (flat pw)) eqn:H6; [discriminate|].
    repeat split; try assumption.
    + intros r ->. exact H3.
    + intros r Hin. apply not_true_is_false. intro Hc.
      assert (existsb (containsb (flat pw)) rel = true) by (apply existsb_exists; exists r; split; assumption). congruence.
    + intro Hb. apply badlisted_spec in Hb. congruence.
  - intros [H1 [H2 [H3 [H4 [H5 H6]]]]].
    destruct (N.ltb_spec (graphemes pw) pmin); [lia|].
    destruct (N.ltb_spec pmax (graphemes pw)); [lia|].
    assert (E3 : match radius with Some r => containsb (flat pw) r | None => false end = false).
    { destruct radius as [r|]; [apply H3; reflexivity | reflexivity]. }
    rewrite E3.
    assert (E4 : existsb (containsb (flat pw)) rel = false).
    { apply not_true_is_false. intro Hx. apply existsb_exists in Hx as [r [Hin Hc]]. rewrite (H4 r Hin) in Hc. discriminate. }
    rewrite E4.
    destruct (N.ltb_spec zx 4); [lia|].
    assert (E6 : badlisted bad (flat pw) = false).
    { apply not_true_is_false. intro Hx. apply H6. apply badlisted_spec. exact Hx. }
    rewrite E6. reflexivity.
Qed.

Lemma cu_quality_ok : forall cf zx pw, cu_quality cf zx pw = ROk -> ok_pw cf pw.
Proof.
  intros cf zx pw H. unfold cu_quality in H. apply quality_cu_ok_iff in H as [H1 [H2 [_ [_ [_ H6]]]]].
  rewrite resolve_min in H1. repeat split; assumption.
Qed.

(* ------------------------------------------------------------------ the POSIX gate *)
Lemma quality_posix_ok : forall fixed pmin bad zx pw,
  quality_posix_gen fixed pmin bad zx pw = ROk ->
  (if fixed then N.max pmin PW_SFA_MIN <= graphemes pw /\ graphemes pw <= PW_MAX
   else PW_SFA_MIN <= bytes pw /\ bytes pw <= PW_MAX) /\ 4 <= zx /\ ~ badlist_hit bad (flat pw).
Proof.
  intros fixed pmin bad zx pw H. unfold quality_posix_gen in H.
  destruct (N.ltb_spec (if fixed then graphemes pw else bytes pw) (if fixed then N.max pmin PW_SFA_MIN else PW_SFA_MIN)) as [|H1]; [discriminate|].
  destruct (N.ltb_spec PW_MAX (if fixed then graphemes pw else bytes pw)) as [|H2]; [discriminate|].
  destruct (N.ltb_spec zx 3); [discriminate|].
  destruct (N.ltb_spec zx 4) as [|H4]; [discriminate|].
  destruct (badlisted bad (flat pw)) eqn:H5; [discriminate|].
  split; [destruct fixed; split; assumption|]. split; [assumption|].
  intro Hb. apply badlisted_spec in Hb. congruence.
Qed.

(* with the fix, the POSIX path satisfies the property in full *)
Lemma posix_fixed_ok : forall cf pw zx, posix_op_gen true cf pw zx = ROk -> ok_pw cf pw.
Proof.
  intros cf pw zx H. unfold posix_op_gen in H. destruct (c_posix cf); cbn [negb] in H; [|discriminate].
  apply quality_posix_ok in H as [[H1 H2] [_ H3]]. rewrite resolve_min in H1.
  repeat split; try assumption. lia.
Qed.
(* the pre-fix tree: what the POSIX path does guarantee *)
Lemma posix_unfixed_partial : forall cf pw zx,
  pwd_wf pw = true -> posix_op_gen false cf pw zx = ROk ->
  c_posix cf = true /\ PW_SFA_MIN <= bytes pw /\ bytes pw <= PW_MAX /\ graphemes pw <= PW_MAX /\
  ~ badlist_hit (c_bad cf) (flat pw) /\ 4 <= zx /\
  (spec_min (c_pols cf) <= graphemes pw -> ok_pw cf pw).
Proof.
  intros cf pw zx Hwf H. unfold posix_op_gen in H. destruct (c_posix cf); cbn [negb] in H; [|discriminate].
  apply quality_posix_ok in H as [[H1 H2] [H4 H3]]. pose proof (graphemes_le_bytes pw Hwf) as Hg.
  repeat split; try assumption; try lia.
Qed.

(* ------------------------------------------------------------------ sessions: only allowed passwords reach the session state *)
Lemma nth_error_mid : forall (pre : list sop) o t, nth_error (pre ++ o :: t) (length pre) = Some o.
Proof. induction pre as [|x pre IH]; intros o t; [reflexivity | exact (IH o t)]. Qed.

Lemma stored_ok_zero : forall cf ops b, stored_ok cf ops b 0 = true.
Proof. reflexivity. Qed.

Lemma stored_ok_mid : forall cf pre o t primary,
  (match o with
   | SSetPrimary pw _ => primary && ok_pwb cf pw
   | SSetUnix pw _ => negb primary && ok_pwb cf pw
   | SCheck _ _ => false end) = true ->
  stored_ok cf (pre ++ o :: t) primary (N.of_nat (length pre) + 1) = true.
Proof.
  intros cf pre o t primary H. unfold stored_ok.
  destruct (N.eqb_spec (N.of_nat (length pre) + 1) 0) as [E|_]; [lia|].
  replace (N.to_nat (N.of_nat (length pre) + 1 - 1)) with (length pre) by lia.
  rewrite nth_error_mid. exact H.
Qed.

Lemma run_from_inv : forall cf ops pre sp0 su0 rs i sp su,
  run_from cf (N.of_nat (length pre), sp0, su0) ops = (rs, (i, sp, su)) ->
  stored_ok cf (pre ++ ops) true sp0 = true -> stored_ok cf (pre ++ ops) false su0 = true ->
  stored_ok cf (pre ++ ops) true sp = true /\ stored_ok cf (pre ++ ops) false su = true /\
  accepted_ok cf ops rs = true /\ length rs = length ops /\ i = N.of_nat (length (pre ++ ops)).
Proof.
  intros cf ops. induction ops as [|o t IH]; intros pre sp0 su0 rs i sp su H Hp Hu.
  - cbn [run_from] in H. injection H as <- <- <- <-. rewrite app_nil_r in *. repeat split; assumption.
  - cbn [run_from] in H.
    destruct (sess_step cf (N.of_nat (length pre), sp0, su0) o) as [r st'] eqn:Es.
    destruct (run_from cf st' t) as [rs' st''] eqn:Er.
    injection H as <- ->.
    assert (Hlen : N.of_nat (length pre) + 1 = N.of_nat (length (pre ++ [o]))).
    { rewrite app_length. cbn [length]. lia. }
    assert (Happ : pre ++ o :: t = (pre ++ [o]) ++ t) by (rewrite <- app_assoc; reflexivity).
    unfold sess_step in Es.
    destruct o as [pw zx | pw zx | pw zx].
    + (* set primary *)
      destruct (CT_MFA <? snd (resolve (c_pols cf))).
      * injection Es as <- <-. rewrite Hlen in Er. rewrite Happ in Hp, Hu |- *.
        destruct (IH _ _ _ _ _ _ _ Er Hp Hu) as [A [B [C [D E]]]].
        refine (conj A (conj B (conj _ (conj _ E)))); cbn [accepted_ok is_ok length]; [exact C | lia].
      * injection Es as <- <-.
        destruct (is_ok (cu_quality cf zx pw)) eqn:Eok.
        -- assert (Hnew : stored_ok cf (pre ++ SSetPrimary pw zx :: t) true (N.of_nat (length pre) + 1) = true).
           { apply stored_ok_mid. cbn [andb]. apply ok_pwb_spec. apply (cu_quality_ok cf zx). apply is_ok_eq. exact Eok. }
           rewrite Hlen in Er. rewrite Happ in Hnew, Hu |- *. rewrite Hlen in Hnew.
           destruct (IH _ _ _ _ _ _ _ Er Hnew Hu) as [A [B [C [D E]]]].
           refine (conj A (conj B (conj _ (conj _ E)))); cbn [accepted_ok length sop_pw]; [|lia].
           rewrite Eok, C. rewrite andb_true_r. apply ok_pwb_spec. apply (cu_quality_ok cf zx). apply is_ok_eq. exact Eok.
        -- rewrite Hlen in Er. rewrite Happ in Hp, Hu |- *.
           destruct (IH _ _ _ _ _ _ _ Er Hp Hu) as [A [B [C [D E]]]].
           refine (conj A (conj B (conj _ (conj _ E)))); cbn [accepted_ok length sop_pw]; [|lia]. rewrite Eok. exact C.
    + (* set unix *)
      destruct (negb (c_posix cf)).
      * injection Es as <- <-. rewrite Hlen in Er. rewrite Happ in Hp, Hu |- *.
        destruct (IH _ _ _ _ _ _ _ Er Hp Hu) as [A [B [C [D E]]]].
        refine (conj A (conj B (conj _ (conj _ E)))); cbn [accepted_ok is_ok length]; [exact C | lia].
      * injection Es as <- <-.
        destruct (is_ok (cu_quality cf zx pw)) eqn:Eok.
        -- assert (Hnew : stored_ok cf (pre ++ SSetUnix pw zx :: t) false (N.of_nat (length pre) + 1) = true).
           { apply stored_ok_mid. cbn [negb andb]. apply ok_pwb_spec. apply (cu_quality_ok cf zx). apply is_ok_eq. exact Eok. }
           rewrite Hlen in Er. rewrite Happ in Hnew, Hp |- *. rewrite Hlen in Hnew.
           destruct (IH _ _ _ _ _ _ _ Er Hp Hnew) as [A [B [C [D E]]]].
           refine (conj A (conj B (conj _ (conj _ E)))); cbn [accepted_ok length sop_pw]; [|lia].
           rewrite Eok, C. rewrite andb_true_r. apply ok_pwb_spec. apply (cu_quality_ok cf zx). apply is_ok_eq. exact Eok.
        -- rewrite Hlen in Er. rewrite Happ in Hp, Hu |- *.
           destruct (IH _ _ _ _ _ _ _ Er Hp Hu) as [A [B [C [D E]]]].
           refine (conj A (conj B (conj _ (conj _ E)))); cbn [accepted_ok length sop_pw]; [|lia]. rewrite Eok. exact C.
    + (* check only *)
      injection Es as <- <-. rewrite Hlen in Er. rewrite Happ in Hp, Hu |- *.
      destruct (IH _ _ _ _ _ _ _ Er Hp Hu) as [A [B [C [D E]]]].
      refine (conj A (conj B (conj _ (conj _ E)))); cbn [accepted_ok length sop_pw]; [|lia].
      rewrite C, andb_true_r. destruct (is_ok (cu_quality cf zx pw)) eqn:Eok; [|reflexivity].
      apply ok_pwb_spec. apply (cu_quality_ok cf zx). apply is_ok_eq. exact Eok.
Qed.

Lemma run_sess_ok : forall cf ops rs cm stp stu,
  run_sess cf ops = (rs, cm, stp, stu) ->
  stored_ok cf ops true stp = true /\ stored_ok cf ops false stu = true /\ accepted_ok cf ops rs = true /\
  length rs = length ops.
Proof.
  intros cf ops rs cm stp stu H. unfold run_sess in H.
  destruct (run_from cf (0, 0, 0) ops) as [rs' [[i sp] su]] eqn:Er.
  destruct (run_from_inv cf ops [] 0 0 rs' i sp su Er eq_refl eq_refl) as [A [B [C [D _]]]]. cbn [app] in A, B.
  destruct (can_commit cf); injection H as <- <- <- <-; repeat split; try assumption; reflexivity.
Qed.

(* Prop reading of stored_ok / accepted_ok *)
Definition stored_from (cf : cfg) (ops : list sop) (primary : bool) (k : N) : Prop :=
  k = 0 \/ exists pw zx, nth_error ops (N.to_nat (k - 1)) = Some ((if primary then SSetPrimary else SSetUnix) pw zx) /\ ok_pw cf pw.
Lemma stored_ok_spec : forall cf ops primary k, stored_ok cf ops primary k = true -> stored_from cf ops primary k.
Proof.
  intros cf ops primary k H. unfold stored_ok in H. destruct (N.eqb_spec k 0) as [Hk0|Hk]; [left; exact Hk0|]. right.
  destruct (nth_error ops (N.to_nat (k - 1))) as [[pw zx|pw zx|pw zx]|]; try discriminate;
    apply andb_true_iff in H as [H1 H2]; destruct primary; try discriminate; exists pw, zx; split; try reflexivity; apply ok_pwb_spec; exact H2.
Qed.
Definition accepted_all (cf : cfg) (ops : list sop) (rs : list res) : Prop :=
  forall n o, nth_error ops n = Some o -> nth_error rs n = Some ROk -> ok_pw cf (sop_pw o).
Lemma accepted_ok_spec : forall cf ops rs, accepted_ok cf ops rs = true -> accepted_all cf ops rs.
Proof.
  intros cf. induction ops as [|o t IH]; intros rs H n o' Ho Hr.
  - destruct n; discriminate.
  - destruct rs as [|r rs']; [destruct n; discriminate|]. cbn [accepted_ok] in H. apply andb_true_iff in H as [H1 H2].
    destruct n as [|n]; cbn [nth_error] in Ho, Hr.
    + injection Ho as <-. injection Hr as ->. cbn [is_ok] in H1. apply ok_pwb_spec. exact H1.
    + exact (IH rs' H2 n o' Ho Hr).
Qed.

(* ------------------------------------------------------------------ the whole statement, per tree variant *)
Definition C31_statement (fixed : bool) : Prop :=
  (forall cf pw zx, pwd_wf pw = true -> posix_op_gen fixed cf pw zx = ROk -> ok_pw cf pw) /\
  (forall cf ops rs cm stp stu, run_sess cf ops = (rs, cm, stp, stu) ->
     stored_from cf ops true stp /\ stored_from cf ops false stu /\ accepted_all cf ops rs).

Lemma sessions_ok : forall cf ops rs cm stp stu, run_sess cf ops = (rs, cm, stp, stu) ->
  stored_from cf ops true stp /\ stored_from cf ops false stu /\ accepted_all cf ops rs.
Proof.
  intros cf ops rs cm stp stu H. apply run_sess_ok in H as [A [B [C _]]].
  split; [apply stored_ok_spec; exact A|]. split; [apply stored_ok_spec; exact B | apply accepted_ok_spec; exact C].
Qed.

Lemma statement_fixed : C31_statement true.
Proof. split; [intros cf pw zx _ H; exact (posix_fixed_ok cf pw zx H) | exact sessions_ok]. Qed.

(* witnesses against the pre-fix tree *)
Definition w_cfg_policy30 : cfg := mkcfg [(Some 30, None); (None, None)] [] [] None true true.
Definition w_pw_18 : pwd := map (fun c => [c]) [101;105;75;55;111;104;118;105;101;52;65;101;112;104;57;69;105;120].
Definition w_cfg_default : cfg := mkcfg [(None, None)] [] [] None true true.
Definition w_pw_comb : pwd := map (fun c => [c; 769]) [107;113;122;118;119;120;106;112;103].

Lemma statement_unfixed_refuted : ~ C31_statement false.
Proof.
  intros [H _]. specialize (H w_cfg_policy30 w_pw_18 4 eq_refl eq_refl). destruct H as [H _].
  vm_compute in H. apply H. reflexivity.
Qed.
Lemma statement_unfixed_refuted_graphemes : ~ (forall cf pw zx, pwd_wf pw = true -> posix_op_gen false cf pw zx = ROk -> ok_pw cf pw).
Proof.
  intro H. specialize (H w_cfg_default w_pw_comb 4 eq_refl eq_refl). destruct H as [H _].
  vm_compute in H. apply H. reflexivity.
Qed.

(* KnownClass as a Prop *)
Definition KnownClass (cf : cfg) (pw : pwd) : Prop :=
  c_posix cf = true /\ PW_SFA_MIN <= bytes pw /\ graphemes pw < spec_min (c_pols cf).

Lemma statement_unfixed_partial :
  (forall cf pw zx, pwd_wf pw = true -> posix_op_gen false cf pw zx = ROk -> ~ KnownClass cf pw -> ok_pw cf pw) /\
  (forall cf ops rs cm stp stu, run_sess cf ops = (rs, cm, stp, stu) ->
     stored_from cf ops true stp /\ stored_from cf ops false stu /\ accepted_all cf ops rs).
Proof.
  split; [|exact sessions_ok]. intros cf pw zx Hwf H Hk.
  destruct (posix_unfixed_partial cf pw zx Hwf H) as [Hp [H1 [H2 [H3 [H4 [H5 H6]]]]]].
  apply H6. destruct (N.le_gt_cases (spec_min (c_pols cf)) (graphemes pw)) as [Hle|Hgt]; [exact Hle|].
  exfalso. apply Hk. repeat split; assumption.
Qed.

(* ------------------------------------------------------------------ bridge: agreement transfers the property *)
Lemma item_bridge : forall fixed cf it,
  item_agree_gen fixed cf it = true -> item_pcheck cf it || item_known_gen fixed cf it = true.
Proof.
  intros fixed cf it H. unfold item_agree_gen in H. apply andb_true_iff in H as [Hwf H].
  destruct it as [pw zx impl chg | ops impl commit stp stu].
  - apply andb_true_iff in H as [Hr Hc]. apply res_eqb_eq in Hr. apply N.eqb_eq in Hc. cbn [item_wf] in Hwf.
    cbn [item_pcheck item_known_gen]. rewrite <- Hr.
    destruct (is_ok (posix_op_gen fixed cf pw zx)) eqn:Eok.
    + apply is_ok_eq in Eok. subst chg. cbn [N.eqb]. change (1 =? 0) with false. change (1 =? 1) with true. cbn [andb].
      destruct fixed.
      * assert (Hok : ok_pwb cf pw = true) by (apply ok_pwb_spec; exact (posix_fixed_ok cf pw zx Eok)).
        rewrite Hok. reflexivity.
      * destruct (posix_unfixed_partial cf pw zx Hwf Eok) as [Hp [H1 [H2 [H3 [H4 [H5 H6]]]]]].
        unfold item_known_gen. cbn [negb andb]. rewrite Hp. cbn [andb].
        destruct (N.ltb_spec (graphemes pw) (spec_min (c_pols cf))) as [Hlt|Hge].
        -- assert (E : (PW_SFA_MIN <=? bytes pw) = true) by (apply N.leb_le; exact H1). rewrite E. apply orb_true_r.
        -- assert (Hok : ok_pwb cf pw = true) by (apply ok_pwb_spec; exact (H6 Hge)). rewrite Hok. reflexivity.
    + subst chg. change (0 =? 0) with true. reflexivity.
  - destruct (run_sess cf ops) as [[[rs cm] sp] su] eqn:Er.
    apply andb_true_iff in H as [H Hu]. apply andb_true_iff in H as [H Hp]. apply andb_true_iff in H as [Hrs Hcm].
    apply res_list_eqb_eq in Hrs. apply N.eqb_eq in Hp, Hu. subst.
    apply run_sess_ok in Er as [A [B [C _]]]. cbn [item_pcheck]. rewrite A, B, C. reflexivity.
Qed.

Lemma agree_implies_property_gen : forall fixed c,
  agree_gen fixed c = true -> known_gen fixed c = false -> pcheck c = true.
Proof.
  intros fixed c Ha Hk. destruct c as [cf items | l]; [|reflexivity]. cbn [agree_gen known_gen pcheck] in *.
  assert (Hall : forallb (fun it => item_pcheck cf it || item_known_gen fixed cf it) items = true).
  { apply forallb_forall. intros it Hin. apply item_bridge. rewrite forallb_forall in Ha. exact (Ha it Hin). }
  rewrite Hall, andb_true_r in Hk. apply negb_false_iff in Hk. exact Hk.
Qed.
(* on the fixed tree nothing is known: agreement alone gives the property *)
Lemma agree_implies_property_fixed : forall c, agree_gen true c = true -> pcheck c = true.
Proof.
  intros c Ha. destruct c as [cf items | l]; [|reflexivity]. cbn [agree_gen pcheck] in *.
  apply forallb_forall. intros it Hin. rewrite forallb_forall in Ha. pose proof (item_bridge true cf it (Ha it Hin)) as H.
  unfold item_known_gen in H. cbn [negb andb] in H. rewrite orb_false_r in H. exact H.
Qed.

(* pcheck means what it says *)
Lemma pcheck_sound_posix : forall cf pw zx impl chg items,
  pcheck (CGroup cf items) = true -> In (IPosix pw zx impl chg) items ->
  (impl = ROk -> ok_pw cf pw) /\ (chg <> 0 -> chg = 1 /\ ok_pw cf pw).
Proof.
  intros cf pw zx impl chg items H Hin. cbn [pcheck] in H. rewrite forallb_forall in H. specialize (H _ Hin).
  cbn [item_pcheck] in H. apply andb_true_iff in H as [H1 H2]. split.
  - intros ->. cbn [is_ok] in H1. apply ok_pwb_spec. exact H1.
  - intro Hc. destruct (N.eqb_spec chg 0) as [|_]; [contradiction|]. apply andb_true_iff in H2 as [Ha Hb].
    apply N.eqb_eq in Ha. split; [exact Ha | apply ok_pwb_spec; exact Hb].
Qed.
Lemma pcheck_sound_sess : forall cf ops impl commit stp stu items,
  pcheck (CGroup cf items) = true -> In (ISess ops impl commit stp stu) items ->
  stored_from cf ops true stp /\ stored_from cf ops false stu /\ accepted_all cf ops impl.
Proof.
  intros cf ops impl commit stp stu items H Hin. cbn [pcheck] in H. rewrite forallb_forall in H. specialize (H _ Hin).
  cbn [item_pcheck] in H. apply andb_true_iff in H as [H Hu]. apply andb_true_iff in H as [Ha Hp].
  split; [apply stored_ok_spec; exact Hp|]. split; [apply stored_ok_spec; exact Hu | apply accepted_ok_spec; exact Ha].
Qed.
