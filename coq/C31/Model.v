(* KV.C31.Model — password quality gates of every password-setting path.
   Transcribed from /repo/server/lib/src:
     idm/credupdatesession.rs  check_password_quality (1879), credential_primary_set_password (2092),
                               credential_unix_set_password (2723), credential_check_password_quality (2053),
                               create_credupdate_session (802, credential states), can_commit (210),
                               commit_credential_update (1537)
     idm/server.rs             IdmServerProxyWriteTransaction::check_password_quality (1801),
                               set_unix_account_password (1938)
     idm/accountpolicy.rs      entry -> AccountPolicy defaults (pw_min_length, credential_policy) and
                               ResolvedAccountPolicy::fold_from restricted to these two fields
     utils.rs                  utf8_len (grapheme clusters)
   Executable definitions only.

   Strings are lists of Unicode scalar values; a password is given as its list of extended grapheme
   clusters (each a non-empty list of scalar values), so that `graphemes` is the length of the outer
   list and `bytes` is the UTF-8 length.  That this segmentation, the byte length and the lowercase
   mapping are what the Rust code computes is part of the correspondence (CLen cases).
   zxcvbn is an oracle: its score 0..4 on (password, related inputs) is an input of every request. *)
From Coq Require Import List NArith Bool.
Import ListNotations.
Open Scope N_scope.

(* true  = the current tree: /repo commit cec32bc ("fix: the POSIX password path must enforce the account's
           password length policy"): POSIX path counts graphemes against max(policy minimum, 15) .. policy maximum;
   false = the tree before that commit (POSIX path: fixed 15..128 BYTES, account policy ignored), kept only for
           the C31_prefix_* documentation theorems *)
Definition tree_fixed : bool := true.

(* ------------------------------------------------------------------ strings *)
Definition str := list N.
Definition pwd := list str.
Definition flat (p : pwd) : str := concat p.
Definition graphemes (p : pwd) : N := N.of_nat (length p).
Definition cp_bytes (c : N) : N :=
  if c <? 128 then 1 else if c <? 2048 then 2 else if c <? 65536 then 3 else 4.
Fixpoint str_bytes (s : str) : N :=
  match s with [] => 0 | c :: t => cp_bytes c + str_bytes t end.
Definition bytes (p : pwd) : N := str_bytes (flat p).

(* str::to_lowercase on the scripts the harness draws from: ASCII, Latin-1, Greek (capital sigma,
   whose mapping depends on the position in the word, is never generated), Cyrillic, and the
   one-to-two mapping of U+0130 *)
Definition between (lo c hi : N) : bool := (lo <=? c) && (c <=? hi).
Definition lower_cp (c : N) : list N :=
  if between 65 c 90 then [c + 32]
  else if between 192 c 222 && negb (c =? 215) then [c + 32]
  else if c =? 304 then [105; 775]
  else if between 913 c 937 && negb (c =? 930) then [c + 32]
  else if between 1040 c 1071 then [c + 32]
  else if between 1024 c 1039 then [c + 80]
  else [c].
Definition lower (s : str) : str := flat_map lower_cp s.

Fixpoint str_eqb (a b : str) : bool :=
  match a, b with
  | [], [] => true
  | x :: a', y :: b' => (x =? y) && str_eqb a' b'
  | _, _ => false
  end.
Fixpoint prefixb (n h : str) : bool :=
  match n, h with
  | [], _ => true
  | a :: n', b :: h' => (a =? b) && prefixb n' h'
  | _ :: _, [] => false
  end.
(* str::contains *)
Fixpoint containsb (h n : str) : bool :=
  prefixb n h || match h with [] => false | _ :: t => containsb t n end.
(* HashSet<String>::contains on the stored badlist; the stored values are Value::new_iutf8 = lowercased *)
Definition badlisted (bad : list str) (s : str) : bool :=
  existsb (fun b => str_eqb (lower b) (lower s)) bad.

(* ------------------------------------------------------------------ results *)
Inductive res :=
| ROk
| RTooShort (n : N)     (* PasswordQuality [TooShort n] *)
| RTooLong (n : N)      (* PasswordQuality [TooLong n] *)
| RReuse                (* PasswordQuality [DontReusePasswords] *)
| RRelated              (* PasswordQuality [NamesAndSurnames.., AvoidDatesAndYears..] *)
| RWeak                 (* PasswordQuality <any other feedback list> *)
| RBadListed            (* PasswordQuality [BadListed] *)
| ROther (code : N).    (* 1 AccessDenied, 2 InvalidState, 3 MissingClass, 4 CU0004SessionInconsistent, 99 other *)
Definition E_ACCESS : N := 1.
Definition E_INVALID_STATE : N := 2.
Definition E_MISSING_CLASS : N := 3.
Definition E_CU0004 : N := 4.

Definition res_eqb (a b : res) : bool :=
  match a, b with
  | ROk, ROk | RReuse, RReuse | RRelated, RRelated | RWeak, RWeak | RBadListed, RBadListed => true
  | RTooShort x, RTooShort y | RTooLong x, RTooLong y | ROther x, ROther y => x =? y
  | _, _ => false
  end.
Definition is_ok (r : res) : bool := match r with ROk => true | _ => false end.

(* ------------------------------------------------------------------ account policy *)
Definition PW_MFA_MIN : N := 10.   (* PW_MFA_MIN_LENGTH *)
Definition PW_SFA_MIN : N := 15.   (* PW_SFA_MIN_LENGTH_NIST *)
Definition PW_MAX : N := 128.      (* PW_MAX_LENGTH_NIST *)
Definition CT_MFA : N := 10.       (* CredentialType::Mfa as u16; Any = 0 < External = 5 < Mfa = 10 < Passkey = 20 .. *)
(* one account-policy group the account is a member of: (auth_password_minimum_length, credential_type_minimum) *)
Definition polattr := (option N * option N)%type.
Definition dflt (o : option N) (d : N) : N := match o with Some x => x | None => d end.
Definition pol_min (p : polattr) : N := dflt (fst p) PW_MFA_MIN.
Definition pol_cred (p : polattr) : N := dflt (snd p) 0.
(* fold_from, fields pw_min_length and credential_policy *)
Definition pstep (a : N * N) (p : polattr) : N * N :=
  (if fst a <? pol_min p then pol_min p else fst a,
   if snd a <? pol_cred p then pol_cred p else snd a).
Definition resolve (pols : list polattr) : N * N :=
  let a := fold_left pstep pols (PW_MFA_MIN, 0) in
  if (snd a <? CT_MFA) && (fst a <? PW_SFA_MIN) then (PW_SFA_MIN, snd a) else a.

(* ------------------------------------------------------------------ configuration *)
Record cfg := mkcfg {
  c_pols : list polattr;     (* the account-policy groups of the account *)
  c_bad : list str;          (* badlist values as submitted by the administrator *)
  c_rel : list str;          (* Account::related_inputs *)
  c_radius : option str;     (* the account's RADIUS secret *)
  c_posix : bool;            (* the account has the POSIX extension *)
  c_mfa : bool               (* the primary credential the account starts with carries a TOTP *)
}.

(* ------------------------------------------------------------------ the two quality gates *)
(* IdmServerCredUpdateTransaction::check_password_quality *)
Definition quality_cu (pmin pmax : N) (bad rel : list str) (radius : option str) (zx : N) (pw : pwd) : res :=
  let g := graphemes pw in
  let s := flat pw in
  if g <? pmin then RTooShort pmin
  else if pmax <? g then RTooLong pmax
  else if match radius with Some r => containsb s r | None => false end then RReuse
  else if existsb (containsb s) rel then RRelated
  else if zx <? 4 then RWeak
  else if badlisted bad s then RBadListed
  else ROk.

(* IdmServerProxyWriteTransaction::check_password_quality; zxcvbn gives no feedback at score 3 *)
Definition quality_posix_gen (fixed : bool) (pmin : N) (bad : list str) (zx : N) (pw : pwd) : res :=
  let s := flat pw in
  let m := if fixed then N.max pmin PW_SFA_MIN else PW_SFA_MIN in
  let len := if fixed then graphemes pw else bytes pw in
  if len <? m then RTooShort m
  else if PW_MAX <? len then RTooLong PW_MAX
  else if zx <? 3 then RBadListed
  else if zx <? 4 then ROther E_INVALID_STATE
  else if badlisted bad s then RBadListed
  else ROk.

(* set_unix_account_password by the account itself: result and whether unix_password is replaced *)
Definition posix_op_gen (fixed : bool) (cf : cfg) (pw : pwd) (zx : N) : res :=
  if negb (c_posix cf) then ROther E_MISSING_CLASS
  else quality_posix_gen fixed (fst (resolve (c_pols cf))) (c_bad cf) zx pw.

(* ------------------------------------------------------------------ credential update sessions *)
Inductive sop :=
| SSetPrimary (pw : pwd) (zx : N)    (* credential_primary_set_password *)
| SSetUnix (pw : pwd) (zx : N)       (* credential_unix_set_password *)
| SCheck (pw : pwd) (zx : N).        (* credential_check_password_quality *)
Definition sop_pw (o : sop) : pwd :=
  match o with SSetPrimary p _ | SSetUnix p _ | SCheck p _ => p end.

Definition cu_quality (cf : cfg) (zx : N) (pw : pwd) : res :=
  quality_cu (fst (resolve (c_pols cf))) PW_MAX (c_bad cf) (c_rel cf) (c_radius cf) zx pw.

(* session state: which request (1-based, 0 = none) set the session's primary / unix password *)
Definition sess_step (cf : cfg) (st : N * N * N) (o : sop) : res * (N * N * N) :=
  let '(i, sp, su) := st in
  let i' := i + 1 in
  match o with
  | SSetPrimary pw zx =>
      (* primary_state is Modifiable only if the credential policy is at most Mfa *)
      if CT_MFA <? snd (resolve (c_pols cf)) then (ROther E_ACCESS, (i', sp, su))
      else let r := cu_quality cf zx pw in (r, (i', if is_ok r then i' else sp, su))
  | SSetUnix pw zx =>
      if negb (c_posix cf) then (ROther E_ACCESS, (i', sp, su))
      else let r := cu_quality cf zx pw in (r, (i', sp, if is_ok r then i' else su))
  | SCheck pw zx => (cu_quality cf zx pw, (i', sp, su))
  end.
Fixpoint run_from (cf : cfg) (st : N * N * N) (ops : list sop) : list res * (N * N * N) :=
  match ops with
  | [] => ([], st)
  | o :: t => let '(r, st') := sess_step cf st o in
              let '(rs, st'') := run_from cf st' t in (r :: rs, st'')
  end.
(* can_commit for an account that holds a primary password credential and no passkeys *)
Definition can_commit (cf : cfg) : bool :=
  let cred := snd (resolve (c_pols cf)) in
  if cred <? 5 then true                  (* Any *)
  else if cred <=? CT_MFA then c_mfa cf   (* External | Mfa: the primary must be MFA; set_password keeps the TOTP *)
  else false.                             (* primary is dropped (PolicyDeny) and no passkey exists: NoValidCredentials *)
(* a whole session followed by commit_credential_update:
   (results, commit error code (0 = Ok), stored primary, stored unix) — 0 = the stored credential is unchanged,
   k = it now verifies the password of request k *)
Definition run_sess (cf : cfg) (ops : list sop) : list res * N * N * N :=
  let '(rs, (_, sp, su)) := run_from cf (0, 0, 0) ops in
  if can_commit cf then (rs, 0, sp, su) else (rs, E_CU0004, 0, 0).

(* ------------------------------------------------------------------ the property, executable (spec side) *)
(* the account's effective minimum, declaratively: the largest group minimum (groups that set none count
   as 10), and at least 15 unless some group demands MFA *)
Definition spec_min (pols : list polattr) : N :=
  N.max (fold_right (fun p m => N.max (pol_min p) m) PW_MFA_MIN pols)
        (if existsb (fun p => CT_MFA <=? pol_cred p) pols then PW_MFA_MIN else PW_SFA_MIN).
(* the password may be stored for this account *)
Definition ok_pwb (cf : cfg) (pw : pwd) : bool :=
  (spec_min (c_pols cf) <=? graphemes pw) && (graphemes pw <=? PW_MAX)
  && negb (existsb (fun b => str_eqb (lower b) (lower (flat pw))) (c_bad cf)).

(* ------------------------------------------------------------------ cases *)
Inductive item :=
(* set_unix_account_password: implementation result; chg = 0 unix_password unchanged, 1 replaced and verifies pw,
   2 replaced by something else *)
| IPosix (pw : pwd) (zx : N) (impl : res) (chg : N)
(* one session: requests, their results, commit error code, stored primary / unix afterwards *)
| ISess (ops : list sop) (impl : list res) (commit : N) (stp stu : N).
Inductive lenrec := LenRec (pw : pwd) (nbytes ngraph : N) (low : str).
Inductive case :=
| CGroup (cf : cfg) (items : list item)
| CLen (l : list lenrec).

Fixpoint res_list_eqb (a b : list res) : bool :=
  match a, b with
  | [], [] => true
  | x :: a', y :: b' => res_eqb x y && res_list_eqb a' b'
  | _, _ => false
  end.
Definition pwd_wf (p : pwd) : bool := forallb (fun c => match c with [] => false | _ => true end) p.
Definition item_wf (it : item) : bool :=
  match it with
  | IPosix pw _ _ _ => pwd_wf pw
  | ISess ops _ _ _ _ => forallb (fun o => pwd_wf (sop_pw o)) ops
  end.

Definition item_agree_gen (fixed : bool) (cf : cfg) (it : item) : bool :=
  item_wf it &&
  match it with
  | IPosix pw zx impl chg =>
      let r := posix_op_gen fixed cf pw zx in
      res_eqb r impl && (chg =? if is_ok r then 1 else 0)
  | ISess ops impl commit stp stu =>
      let '(rs, cm, sp, su) := run_sess cf ops in
      res_list_eqb rs impl && (cm =? commit) && (sp =? stp) && (su =? stu)
  end.

(* stored credential k must come from an accepted request of the right kind whose password is allowed *)
Definition stored_ok (cf : cfg) (ops : list sop) (primary : bool) (k : N) : bool :=
  if k =? 0 then true else
  match nth_error ops (N.to_nat (k - 1)) with
  | Some (SSetPrimary pw _) => primary && ok_pwb cf pw
  | Some (SSetUnix pw _) => negb primary && ok_pwb cf pw
  | _ => false
  end.
Fixpoint accepted_ok (cf : cfg) (ops : list sop) (rs : list res) : bool :=
  match ops, rs with
  | o :: ops', r :: rs' => (if is_ok r then ok_pwb cf (sop_pw o) else true) && accepted_ok cf ops' rs'
  | _, _ => true
  end.
Definition item_pcheck (cf : cfg) (it : item) : bool :=
  match it with
  | IPosix pw zx impl chg =>
      (if is_ok impl then ok_pwb cf pw else true) &&
      (if chg =? 0 then true else (chg =? 1) && ok_pwb cf pw)
  | ISess ops impl commit stp stu =>
      accepted_ok cf ops impl && stored_ok cf ops true stp && stored_ok cf ops false stu
  end.
(* KnownClass of the PRE-FIX tree (empty on the current tree): a POSIX password change that the fixed 15..128 byte window lets
   through although the password has fewer grapheme clusters than the account's effective minimum *)
Definition item_known_gen (fixed : bool) (cf : cfg) (it : item) : bool :=
  negb fixed &&
  match it with
  | IPosix pw zx impl chg =>
      c_posix cf && (PW_SFA_MIN <=? bytes pw) && (graphemes pw <? spec_min (c_pols cf))
  | ISess _ _ _ _ _ => false
  end.

Definition lenrec_agree (r : lenrec) : bool :=
  match r with LenRec pw nb ng low =>
    pwd_wf pw && (bytes pw =? nb) && (graphemes pw =? ng) && str_eqb (lower (flat pw)) low end.

Definition agree_gen (fixed : bool) (c : case) : bool :=
  match c with
  | CGroup cf items => forallb (item_agree_gen fixed cf) items
  | CLen l => forallb lenrec_agree l
  end.
Definition pcheck (c : case) : bool :=
  match c with
  | CGroup cf items => forallb (item_pcheck cf) items
  | CLen l => true
  end.
(* a group is in the known class when it fails and every failing item is in KnownClass *)
Definition known_gen (fixed : bool) (c : case) : bool :=
  match c with
  | CGroup cf items =>
      negb (forallb (item_pcheck cf) items) &&
      forallb (fun it => item_pcheck cf it || item_known_gen fixed cf it) items
  | CLen _ => false
  end.

Definition agree : case -> bool := agree_gen tree_fixed.
(* no known-finding class on the current tree (known_gen false is the class of the pre-fix tree) *)
Definition known (_ : case) : bool := false.
