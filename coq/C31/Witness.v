(* KV.C31.Witness — non-vacuity: concrete non-trivial values meet the hypotheses of the implication theorems. *)
From Coq Require Import List NArith Bool.
Import ListNotations.
Require Import KV.C31.Model KV.C31.Proofs.
Open Scope N_scope.

Definition asc (l : list N) : pwd := map (fun c => [c]) l.
(* "Tr7-kq9!zvWx2#Lm" (16), "Tr7-kq9!zvWx2#Lm+Qb8" (20) *)
Definition pw16 : pwd := asc [84;114;55;45;107;113;57;33;122;118;87;120;50;35;76;109].
Definition pw20 : pwd := asc [84;114;55;45;107;113;57;33;122;118;87;120;50;35;76;109;43;81;98;56].
(* two groups: minimum 18 and MFA-with-minimum-12; badlist entry submitted in upper case *)
Definition cfgw : cfg :=
  mkcfg [(Some 18, None); (Some 12, Some 10)] [map (fun c => if (97 <=? c) && (c <=? 122) then c - 32 else c) (flat pw20)]
        [[97;108;105;99;101]] (Some [115;101;99;114;101;116]) true true.
Definition cfgw_nobad : cfg := mkcfg [(Some 18, None); (Some 12, Some 10)] [] [[97;108;105;99;101]] None true true.

(* C31_effective_minimum: MFA group present, so no bump; largest group minimum wins *)
Example C31_witness_minimum : resolve (c_pols cfgw) = (18, 10) /\ spec_min (c_pols cfgw) = 18.
Proof. vm_compute. split; reflexivity. Qed.
Example C31_witness_minimum_sfa : resolve [(Some 12, Some 0); (None, None)] = (15, 0).
Proof. vm_compute. reflexivity. Qed.

(* C31_cu_sessions / C31_cu_accept_iff: a session that refuses a too-short, a badlisted (other case) and a
   related password, accepts one primary and one POSIX password, and stores exactly those *)
Example C31_witness_session :
  run_sess cfgw [SSetPrimary pw16 4; SSetUnix pw20 4; SSetPrimary (pw20 ++ asc [33]) 4; SCheck (asc [97;108;105;99;101] ++ pw20) 4;
                 SSetUnix (pw20 ++ asc [63;63]) 4; SSetPrimary (pw20 ++ asc [35]) 3]
  = ([RTooShort 18; RBadListed; ROk; RRelated; ROk; RWeak], 0, 3, 5).
Proof. vm_compute. reflexivity. Qed.
Example C31_witness_session_not_committed :
  run_sess (mkcfg [(None, Some 10)] [] [] None true false) [SSetPrimary pw16 4] = ([ROk], E_CU0004, 0, 0).
Proof. vm_compute. reflexivity. Qed.

(* C31_full_fixed_tree: hypothesis met (accepted) on the fixed variant; refused where the pre-fix tree accepts *)
Example C31_witness_posix_fixed :
  posix_op_gen true cfgw_nobad pw20 4 = ROk /\ posix_op_gen true cfgw_nobad pw16 4 = RTooShort 18 /\
  posix_op_gen false cfgw_nobad pw16 4 = ROk.
Proof. vm_compute. repeat split; reflexivity. Qed.
(* C31_prefix_partial: an accepted POSIX change outside KnownClass *)
Example C31_witness_prefix_posix_outside_class :
  posix_op_gen false cfgw_nobad pw20 4 = ROk /\ pwd_wf pw20 = true /\
  (graphemes pw20 <? spec_min (c_pols cfgw_nobad)) = false.
Proof. vm_compute. repeat split; reflexivity. Qed.
(* C31_prefix_refuted: the refuting inputs are accepted by the pre-fix POSIX path and lie in KnownClass *)
Example C31_witness_prefix_refuted :
  posix_op_gen false w_cfg_policy30 w_pw_18 4 = ROk /\ spec_min (c_pols w_cfg_policy30) = 30 /\ graphemes w_pw_18 = 18 /\
  posix_op_gen false w_cfg_default w_pw_comb 4 = ROk /\ graphemes w_pw_comb = 9 /\ bytes w_pw_comb = 27.
Proof. vm_compute. repeat split; reflexivity. Qed.

(* C31_prefix_agree_implies_property: a case that agrees, is not known, and is non-trivial (one stored, one refused) *)
Example C31_witness_prefix_agree :
  let c := CGroup cfgw_nobad
     [IPosix pw20 4 ROk 1; IPosix (asc [97;98;99]) 0 (RTooShort 15) 0;
      ISess [SSetUnix pw16 4; SSetPrimary pw20 4] [RTooShort 18; ROk] 0 2 0] in
  agree_gen false c = true /\ known_gen false c = false /\ pcheck c = true.
Proof. vm_compute. repeat split; reflexivity. Qed.
(* C31_agree_implies_property (current tree): a non-trivial agreeing case *)
Example C31_witness_agree :
  let c := CGroup cfgw_nobad
     [IPosix pw20 4 ROk 1; IPosix pw16 4 (RTooShort 18) 0;
      ISess [SSetUnix pw16 4; SSetPrimary pw20 4] [RTooShort 18; ROk] 0 2 0] in
  agree c = true /\ known c = false /\ pcheck c = true.
Proof. vm_compute. repeat split; reflexivity. Qed.
(* the known class is recognised on the pre-fix variant and is a model disagreement on the fixed variant *)
Example C31_witness_prefix_known :
  let c := CGroup w_cfg_policy30 [IPosix w_pw_18 4 ROk 1] in
  agree_gen false c = true /\ pcheck c = false /\ known_gen false c = true /\ agree_gen true c = false /\ known_gen true c = false.
Proof. vm_compute. repeat split; reflexivity. Qed.
(* string functions: U+0130 lowercases to two scalars; a ZWJ family is one cluster of 11 bytes *)
Example C31_witness_strings :
  lower [304; 201; 937; 1071; 1025; 223] = [105; 775; 233; 969; 1103; 1105; 223] /\
  bytes [[128104; 8205; 128105]; [101; 769]] = 14 /\ graphemes [[128104; 8205; 128105]; [101; 769]] = 2.
Proof. vm_compute. repeat split; reflexivity. Qed.
