(* KV.C43.Witness — concrete, non-trivial instances of the hypotheses of the C43 theorems
   (non-vacuity), by vm_compute. *)
From Coq Require Import String List NArith ZArith Bool.
Require Import KV.C29.Hash KV.C30.Prim.
Require KV.C30.Model.
Require Import KV.C43.Model KV.C43.Proofs KV.C43.Props.
Import ListNotations.
Open Scope N_scope.

Definition o1 := mkO true false.
(* a user whose stacked token is used for the first Password step, who then answers an MFA
   prompt, a device-grant message and a PIN set-up with one mismatch *)
Definition h1 : handler :=
  mkH (HOk tt) (HOk (str "alice")) (HOk (Some (str "hunter2")))
      [HOk (Some (str "123456")); HOk None;
       HOk None; HOk (Some (str "1111")); HOk (Some (str "2222")); HOk None;
       HOk (Some (str "4321")); HOk (Some (str "4321"))].
Definition script1 : list devent :=
  [DStep RPassword 7; DStep RMfaCode 7; DStep (RDevice 30) 8; DStep RMfaPollWait 8;
   DStep RSetupPin 9; DStep RSuccess 9; DStep RDenied 9].

(* C43_daemon_success_iff, both sides: a six-reply conversation ending in Success *)
Example C43_witness_daemon_success :
  handler_sane h1 = true /\
  r_out (auth_connected o1 h1 script1) = ORet PAM_SUCCESS /\
  r_read (auth_connected o1 h1 script1) = firstn 6 script1 /\
  r_reqs (auth_connected o1 h1 script1) =
    [QInit (str "alice"); QPassword (str "hunter2") 7; QMfaCode (str "123456") 7; QDevice 8;
     QMfaPoll 8; QSetupPin (str "4321") 9] /\
  r_conv (auth_connected o1 h1 script1) = [5; 7; 6; 3; 4; 6; 3; 4].
Proof. vm_compute. repeat split; reflexivity. Qed.

(* C43_daemon_faults_never_success: the same conversation with an undecodable frame, a wrong
   reply kind, an Error, a disconnect or a Denied in the middle: never success, although a
   Success reply follows in the script *)
Example C43_witness_daemon_faults :
  forallb (fun bad =>
    let s := [DStep RPassword 7; DStep RMfaCode 7; bad; DStep RSuccess 9] in
    is_fault bad && existsb (fun e => is_fault e) (r_read (auth_connected o1 h1 s)) &&
    outcome_eqb (r_out (auth_connected o1 h1 s)) (ORet PAM_AUTH_ERR))
    [DGarbage; DEof; DError; DOther 0; DPamStatus (Some true); DStep RDenied 7] = true /\
  r_out (auth_connected (mkO true true) h1 [DStep RPassword 7; DStep RUnknown 7; DStep RSuccess 7])
    = ORet PAM_IGNORE.
Proof. vm_compute. split; reflexivity. Qed.

(* C43_daemon_without_success_reply: early disconnects and a zero-second device grant *)
Example C43_witness_daemon_disconnect :
  existsb is_success [DStep RPassword 1; DStep RPin 1] = false /\
  r_out (auth_connected o1 h1 [DStep RPassword 1; DStep RPin 1]) = ORet PAM_AUTH_ERR /\
  r_out (auth_connected o1 h1 []) = ORet PAM_AUTH_ERR /\
  (* expires_in = 0: the next call fails before anything is sent; the Success is never read *)
  auth_connected o1 h1 [DStep (RDevice 0) 1; DStep RSuccess 1] =
    mkrun (ORet PAM_AUTH_ERR) [QInit (str "alice")] [7] [DStep (RDevice 0) 1].
Proof. vm_compute. repeat split; reflexivity. Qed.

(* handler errors at each call site end the run with that code *)
Example C43_witness_handler_errors :
  r_out (auth_connected o1 (mkH (HErr 19) (HOk []) (HOk None) []) script1) = ORet 19 /\
  r_out (auth_connected o1 (mkH (HOk tt) (HErr 9) (HOk None) []) script1) = ORet 9 /\
  r_out (auth_connected o1 (mkH (HOk tt) (HOk []) (HErr 4) []) script1) = ORet 4 /\
  r_out (auth_connected o1 (mkH (HOk tt) (HOk []) (HOk None) [HErr 30]) script1) = ORet 30 /\
  r_out (auth_connected o1 (mkH (HOk tt) (HOk []) (HOk None) []) script1) = ORet PAM_CONV_ERR /\
  r_out (auth_connected o1 (mkH (HOk tt) (HOk []) (HOk None) [HOk None]) script1) = ORet PAM_CRED_INSUFFICIENT.
Proof. vm_compute. repeat split; reflexivity. Qed.

(* ------------------------------------------------------------------ fallback *)
(* a sha256-crypt hash of "a" made by the sha-crypt crate (rounds=1000) *)
Definition hash_a : bytes := str "$5$rounds=1000$ppxHkvXTK5MIwYJa$WPtYduzN/uAN5rJJyICTeVv322EyddSk2leosnK95U/".
Definition h2 (pw : string) : handler := mkH (HOk tt) (HOk (str "dave")) (HOk (Some (str "decoy"))) [HOk (Some (str pw))].
Definition shadow2 (field : bytes) : list sent :=
  [mkS (str "bob") (str "!") None; mkS (str "dave") field (Some 20001%Z); mkS (str "dave") (str "*") None].
Definition users2 : list bytes := [str "bob"; str "dave"].
Definition day (d : Z) : Z := (d * 86400)%Z.

(* C43_fallback_success_iff (tree as it is), both sides, with the REAL Gallina sha256-crypt: right password on
   the last second before expiry; wrong password; first second of the expiry day *)
Example C43_witness_fallback_sha256 :
  handler_sane (h2 "a") = true /\
  r_out (auth_fallback_gen tree_fixed (mkO false false) (h2 "a") (day 20001 - 1)%Z users2 (shadow2 hash_a) [])
    = ORet PAM_SUCCESS /\
  fallback_legit (mkO false false) (h2 "a") (day 20001 - 1)%Z users2 (shadow2 hash_a) [] = true /\
  r_out (auth_fallback_gen tree_fixed (mkO false false) (h2 "b") (day 20001 - 1)%Z users2 (shadow2 hash_a) [])
    = ORet PAM_AUTH_ERR /\
  (* use_first_pass: the stacked token "decoy" is the password, the prompt is not used *)
  r_out (auth_fallback_gen tree_fixed (mkO true false) (h2 "a") (day 20001 - 1)%Z users2 (shadow2 hash_a) [])
    = ORet PAM_AUTH_ERR /\
  r_out (auth_fallback_gen tree_fixed (mkO false false) (h2 "a") (day 20001) users2 (shadow2 hash_a) [])
    = ORet PAM_ACCT_EXPIRED.
Proof. vm_compute. repeat split; reflexivity. Qed.

(* C43_locked_never / C43_unsupported_never: premises met by real-looking entries *)
Example C43_witness_locked :
  forallb (fun f =>
    match local_entry (h2 "a") users2 (shadow2 f) with
    | Some ent => negb (match hd_error (s_pw ent) with Some 36 => true | _ => false end)
    | None => false
    end &&
    outcome_eqb (r_out (auth_fallback_gen tree_fixed (mkO false false) (h2 "a") 0%Z users2 (shadow2 f) []))
                (ORet PAM_AUTH_ERR))
    [str "!" ++ hash_a; str "*" ++ hash_a; str "!"; str "*"; str "x"; []; str "!!"; str "*LK*"] = true /\
  forallb (fun f =>
    match local_entry (h2 "a") users2 (shadow2 f) with
    | Some ent => match classify (s_pw ent) with CInvalid => true | _ => false end
    | None => false
    end &&
    outcome_eqb (r_out (auth_fallback_gen tree_fixed (mkO false false) (h2 "a") 0%Z users2 (shadow2 f) []))
                (ORet PAM_AUTH_ERR))
    [str "$1$saltsalt$qjXMvbEw8oaL.CzflDtaK/"; str "$5"; str "$7$x"; str " $6$a$b"] = true.
Proof. vm_compute. split; reflexivity. Qed.

(* only the FIRST shadow entry of a name counts, and /etc/passwd must know the account *)
Example C43_witness_first_entry_and_passwd :
  r_out (auth_fallback_gen tree_fixed (mkO false false) (h2 "a") 0%Z users2
           [mkS (str "dave") (str "!") None; mkS (str "dave") hash_a None] []) = ORet PAM_AUTH_ERR /\
  r_out (auth_fallback_gen tree_fixed (mkO false false) (h2 "a") 0%Z [str "bob"] (shadow2 hash_a) [])
    = ORet PAM_USER_UNKNOWN /\
  r_out (auth_fallback_gen tree_fixed (mkO false true) (h2 "a") 0%Z users2 [] []) = ORet PAM_IGNORE.
Proof. vm_compute. repeat split; reflexivity. Qed.

(* yescrypt goes through the oracle table *)
Definition yh : bytes := str "$y$j9T$LdJMENpBABJJ3hIHjB1Bi.$GFxnbKnR8WaEdBMGMctf6JGMs56hU5dYcy6UrKGWr62".
Example C43_witness_yescrypt :
  r_out (auth_fallback_gen tree_fixed (mkO false false) (h2 "a") 0%Z users2 (shadow2 yh) [(yh, str "a")])
    = ORet PAM_SUCCESS /\
  r_out (auth_fallback_gen tree_fixed (mkO false false) (h2 "b") 0%Z users2 (shadow2 yh) [(yh, str "a")])
    = ORet PAM_AUTH_ERR /\
  r_out (auth_fallback_gen tree_fixed (mkO false false) (h2 "a") 0%Z users2 (shadow2 (removelast yh)) [(yh, str "a")])
    = ORet PAM_AUTH_ERR.
Proof. vm_compute. repeat split; reflexivity. Qed.

(* the originally pinned tree PANICKED on a $5$ field whose hash field does not decode (sha-crypt
   0.5.0 decode_sha256().unwrap()); with the guard of /repo 054a9cd (/verif/fixes/C43.patch) the
   module answers PAM_AUTH_ERR.  Either way: not a success.  The $6$ twin never panicked. *)
Example C43_witness_sha256_panic :
  let bad := str "$5$rounds=1000$saltsalt$***" in
  r_out (auth_fallback_gen false (mkO false false) (h2 "a") 0%Z users2 (shadow2 bad) []) = OPanic /\
  r_out (auth_fallback_gen true (mkO false false) (h2 "a") 0%Z users2 (shadow2 bad) []) = ORet PAM_AUTH_ERR /\
  r_out (auth_fallback_gen false (mkO false false) (h2 "a") 0%Z users2
           (shadow2 (str "$6$rounds=1000$saltsalt$***")) []) = ORet PAM_AUTH_ERR /\
  tree_fixed = true /\ field_guard bad = false /\ field_guard hash_a = true.
Proof. vm_compute. repeat split; reflexivity. Qed.

(* ------------------------------------------------------------------ acct_mgmt *)
Example C43_witness_acct :
  r_out (acct_mgmt o1 h1 (SDaemon [DPamStatus (Some true); DError]) 0%Z) = ORet PAM_SUCCESS /\
  r_out (acct_mgmt o1 h1 (SDaemon [DPamStatus (Some false)]) 0%Z) = ORet PAM_AUTH_ERR /\
  r_out (acct_mgmt o1 h1 (SDaemon [DPamStatus None]) 0%Z) = ORet PAM_USER_UNKNOWN /\
  r_out (acct_mgmt o1 h1 (SDaemon [DStep RSuccess 1]) 0%Z) = ORet PAM_IGNORE /\
  r_out (acct_mgmt o1 h1 (SDaemon [DEof]) 0%Z) = ORet PAM_IGNORE /\
  r_out (acct_mgmt o1 h1 (SDaemon []) 0%Z) = ORet PAM_IGNORE /\
  r_out (acct_mgmt o1 (h2 "") (SFallback (Some users2) (Some (shadow2 (str "!")))) (day 20001 - 1)%Z) = ORet PAM_SUCCESS /\
  r_out (acct_mgmt o1 (h2 "") (SFallback (Some users2) (Some (shadow2 (str "!")))) (day 20001)) = ORet PAM_ACCT_EXPIRED /\
  r_out (acct_mgmt o1 (h2 "") (SFallback None (Some (shadow2 (str "!")))) 0%Z) = ORet PAM_USER_UNKNOWN.
Proof. vm_compute. repeat split; reflexivity. Qed.

(* a case of the shape the harness emits, agreeing with the model and satisfying the property *)
Example C43_witness_case :
  let c := mkcase OpAuth o1 h1 (SDaemon script1) 0%Z [] (ORet 0)
             [QInit (str "alice"); QPassword (str "hunter2") 7; QMfaCode (str "123456") 7; QDevice 8;
              QMfaPoll 8; QSetupPin (str "4321") 9] [5; 7; 6; 3; 4; 6; 3; 4] 6 in
  agree c = true /\ pcheck c = true /\
  (* an implementation that reported success after the daemon served a Denied would be caught *)
  pcheck (mkcase OpAuth o1 h1 (SDaemon [DStep RPassword 7; DStep RDenied 7]) 0%Z [] (ORet 0) [] [] 2) = false.
Proof. vm_compute. repeat split; reflexivity. Qed.
