(* KV.C43.Proofs — lemmas about the PAM decision procedures of KV.C43.Model. *)
From Coq Require Import List NArith ZArith Bool Lia.
Require Import KV.C29.Hash KV.C30.Prim.
Require KV.C30.Model.
Require Import KV.C43.Model.
Import ListNotations.
Open Scope N_scope.

Arguments N.add : simpl never.
Arguments N.eqb : simpl never.

(* ------------------------------------------------------------------ small facts *)
Definition conv_sane (conv : list cev) : Prop := forallb sane_res conv = true.

Lemma sane_err : forall A e, @sane_res A (HErr e) = true -> e <> PAM_SUCCESS.
Proof.
  intros A e H. cbn in H. apply negb_true_iff in H. apply N.eqb_neq in H. exact H.
Qed.

Lemma ORet_neq : forall c, c <> PAM_SUCCESS -> ORet c <> ORet PAM_SUCCESS.
Proof. intros c H E. injection E as E. contradiction. Qed.

Lemma pop_sane : forall conv e conv',
  conv_sane conv -> pop conv = (e, conv') -> sane_res e = true /\ conv_sane conv'.
Proof.
  intros conv e conv' H E. destruct conv as [|x r]; cbn in E; injection E as <- <-.
  - split; reflexivity.
  - unfold conv_sane in *. cbn in H. apply andb_true_iff in H. exact H.
Qed.

Lemma continuing_not_success : forall e, continuing e = true -> is_success e = false.
Proof. intros [[] sid| | | | |]; cbn; congruence. Qed.

Lemma ends_in_success_cons : forall e l,
  ends_in_success (e :: l) = match l with [] => is_success e | _ => continuing e && ends_in_success l end.
Proof. intros e [|x l]; reflexivity. Qed.

(* the declarative reading of [ends_in_success] *)
Lemma ends_in_success_char : forall l,
  ends_in_success l = true <->
  exists pre e, l = pre ++ [e] /\ is_success e = true /\ Forall (fun x => continuing x = true) pre.
Proof.
  induction l as [|a l IH].
  - split; [discriminate|]. intros (pre & e & H & _). destruct pre; discriminate.
  - rewrite ends_in_success_cons. destruct l as [|b l'].
    + split.
      * intro H. exists [], a. repeat split; [exact H | constructor].
      * intros (pre & e & H & Hs & _). destruct pre as [|p pre].
        -- injection H as ->. exact Hs.
        -- injection H as _ H. destruct pre; discriminate.
    + rewrite andb_true_iff, IH. split.
      * intros [Hc (pre & e & H & Hs & Hf)]. exists (a :: pre), e. rewrite H.
        repeat split; [exact Hs | constructor; assumption].
      * intros (pre & e & H & Hs & Hf). destruct pre as [|p pre].
        -- discriminate.
        -- injection H as -> H. inversion Hf as [|? ? Hp Hf']; subst. split; [exact Hp|].
           exists pre, e. repeat split; assumption.
Qed.

Lemma success_no_fault : forall l e,
  ends_in_success l = true -> In e l -> is_fault e = false.
Proof.
  intros l e H Hin. apply ends_in_success_char in H as (pre & s & -> & Hs & Hf).
  apply in_app_or in Hin as [Hin|[<-|[]]].
  - rewrite Forall_forall in Hf. unfold is_fault. rewrite (Hf _ Hin). reflexivity.
  - unfold is_fault. rewrite Hs. apply andb_false_r.
Qed.

Lemma success_has_success : forall l, ends_in_success l = true -> existsb is_success l = true.
Proof.
  intros l H. apply ends_in_success_char in H as (pre & s & -> & Hs & _).
  rewrite existsb_app. cbn. rewrite Hs. apply orb_true_iff. right. reflexivity.
Qed.

(* ------------------------------------------------------------------ the SetupPin loop *)
Lemma setup_pin_sane_n : forall n conv, (length conv <= n)%nat -> conv_sane conv ->
  match setup_pin conv with
  | inl (e, _) => e <> PAM_SUCCESS
  | inr (_, _, conv') => conv_sane conv'
  end.
Proof.
  induction n as [|n IH]; intros conv Hl Hs.
  - destruct conv; [cbn; discriminate | cbn in Hl; lia].
  - destruct conv as [|[[pin|]|e] c1]; cbn [setup_pin]; try discriminate.
    2:{ unfold conv_sane in Hs. cbn [forallb] in Hs. apply andb_true_iff in Hs as [Hs _].
        exact (sane_err _ _ Hs). }
    unfold conv_sane in Hs. cbn [forallb] in Hs. apply andb_true_iff in Hs as [_ Hs].
    destruct c1 as [|[[confirm|]|e] c2]; try discriminate.
    2:{ cbn [forallb] in Hs. apply andb_true_iff in Hs as [Hs _]. exact (sane_err _ _ Hs). }
    cbn [forallb] in Hs. apply andb_true_iff in Hs as [_ Hs].
    destruct (beqb pin confirm); [exact Hs|].
    destruct c2 as [|[a|e] c3]; try discriminate.
    2:{ cbn [forallb] in Hs. apply andb_true_iff in Hs as [Hs _]. exact (sane_err _ _ Hs). }
    cbn [forallb] in Hs. apply andb_true_iff in Hs as [_ Hs].
    assert (Hl3 : (length c3 <= n)%nat) by (cbn in Hl; lia).
    specialize (IH c3 Hl3 Hs).
    destruct (setup_pin c3) as [[e ks]|[[p ks] c4]]; exact IH.
Qed.

Lemma setup_pin_sane : forall conv, conv_sane conv ->
  match setup_pin conv with
  | inl (e, _) => e <> PAM_SUCCESS
  | inr (_, _, conv') => conv_sane conv'
  end.
Proof. intros conv. apply (setup_pin_sane_n (length conv)). lia. Qed.

(* ------------------------------------------------------------------ one reply *)
(* the module returns PAM_SUCCESS on a reply exactly when the reply is Success; it goes on only
   after a continuing reply; every other way out carries a code different from PAM_SUCCESS *)
Lemma on_reply_spec : forall o ev stacked conv, conv_sane conv ->
  match snd (on_reply o ev stacked conv) with
  | Stop c => if is_success ev then c = PAM_SUCCESS else c <> PAM_SUCCESS
  | Next _ _ _ conv' => continuing ev = true /\ conv_sane conv'
  end.
Proof.
  intros o ev stacked conv Hs.
  destruct ev as [r sid| |s|k| |]; try (cbn; discriminate).
  destruct r; cbn [on_reply is_success continuing snd]; try discriminate; try reflexivity.
  - destruct (o_ignore_unknown o); discriminate.
  - (* Password *)
    destruct stacked; [cbn; split; [reflexivity | exact Hs]|].
    destruct (pop conv) as [e conv'] eqn:Ep. destruct (pop_sane _ _ _ Hs Ep) as [He Hc].
    destruct e as [[cred|]|e]; cbn; [split; [reflexivity | exact Hc] | discriminate | exact (sane_err _ _ He)].
  - (* Device *)
    destruct (pop conv) as [e conv'] eqn:Ep. destruct (pop_sane _ _ _ Hs Ep) as [He Hc].
    destruct e as [a|e]; cbn; [split; [reflexivity | exact Hc] | exact (sane_err _ _ He)].
  - (* MfaCode *)
    destruct (pop conv) as [e conv'] eqn:Ep. destruct (pop_sane _ _ _ Hs Ep) as [He Hc].
    destruct e as [[cred|]|e]; cbn; [split; [reflexivity | exact Hc] | discriminate | exact (sane_err _ _ He)].
  - (* MfaPoll *)
    destruct (pop conv) as [e conv'] eqn:Ep. destruct (pop_sane _ _ _ Hs Ep) as [He Hc].
    destruct e as [a|e]; cbn; [split; [reflexivity | exact Hc] | exact (sane_err _ _ He)].
  - (* MfaPollWait *) split; [reflexivity | exact Hs].
  - (* SetupPin *)
    destruct (pop conv) as [e conv'] eqn:Ep. destruct (pop_sane _ _ _ Hs Ep) as [He Hc].
    destruct e as [a|e]; [| cbn; exact (sane_err _ _ He)].
    pose proof (setup_pin_sane conv' Hc) as Hp.
    destruct (setup_pin conv') as [[e ks]|[[p ks] c4]]; cbn; [exact Hp | split; [reflexivity | exact Hp]].
  - (* Pin *)
    destruct stacked; [cbn; split; [reflexivity | exact Hs]|].
    destruct (pop conv) as [e conv'] eqn:Ep. destruct (pop_sane _ _ _ Hs Ep) as [He Hc].
    destruct e as [[cred|]|e]; cbn; [split; [reflexivity | exact Hc] | discriminate | exact (sane_err _ _ He)].
Qed.

(* ------------------------------------------------------------------ the loop *)
Lemma auth_loop_cons : forall o ev rest q stacked conv,
  auth_loop o (ev :: rest) q false stacked conv =
  let r := match snd (on_reply o ev stacked conv) with
           | Stop c => stop c
           | Next q' tz' stacked' conv' => auth_loop o rest q' tz' stacked' conv'
           end in
  mkrun (r_out r) (q :: r_reqs r) (fst (on_reply o ev stacked conv) ++ r_conv r) (ev :: r_read r).
Proof.
  intros. cbn [auth_loop]. destruct (on_reply o ev stacked conv) as [ks s]. reflexivity.
Qed.

Lemma loop_success_iff : forall o script q tz stacked conv, conv_sane conv ->
  r_out (auth_loop o script q tz stacked conv) = ORet PAM_SUCCESS <->
  ends_in_success (r_read (auth_loop o script q tz stacked conv)) = true.
Proof.
  intros o script. induction script as [|ev rest IH]; intros q tz stacked conv Hs.
  - destruct tz; cbn; split; discriminate.
  - destruct tz; [cbn; split; discriminate|].
    rewrite auth_loop_cons. pose proof (on_reply_spec o ev stacked conv Hs) as Hr.
    destruct (snd (on_reply o ev stacked conv)) as [c|q' tz' st' conv'].
    + cbn [r_out r_read stop ends_in_success]. destruct (is_success ev).
      * subst c. split; reflexivity.
      * split; [|discriminate]. intro E. exfalso. exact (ORet_neq _ Hr E).
    + destruct Hr as [Hc Hs']. cbn [r_out r_read]. rewrite ends_in_success_cons.
      specialize (IH q' tz' st' conv' Hs').
      destruct (r_read (auth_loop o rest q' tz' st' conv')) as [|x xs] eqn:Er.
      * rewrite (continuing_not_success _ Hc). rewrite IH. cbn. split; discriminate.
      * rewrite Hc. cbn [andb]. exact IH.
Qed.

Lemma loop_read_prefix : forall o script q tz stacked conv,
  exists rest, script = r_read (auth_loop o script q tz stacked conv) ++ rest.
Proof.
  intros o script. induction script as [|ev rest IH]; intros q tz stacked conv.
  - destruct tz; exists []; reflexivity.
  - destruct tz; [exists (ev :: rest); reflexivity|].
    rewrite auth_loop_cons.
    destruct (snd (on_reply o ev stacked conv)) as [c|q' tz' st' conv']; cbn [r_read stop].
    + exists rest. reflexivity.
    + destruct (IH q' tz' st' conv') as [t Ht]. exists t. cbn. rewrite <- Ht. reflexivity.
Qed.

(* requests sent vs replies read: one more request than replies only when the script ran out *)
Lemma loop_counts : forall o script q tz stacked conv,
  let r := auth_loop o script q tz stacked conv in
  length (r_reqs r) = length (r_read r) \/
  (length (r_reqs r) = S (length (r_read r)) /\ length (r_read r) = length script).
Proof.
  intros o script. induction script as [|ev rest IH]; intros q tz stacked conv.
  - destruct tz; cbn; [left | right]; auto.
  - destruct tz; [cbn; left; reflexivity|].
    cbv zeta. rewrite auth_loop_cons.
    destruct (snd (on_reply o ev stacked conv)) as [c|q' tz' st' conv']; cbn [r_reqs r_read stop length].
    + left. reflexivity.
    + destruct (IH q' tz' st' conv') as [H|[H1 H2]]; [left | right]; cbn zeta in *; lia.
Qed.

Lemma firstn_served : forall (reqs : list req) (read script rest : list devent),
  script = read ++ rest ->
  (length reqs = length read \/ (length reqs = S (length read) /\ length read = length script)) ->
  firstn (N.to_nat (N.min (N.of_nat (length reqs)) (N.of_nat (length script)))) script = read.
Proof.
  intros reqs read script rest Hp Hc.
  rewrite N2Nat.inj_min, !Nat2N.id.
  assert (Hle : (length read <= length script)%nat) by (subst script; rewrite app_length; lia).
  assert (Hm : Nat.min (length reqs) (length script) = length read) by lia.
  rewrite Hm. subst script. rewrite firstn_app, Nat.sub_diag, firstn_all. cbn. apply app_nil_r.
Qed.

Lemma loop_served : forall o script q tz stacked conv,
  let r := auth_loop o script q tz stacked conv in
  firstn (N.to_nat (served_count r script)) script = r_read r.
Proof.
  intros. unfold served_count. destruct (loop_read_prefix o script q tz stacked conv) as [rest Hp].
  eapply firstn_served; [exact Hp | apply loop_counts].
Qed.

(* ------------------------------------------------------------------ sm_authenticate_connected *)
Lemma handler_sane_parts : forall h, handler_sane h = true ->
  sane_res (h_service h) = true /\ sane_res (h_account h) = true /\
  sane_res (h_authtok h) = true /\ conv_sane (h_conv h).
Proof.
  intros h H. unfold handler_sane in H. repeat (apply andb_true_iff in H as [H ?]). repeat split; assumption.
Qed.

(* either the loop was entered, or the call ended before any request with a non-success code *)
Lemma auth_connected_cases : forall o h script, handler_sane h = true ->
  (exists q stacked, auth_connected o h script = auth_loop o script q false stacked (h_conv h)) \/
  (exists e, e <> PAM_SUCCESS /\ auth_connected o h script = stop e).
Proof.
  intros o h script H. destruct (handler_sane_parts h H) as (H1 & H2 & H3 & H4).
  unfold auth_connected.
  destruct (h_service h) as [u|e]; [|right; exists e; split; [exact (sane_err _ _ H1) | reflexivity]].
  destruct (h_account h) as [a|e]; [|right; exists e; split; [exact (sane_err _ _ H2) | reflexivity]].
  destruct (o_first_pass o).
  - destruct (h_authtok h) as [st|e]; [|right; exists e; split; [exact (sane_err _ _ H3) | reflexivity]].
    left. exists (QInit a), st. reflexivity.
  - left. exists (QInit a), None. reflexivity.
Qed.

Lemma connected_success_iff : forall o h script, handler_sane h = true ->
  r_out (auth_connected o h script) = ORet PAM_SUCCESS <->
  ends_in_success (r_read (auth_connected o h script)) = true.
Proof.
  intros o h script H. destruct (auth_connected_cases o h script H) as [(q & st & ->)|(e & He & ->)].
  - apply loop_success_iff. apply (handler_sane_parts h H).
  - cbn. split; [|discriminate]. intro E. exfalso. exact (ORet_neq _ He E).
Qed.

Lemma connected_read_prefix : forall o h script,
  exists rest, script = r_read (auth_connected o h script) ++ rest.
Proof.
  intros o h script. unfold auth_connected.
  destruct (h_service h); [|exists script; reflexivity].
  destruct (h_account h); [|exists script; reflexivity].
  destruct (o_first_pass o); [destruct (h_authtok h); [|exists script; reflexivity]|];
    apply loop_read_prefix.
Qed.

Lemma served_stop : forall e script,
  firstn (N.to_nat (served_count (stop e) script)) script = r_read (stop e).
Proof.
  intros e script. unfold served_count. cbn [stop r_reqs r_read length N.of_nat].
  rewrite N.min_0_l. reflexivity.
Qed.

Lemma connected_served : forall o h script,
  firstn (N.to_nat (served_count (auth_connected o h script) script)) script =
  r_read (auth_connected o h script).
Proof.
  intros o h script. unfold auth_connected.
  destruct (h_service h); [|apply served_stop].
  destruct (h_account h); [|apply served_stop].
  destruct (o_first_pass o); [destruct (h_authtok h); [|apply served_stop]|]; apply loop_served.
Qed.

(* ------------------------------------------------------------------ CryptPw *)
Lemma prepare_fixed : forall is512 f,
  KV.C30.Model.sha_prepare_gen true is512 f =
  if negb is512 && negb (KV.C30.Model.sha256_field_ok f) then KV.C30.Model.SCReject
  else KV.C30.Model.sha_prepare_gen false is512 f.
Proof.
  intros is512 f. unfold KV.C30.Model.sha_prepare_gen. cbn [andb].
  destruct is512; cbn [negb andb]; [reflexivity|].
  destruct (KV.C30.Model.sha256_field_ok f); reflexivity.
Qed.

Lemma sha_check_true : forall fixed is512 cred f,
  KV.C30.Model.sha_check_gen fixed is512 cred f = KV.C30.Model.VOk true ->
  KV.C30.Model.sha_check_gen false is512 cred f = KV.C30.Model.VOk true.
Proof.
  intros fixed is512 cred f. destruct fixed; [|exact (fun H => H)].
  unfold KV.C30.Model.sha_check_gen. rewrite prepare_fixed.
  destruct (negb is512 && negb (KV.C30.Model.sha256_field_ok f)); [discriminate | exact (fun H => H)].
Qed.

Lemma VOk_inj : forall a b, KV.C30.Model.VOk a = KV.C30.Model.VOk b -> a = b.
Proof. intros a b H. injection H as H. exact H. Qed.

(* on the tree as it is, check_pw says yes exactly for a supported field that verifies *)
Lemma check_pw_true_iff : forall yt f cred,
  check_pw_gen false yt f cred = PwOk true <-> supported f && crypt_verifies yt f cred = true.
Proof.
  intros yt f cred. unfold check_pw_gen, supported, crypt_verifies.
  destruct (classify f).
  - unfold KV.C30.Model.sha_check_gen.
    destruct (KV.C30.Model.sha_prepare_gen false false f) as [| |salt r d]; cbv zeta.
    + cbn. split; discriminate.
    + cbn. split; discriminate.
    + cbn [andb]. split; intro H.
      * injection H as H. exact H.
      * rewrite H. reflexivity.
  - unfold KV.C30.Model.sha_check_gen.
    destruct (KV.C30.Model.sha_prepare_gen false true f) as [| |salt r d]; cbv zeta.
    + cbn. split; discriminate.
    + cbn. split; discriminate.
    + cbn [andb]. split; intro H.
      * injection H as H. exact H.
      * rewrite H. reflexivity.
  - cbn [andb]. split; intro H; [injection H as H; exact H | rewrite H; reflexivity].
  - cbn. split; discriminate.
Qed.

(* with or without the hash-field guard, a yes is only ever given for such a field *)
Lemma check_pw_true_only : forall fixed yt f cred,
  check_pw_gen fixed yt f cred = PwOk true -> supported f && crypt_verifies yt f cred = true.
Proof.
  intros fixed yt f cred H. apply check_pw_true_iff.
  unfold check_pw_gen in *. destruct (classify f); try exact H.
  - destruct (KV.C30.Model.sha_check_gen fixed false cred f) as [[|]| |] eqn:E; try discriminate H.
    rewrite (sha_check_true _ _ _ _ E). reflexivity.
  - destruct (KV.C30.Model.sha_check_gen fixed true cred f) as [[|]| |] eqn:E; try discriminate H.
    rewrite (sha_check_true _ _ _ _ E). reflexivity.
Qed.

Lemma sha_check_fixed : forall is512 cred f,
  KV.C30.Model.sha_check_gen true is512 cred f =
  if negb is512 && negb (KV.C30.Model.sha256_field_ok f) then KV.C30.Model.VOk false
  else KV.C30.Model.sha_check_gen false is512 cred f.
Proof.
  intros is512 cred f. unfold KV.C30.Model.sha_check_gen. rewrite prepare_fixed.
  destruct (negb is512 && negb (KV.C30.Model.sha256_field_ok f)); reflexivity.
Qed.

(* on the fixed tree: yes exactly for a supported field that passes the guard and verifies *)
Lemma check_pw_fixed_true_iff : forall yt f cred,
  check_pw_gen true yt f cred = PwOk true <->
  field_guard f && (supported f && crypt_verifies yt f cred) = true.
Proof.
  intros yt f cred. pose proof (check_pw_true_iff yt f cred) as Hu.
  unfold check_pw_gen, field_guard, supported in *. destruct (classify f) eqn:Ec.
  - rewrite sha_check_fixed. cbn [negb andb].
    destruct (KV.C30.Model.sha256_field_ok f); cbn [negb andb].
    + exact Hu.
    + split; discriminate.
  - rewrite sha_check_fixed. cbn [negb andb]. exact Hu.
  - cbn [andb]. exact Hu.
  - cbn [andb]. exact Hu.
Qed.

Lemma check_pw_invalid : forall fixed yt f cred,
  classify f = CInvalid -> check_pw_gen fixed yt f cred = PwOk false.
Proof. intros fixed yt f cred H. unfold check_pw_gen. rewrite H. reflexivity. Qed.

(* a field that does not begin with '$' is never a supported hash: "!", "*", "x", "", "!$6$..." *)
Lemma classify_no_dollar : forall f, hd_error f <> Some 36 -> classify f = CInvalid.
Proof.
  intros [|c f] H; [reflexivity|]. cbn in H.
  destruct (N.eq_dec c 36) as [->|Hn]; [congruence|].
  unfold classify. destruct c as [|p]; [reflexivity|].
  do 6 (destruct p as [p|p|]; try reflexivity). congruence.
Qed.

(* ------------------------------------------------------------------ sm_authenticate_fallback *)
(* the part of auth_fallback_gen after the entry has been found and is not expired *)
Definition fb_decide (fixed : bool) (o : opts) (h : handler) (ent : sent) (yt : ytab_t) : run :=
  let check (cred : bytes) : run :=
    match check_pw_gen fixed yt (s_pw ent) cred with
    | PwOk true => stop PAM_SUCCESS
    | PwOk false => stop PAM_AUTH_ERR
    | PwPanic => mkrun OPanic [] [] []
    end in
  let prompt : run :=
    match pop (h_conv h) with
    | (HOk (Some cred), _) => asked K_PASSWORD (check cred)
    | (HOk None, _) => asked K_PASSWORD (stop PAM_CRED_INSUFFICIENT)
    | (HErr e, _) => asked K_PASSWORD (stop e)
    end in
  if o_first_pass o then
    match h_authtok h with
    | HErr e => stop e
    | HOk (Some cred) => check cred
    | HOk None => prompt
    end
  else prompt.

Lemma fb_decide_success : forall fixed o h ent yt, handler_sane h = true ->
  r_out (fb_decide fixed o h ent yt) = ORet PAM_SUCCESS <->
  exists cred, supplied_password o h = Some cred /\ check_pw_gen fixed yt (s_pw ent) cred = PwOk true.
Proof.
  intros fixed o h ent yt H. destruct (handler_sane_parts h H) as (_ & _ & H3 & H4).
  assert (Hcheck : forall cred (k : run -> run), (forall r, r_out (k r) = r_out r) ->
    r_out (k match check_pw_gen fixed yt (s_pw ent) cred with
             | PwOk true => stop PAM_SUCCESS
             | PwOk false => stop PAM_AUTH_ERR
             | PwPanic => mkrun OPanic [] [] []
             end) = ORet PAM_SUCCESS <-> check_pw_gen fixed yt (s_pw ent) cred = PwOk true).
  { intros cred k Hk. rewrite Hk. destruct (check_pw_gen fixed yt (s_pw ent) cred) as [[|]|]; cbn;
      split; try discriminate; reflexivity. }
  assert (Hprompt : r_out match pop (h_conv h) with
      | (HOk (Some cred), _) => asked K_PASSWORD
          match check_pw_gen fixed yt (s_pw ent) cred with
          | PwOk true => stop PAM_SUCCESS
          | PwOk false => stop PAM_AUTH_ERR
          | PwPanic => mkrun OPanic [] [] []
          end
      | (HOk None, _) => asked K_PASSWORD (stop PAM_CRED_INSUFFICIENT)
      | (HErr e, _) => asked K_PASSWORD (stop e)
      end = ORet PAM_SUCCESS <->
      exists cred, match h_conv h with HOk (Some c) :: _ => Some c | _ => None end = Some cred /\
                   check_pw_gen fixed yt (s_pw ent) cred = PwOk true).
  { destruct (h_conv h) as [|[[c|]|e] conv]; cbn [pop].
    - cbn. split; [discriminate | intros (c & Hc & _); discriminate].
    - rewrite (Hcheck c (asked K_PASSWORD)); [|reflexivity]. split.
      + intro E. exists c. split; [reflexivity | exact E].
      + intros (c' & Hc & E). injection Hc as <-. exact E.
    - cbn. split; [discriminate | intros (c & Hc & _); discriminate].
    - unfold conv_sane in H4. cbn [forallb] in H4. apply andb_true_iff in H4 as [H4 _].
      cbn. split; [intro E; exfalso; exact (ORet_neq _ (sane_err _ _ H4) E) | intros (c & Hc & _); discriminate]. }
  unfold fb_decide, supplied_password. cbv zeta.
  destruct (o_first_pass o); [|exact Hprompt].
  destruct (h_authtok h) as [[c|]|e].
  - rewrite (Hcheck c (fun r => r)); [|reflexivity]. split.
    + intro E. exists c. split; [reflexivity | exact E].
    + intros (c' & Hc & E). injection Hc as <-. exact E.
  - exact Hprompt.
  - cbn. split; [intro E; exfalso; exact (ORet_neq _ (sane_err _ _ H3) E) | intros (c & Hc & _); discriminate].
Qed.

Lemma auth_fallback_unfold : forall fixed o h ct users shadow yt,
  auth_fallback_gen fixed o h ct users shadow yt =
  match h_account h with
  | HErr e => stop e
  | HOk acct =>
      match user_known acct users, find_shadow acct shadow with
      | true, Some ent => if expired ct ent then stop PAM_ACCT_EXPIRED else fb_decide fixed o h ent yt
      | _, _ => stop (if o_ignore_unknown o then PAM_IGNORE else PAM_USER_UNKNOWN)
      end
  end.
Proof. reflexivity. Qed.

(* success <-> a known, unexpired local entry and a supplied password that check_pw accepts *)
Lemma fallback_success_check : forall fixed o h ct users shadow yt, handler_sane h = true ->
  r_out (auth_fallback_gen fixed o h ct users shadow yt) = ORet PAM_SUCCESS <->
  exists ent cred, local_entry h users shadow = Some ent /\ expired ct ent = false /\
                   supplied_password o h = Some cred /\
                   check_pw_gen fixed yt (s_pw ent) cred = PwOk true.
Proof.
  intros fixed o h ct users shadow yt H. rewrite auth_fallback_unfold. unfold local_entry.
  destruct (handler_sane_parts h H) as (_ & H2 & _ & _).
  destruct (h_account h) as [acct|e].
  2:{ cbn. split; [intro E; exfalso; exact (ORet_neq _ (sane_err _ _ H2) E) | intros (? & ? & Hc & _); discriminate]. }
  destruct (user_known acct users).
  2:{ split; [destruct (o_ignore_unknown o); discriminate | intros (? & ? & Hc & _); discriminate]. }
  destruct (find_shadow acct shadow) as [ent|].
  2:{ split; [destruct (o_ignore_unknown o); discriminate | intros (? & ? & Hc & _); discriminate]. }
  destruct (expired ct ent) eqn:Ex.
  - split; [discriminate|]. intros (e' & c & He & Hx & _). injection He as <-. congruence.
  - rewrite fb_decide_success by exact H. split.
    + intros (c & Hc & E). exists ent, c. repeat split; assumption.
    + intros (e' & c & He & _ & Hc & E). injection He as <-. exists c. split; assumption.
Qed.

Lemma fallback_legit_iff : forall o h ct users shadow yt,
  fallback_legit o h ct users shadow yt = true <->
  exists ent cred, local_entry h users shadow = Some ent /\ expired ct ent = false /\
                   supplied_password o h = Some cred /\
                   supported (s_pw ent) && crypt_verifies yt (s_pw ent) cred = true.
Proof.
  intros. unfold fallback_legit.
  destruct (local_entry h users shadow) as [ent|].
  2:{ split; [discriminate | intros (? & ? & Hc & _); discriminate]. }
  destruct (supplied_password o h) as [cred|].
  2:{ split; [discriminate | intros (? & ? & _ & _ & Hc & _); discriminate]. }
  split.
  - intro E. apply andb_true_iff in E as [E E3]. apply andb_true_iff in E as [E1 E2].
    apply negb_true_iff in E1. exists ent, cred. repeat split; try assumption.
    rewrite E2, E3. reflexivity.
  - intros (e' & c & He & Hx & Hc & E). injection He as <-. injection Hc as <-.
    rewrite Hx. cbn [negb andb]. exact E.
Qed.

Lemma fallback_success_only_when : forall fixed o h ct users shadow yt, handler_sane h = true ->
  r_out (auth_fallback_gen fixed o h ct users shadow yt) = ORet PAM_SUCCESS ->
  fallback_legit o h ct users shadow yt = true.
Proof.
  intros fixed o h ct users shadow yt H E.
  apply (fallback_success_check fixed o h ct users shadow yt H) in E as (ent & cred & H1 & H2 & H3 & H4).
  apply fallback_legit_iff. exists ent, cred. repeat split; try assumption.
  exact (check_pw_true_only _ _ _ _ H4).
Qed.

Lemma fallback_success_iff : forall o h ct users shadow yt, handler_sane h = true ->
  r_out (auth_fallback_gen false o h ct users shadow yt) = ORet PAM_SUCCESS <->
  fallback_legit o h ct users shadow yt = true.
Proof.
  intros o h ct users shadow yt H.
  rewrite (fallback_success_check false o h ct users shadow yt H), fallback_legit_iff.
  split; intros (ent & cred & H1 & H2 & H3 & H4); exists ent, cred; repeat split; try assumption;
    apply check_pw_true_iff; exact H4.
Qed.

Lemma fallback_fixed_success_iff : forall o h ct users shadow yt, handler_sane h = true ->
  r_out (auth_fallback_gen true o h ct users shadow yt) = ORet PAM_SUCCESS <->
  exists ent cred, local_entry h users shadow = Some ent /\ expired ct ent = false /\
                   supplied_password o h = Some cred /\
                   field_guard (s_pw ent) && (supported (s_pw ent) && crypt_verifies yt (s_pw ent) cred) = true.
Proof.
  intros o h ct users shadow yt H.
  rewrite (fallback_success_check true o h ct users shadow yt H).
  split; intros (ent & cred & H1 & H2 & H3 & H4); exists ent, cred; repeat split; try assumption;
    apply check_pw_fixed_true_iff; exact H4.
Qed.

(* ------------------------------------------------------------------ acct_mgmt *)
Definition service_ok (h : handler) : bool := match h_service h with HOk _ => true | HErr _ => false end.

Lemma acct_success_iff : forall o h src ct, handler_sane h = true ->
  r_out (acct_mgmt o h src ct) = ORet PAM_SUCCESS <->
  service_ok h = true /\ acct_legit h src ct (r_read (acct_mgmt o h src ct)) = true.
Proof.
  intros o h src ct H. destruct (handler_sane_parts h H) as (H1 & H2 & _ & _).
  unfold acct_mgmt, acct_legit, local_entry, service_ok.
  destruct (h_service h) as [u|e].
  2:{ cbn [r_out r_read stop]. split.
      - intro E. exfalso. exact (ORet_neq _ (sane_err _ _ H1) E).
      - intros [E _]. discriminate. }
  destruct (h_account h) as [acct|e].
  2:{ cbn [r_out r_read stop]. split.
      - intro E. exfalso. exact (ORet_neq _ (sane_err _ _ H2) E).
      - intros [_ E]. destruct src; discriminate. }
  destruct src as [script|users shadow].
  - destruct script as [|ev rest]; cbn [r_out r_read].
    + split; [discriminate | intros [_ E]; discriminate].
    + destruct ev as [r sid| |[[|]|]|k| |]; cbn; try (split; [discriminate | intros [_ E]; discriminate]).
      * split; [intros _; split; reflexivity | intros _; reflexivity].
      * destruct (o_ignore_unknown o); split; try discriminate; intros [_ E]; discriminate.
  - destruct (user_known acct (recs users)).
    2:{ cbn [r_out stop]. split; [destruct (o_ignore_unknown o); discriminate | intros [_ E]; discriminate]. }
    destruct (find_shadow acct (recs shadow)) as [ent|].
    2:{ cbn [r_out stop]. split; [destruct (o_ignore_unknown o); discriminate | intros [_ E]; discriminate]. }
    destruct (expired ct ent); cbn; split; try discriminate; try (intros [_ E]; discriminate).
    + intros _. split; reflexivity.
    + intros _. reflexivity.
Qed.

Lemma acct_served : forall o h src ct,
  firstn (N.to_nat (served_count (acct_mgmt o h src ct) (script_of src))) (script_of src) =
  r_read (acct_mgmt o h src ct).
Proof.
  intros o h src ct. unfold acct_mgmt.
  destruct (h_service h) as [u|e]; [|apply served_stop].
  destruct (h_account h) as [a|e]; [|apply served_stop].
  destruct src as [script|users shadow]; cbn [script_of].
  - destruct script as [|ev rest]; [reflexivity|].
    unfold served_count. cbn [r_reqs r_read length]. rewrite N2Nat.inj_min, !Nat2N.id. reflexivity.
  - destruct (user_known a (recs users)), (find_shadow a (recs shadow)) as [ent|];
      try destruct (expired ct ent); apply served_stop.
Qed.

(* ------------------------------------------------------------------ the bridge *)
Lemma outcome_eqb_eq : forall a b, outcome_eqb a b = true -> a = b.
Proof.
  intros [x|] [y|]; cbn; try discriminate; [|reflexivity].
  intro H. apply N.eqb_eq in H. subst. reflexivity.
Qed.

Lemma agree_implies_pcheck : forall c, agree c = true -> pcheck c = true.
Proof.
  intros c H. unfold agree in H.
  apply andb_true_iff in H as [H H4]. apply andb_true_iff in H as [H H3].
  apply andb_true_iff in H as [H1 H2]. apply outcome_eqb_eq in H1. apply N.eqb_eq in H4.
  unfold pcheck. destruct (handler_sane (c_h c)) eqn:Hs; [|reflexivity]. cbn [negb].
  destruct (i_out c) as [[|p]|] eqn:Eo; try reflexivity.
  unfold model_run in *. destruct (c_op c).
  - (* sm_authenticate *)
    unfold authenticate in *. destruct (c_src c) as [script|users shadow].
    + cbn [script_of] in H4. rewrite <- H4, connected_served.
      apply connected_success_iff; [exact Hs | exact H1].
    + apply (fallback_success_only_when tree_fixed); [exact Hs | exact H1].
  - (* acct_mgmt *)
    rewrite <- H4, acct_served. apply (acct_success_iff _ _ _ _ Hs). exact H1.
Qed.
