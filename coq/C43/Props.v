(* KV.C43.Props — PAM fails closed: the property theorems.
   All of them quantify over EVERY handler behaviour, option set, daemon script (any length), passwd and
   shadow file, current time and yescrypt oracle table.  [handler_sane h] is the PAM contract the
   property presupposes: the PAM library never reports a FAILED call with the code PAM_SUCCESS
   (pam/module.rs builds every Err from `res != PAM_SUCCESS` or a constant error code);
   C43_handler_contract_needed shows the premise cannot be dropped. *)
From Coq Require Import List NArith ZArith Bool.
Require Import KV.C29.Hash KV.C30.Prim.
Require KV.C30.Model.
Require Import KV.C43.Model KV.C43.Proofs.
Import ListNotations.
Open Scope N_scope.

(* Daemon mode.  sm_authenticate_connected returns PAM_SUCCESS exactly when the replies it read
   from the resolver are: any number of continuing replies (password / pin / MFA / device-grant
   prompts, all answered), and then, as the LAST thing read, an explicit Success reply.  What it
   read is a prefix of what the daemon had to say. *)
Theorem C43_daemon_success_iff : forall o h script, handler_sane h = true ->
  r_out (auth_connected o h script) = ORet PAM_SUCCESS <->
  exists pre sid rest,
    script = pre ++ DStep RSuccess sid :: rest /\
    r_read (auth_connected o h script) = pre ++ [DStep RSuccess sid] /\
    Forall (fun e => continuing e = true) pre.
Proof.
  intros o h script H. rewrite (connected_success_iff o h script H), ends_in_success_char.
  destruct (connected_read_prefix o h script) as [rest Hp]. split.
  - intros (pre & e & Hr & Hs & Hf). destruct e as [[] sid| | | | |]; try discriminate Hs.
    exists pre, sid, rest. repeat split; [|exact Hr | exact Hf].
    rewrite Hp at 1. rewrite Hr, <- app_assoc. reflexivity.
  - intros (pre & sid & rest' & _ & Hr & Hf). exists pre, (DStep RSuccess sid).
    repeat split; [exact Hr | exact Hf].
Qed.

(* Every error, unknown user, refusal, reply of the wrong kind, undecodable frame or disconnect
   that the module reads — at ANY point of the conversation — makes the result non-success:
   nothing that follows can turn it into a success. *)
Theorem C43_daemon_faults_never_success : forall o h script e, handler_sane h = true ->
  In e (r_read (auth_connected o h script)) -> is_fault e = true ->
  r_out (auth_connected o h script) <> ORet PAM_SUCCESS.
Proof.
  intros o h script e H Hin Hf E. apply (connected_success_iff o h script H) in E.
  rewrite (success_no_fault _ _ E Hin) in Hf. discriminate.
Qed.

(* A daemon that never says Success — whatever else it says, however it fails, however early it
   goes away (including the empty script: it accepts the connection and says nothing) — never
   yields PAM_SUCCESS. *)
Theorem C43_daemon_without_success_reply : forall o h script, handler_sane h = true ->
  existsb is_success script = false ->
  r_out (auth_connected o h script) <> ORet PAM_SUCCESS.
Proof.
  intros o h script H Hn E. apply (connected_success_iff o h script H) in E.
  apply success_has_success in E. destruct (connected_read_prefix o h script) as [rest Hp].
  rewrite Hp, existsb_app, E in Hn. discriminate.
Qed.

(* Fallback mode, "only when": with or without the sha256 hash-field guard ([fixed]), PAM_SUCCESS
   means: the account is in /etc/passwd, its FIRST /etc/shadow entry has not expired, that
   entry's password field is a $5$ / $6$ / $y$ string, and the password the user supplied (stacked
   token or prompt answer) verifies against it — for $5$ / $6$: rounds, salt and digest fields parse
   and the digest is the sha-crypt digest of the password; for $y$: the oracle. *)
Theorem C43_fallback_success_only_when : forall fixed o h ct users shadow yt, handler_sane h = true ->
  r_out (auth_fallback_gen fixed o h ct users shadow yt) = ORet PAM_SUCCESS ->
  exists ent cred,
    local_entry h users shadow = Some ent /\ expired ct ent = false /\
    supplied_password o h = Some cred /\
    supported (s_pw ent) = true /\ crypt_verifies yt (s_pw ent) cred = true.
Proof.
  intros fixed o h ct users shadow yt H E.
  apply (fallback_success_only_when fixed o h ct users shadow yt H) in E.
  apply fallback_legit_iff in E as (ent & cred & H1 & H2 & H3 & H4).
  apply andb_true_iff in H4 as [H4 H5]. exists ent, cred. repeat split; assumption.
Qed.

(* ... and on the tree as it is (with the hash-field guard of /repo 054a9cd) the characterisation
   is exact once the guard is named: a "$5$" field must also carry a canonical 43-character hash. *)
Theorem C43_fallback_success_iff : forall o h ct users shadow yt, handler_sane h = true ->
  r_out (auth_fallback_gen true o h ct users shadow yt) = ORet PAM_SUCCESS <->
  exists ent cred,
    local_entry h users shadow = Some ent /\ expired ct ent = false /\
    supplied_password o h = Some cred /\
    supported (s_pw ent) = true /\ field_guard (s_pw ent) = true /\
    crypt_verifies yt (s_pw ent) cred = true.
Proof.
  intros o h ct users shadow yt H.
  rewrite (fallback_fixed_success_iff o h ct users shadow yt H).
  split; intros (ent & cred & H1 & H2 & H3 & H4); exists ent, cred.
  - apply andb_true_iff in H4 as [H4 H5]. apply andb_true_iff in H5 as [H5 H6].
    repeat split; assumption.
  - destruct H4 as (H4 & H5 & H6). repeat split; try assumption. rewrite H4, H5, H6. reflexivity.
Qed.

(* The originally pinned tree (no guard; it PANICKED on malformed "$5$" hash fields, see
   C43_witness_sha256_panic): there the characterisation without the guard was exact. *)
Theorem C43_prefix_fallback_success_iff : forall o h ct users shadow yt, handler_sane h = true ->
  r_out (auth_fallback_gen false o h ct users shadow yt) = ORet PAM_SUCCESS <->
  exists ent cred,
    local_entry h users shadow = Some ent /\ expired ct ent = false /\
    supplied_password o h = Some cred /\
    supported (s_pw ent) = true /\ crypt_verifies yt (s_pw ent) cred = true.
Proof.
  intros o h ct users shadow yt H.
  rewrite (fallback_success_iff o h ct users shadow yt H), fallback_legit_iff.
  split; intros (ent & cred & H1 & H2 & H3 & H4); exists ent, cred.
  - apply andb_true_iff in H4 as [H4 H5]. repeat split; assumption.
  - destruct H4 as [H4 H5]. repeat split; try assumption. rewrite H4, H5. reflexivity.
Qed.

(* Locked and empty password fields never authenticate: if the shadow entry in force does not
   begin with '$' ("!", "*", "x", "", "!!", "*LK*", "!$6$..." — a valid hash behind a lock mark),
   the result is never PAM_SUCCESS, for every password, option and time. *)
Theorem C43_locked_never : forall fixed o h ct users shadow yt, handler_sane h = true ->
  (forall ent, local_entry h users shadow = Some ent -> hd_error (s_pw ent) <> Some 36) ->
  r_out (auth_fallback_gen fixed o h ct users shadow yt) <> ORet PAM_SUCCESS.
Proof.
  intros fixed o h ct users shadow yt H Hl E.
  apply (C43_fallback_success_only_when fixed o h ct users shadow yt H) in E
    as (ent & cred & H1 & _ & _ & H4 & _).
  unfold supported in H4. rewrite (classify_no_dollar _ (Hl ent H1)) in H4. discriminate.
Qed.

(* The same for every unsupported scheme ($1$, $2b$, ...): only the three prefixes count. *)
Theorem C43_unsupported_never : forall fixed o h ct users shadow yt, handler_sane h = true ->
  (forall ent, local_entry h users shadow = Some ent -> classify (s_pw ent) = CInvalid) ->
  r_out (auth_fallback_gen fixed o h ct users shadow yt) <> ORet PAM_SUCCESS.
Proof.
  intros fixed o h ct users shadow yt H Hl E.
  apply (C43_fallback_success_only_when fixed o h ct users shadow yt H) in E
    as (ent & cred & H1 & _ & _ & H4 & _).
  unfold supported in H4. rewrite (Hl ent H1) in H4. discriminate.
Qed.

(* Unknown users and expired accounts never authenticate locally. *)
Theorem C43_unknown_or_expired_never : forall fixed o h ct users shadow yt, handler_sane h = true ->
  (forall ent, local_entry h users shadow = Some ent -> expired ct ent = true) ->
  r_out (auth_fallback_gen fixed o h ct users shadow yt) <> ORet PAM_SUCCESS.
Proof.
  intros fixed o h ct users shadow yt H Hl E.
  apply (C43_fallback_success_only_when fixed o h ct users shadow yt H) in E
    as (ent & cred & H1 & H2 & _).
  rewrite (Hl ent H1) in H2. discriminate.
Qed.

(* acct_mgmt: PAM_SUCCESS exactly when the service information could be read and either the
   daemon's one reply is PamStatus(Some(true)), or (fallback) the account is known to both files
   and its entry has not expired.  Errors and unexpected replies give PAM_IGNORE / an error code. *)
Theorem C43_acct_success_iff : forall o h src ct, handler_sane h = true ->
  r_out (acct_mgmt o h src ct) = ORet PAM_SUCCESS <->
  service_ok h = true /\
  match src with
  | SDaemon script => exists rest, script = DPamStatus (Some true) :: rest /\ exists a, h_account h = HOk a
  | SFallback users shadow =>
      exists ent, local_entry h (recs users) (recs shadow) = Some ent /\ expired ct ent = false
  end.
Proof.
  intros o h src ct H. rewrite (acct_success_iff o h src ct H).
  split; intros [Hs Hl]; (split; [exact Hs|]).
  - destruct src as [script|users shadow].
    + unfold acct_mgmt, service_ok in *. destruct (h_service h) as [u|e0]; [|discriminate].
      destruct (h_account h) as [a|e]; [|discriminate].
      destruct script as [|ev rest]; [discriminate|]. cbn in Hl.
      destruct ev as [r sid| |[[|]|]|k| |]; try discriminate. exists rest. split; [reflexivity | exists a; reflexivity].
    + unfold acct_legit in Hl. destruct (local_entry h (recs users) (recs shadow)) as [ent|]; [|discriminate].
      exists ent. split; [reflexivity | apply negb_true_iff; exact Hl].
  - destruct src as [script|users shadow].
    + destruct Hl as (rest & -> & a & Ha). unfold acct_mgmt, service_ok in *.
      destruct (h_service h) as [u|e0]; [|discriminate]. rewrite Ha. reflexivity.
    + destruct Hl as (ent & He & Hx). unfold acct_legit. rewrite He, Hx. reflexivity.
Qed.

(* The whole statement for the entry point sm_authenticate (tree under check), as one theorem:
   success only when the daemon explicitly reported success, or — daemon unreachable — the local
   entry is supported, verifies the supplied password and has not expired. *)
Theorem C43_authenticate_success_only_when : forall o h src ct yt, handler_sane h = true ->
  r_out (authenticate o h src ct yt) = ORet PAM_SUCCESS ->
  match src with
  | SDaemon script =>
      exists pre sid rest, script = pre ++ DStep RSuccess sid :: rest /\
                           r_read (authenticate o h src ct yt) = pre ++ [DStep RSuccess sid] /\
                           Forall (fun e => continuing e = true) pre
  | SFallback users shadow =>
      exists ent cred,
        local_entry h (recs users) (recs shadow) = Some ent /\ expired ct ent = false /\
        supplied_password o h = Some cred /\
        supported (s_pw ent) = true /\ crypt_verifies yt (s_pw ent) cred = true
  end.
Proof.
  intros o h src ct yt H E. destruct src as [script|users shadow]; cbn [authenticate] in *.
  - apply (C43_daemon_success_iff o h script H). exact E.
  - apply (C43_fallback_success_only_when tree_fixed o h ct (recs users) (recs shadow) yt H). exact E.
Qed.

(* The PAM contract premise cannot be dropped: a handler whose failed call carries PAM_SUCCESS
   makes the module return that code without any daemon reply. *)
Theorem C43_handler_contract_needed :
  ~ (forall o h script, r_out (auth_connected o h script) = ORet PAM_SUCCESS ->
                        ends_in_success (r_read (auth_connected o h script)) = true).
Proof.
  intro H. specialize (H (mkO false false) (mkH (HErr 0) (HOk []) (HOk None) []) [] eq_refl).
  discriminate H.
Qed.

(* Bridge to the run: on every case where the model reproduces the implementation's result,
   requests, conversation calls and number of served replies, the property's predicate holds of
   what the implementation did. *)
Theorem C43_agree_implies_property : forall c, agree c = true -> pcheck c = true.
Proof. exact agree_implies_pcheck. Qed.
