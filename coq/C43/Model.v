(* KV.C43.Model — the PAM module's decision procedures, transcribed from
     unix_integration/pam_sparkle_common/src/core.rs
        sm_authenticate (:466) = connect_to_daemon + sm_authenticate_connected (:127) /
                                 sm_authenticate_fallback (:396),   acct_mgmt (:482)
     unix_integration/common/src/unix_passwd.rs
        CryptPw::from_str (:82), CryptPw::check_pw (:103), EtcShadow (expiry = epoch + days)
     unix_integration/common/src/client_sync.rs  DaemonClientBlocking::call_and_wait (only its
        outcome: a decoded reply or an error; a zero timeout fails before anything is sent)
   The sha256/512-crypt check is the Gallina transcription of sha-crypt 0.5.0 of KV.C30
   (sha_check_gen, over the SHA-2 of KV.C29.Hash); yescrypt is an oracle table (see [ytab]).

   Executable Gallina only.  Strings are UTF-8 byte lists; PamResultCode is its number. *)
From Coq Require Import List NArith ZArith Bool.
Require Import KV.C29.Hash KV.C30.Prim.
Require KV.C30.Model.
Import ListNotations.
Open Scope N_scope.

(* ------------------------------------------------------------------ PamResultCode *)
Definition rc := N.
Definition PAM_SUCCESS : rc := 0.
Definition PAM_AUTH_ERR : rc := 7.
Definition PAM_CRED_INSUFFICIENT : rc := 8.
Definition PAM_USER_UNKNOWN : rc := 10.
Definition PAM_ACCT_EXPIRED : rc := 13.
Definition PAM_CONV_ERR : rc := 19.
Definition PAM_IGNORE : rc := 25.

(* what a call of the module yields: a result code, or the call panics (the process dies) *)
Inductive outcome := ORet (c : rc) | OPanic.

(* ------------------------------------------------------------------ the PamHandler (environment) *)
Inductive hres (A : Type) := HOk (a : A) | HErr (e : rc).
Arguments HOk {A} a.
Arguments HErr {A} e.

(* one answer of the application's conversation function: prompts yield Ok(Some text) /
   Ok(None) / Err(code); messages only look at Ok / Err *)
Definition cev := hres (option bytes).

Record handler := mkH {
  h_service : hres unit;              (* pamh.service_info() *)
  h_account : hres bytes;             (* pamh.account_id() *)
  h_authtok : hres (option bytes);    (* pamh.authtok() *)
  h_conv : list cev                   (* answers of the conversation, in call order *)
}.

Record opts := mkO { o_first_pass : bool; o_ignore_unknown : bool }.

(* conversation call kinds (what the module asked for) *)
Definition K_PASSWORD := 1. Definition K_PIN := 2. Definition K_NEWPIN := 3.
Definition K_CONFIRMPIN := 4. Definition K_MFACODE := 5. Definition K_MESSAGE := 6.
Definition K_DEVICEMSG := 7.

(* when nobody answers any more the conversation fails *)
Definition pop (conv : list cev) : cev * list cev :=
  match conv with [] => (HErr PAM_CONV_ERR, []) | e :: r => (e, r) end.

(* ------------------------------------------------------------------ the resolver daemon (environment) *)
Inductive reply :=
| RUnknown | RSuccess | RDenied | RPassword
| RDevice (expires_in : N) | RMfaCode | RMfaPoll (interval : N) | RMfaPollWait | RSetupPin | RPin.

(* what one call_and_wait gets *)
Inductive devent :=
| DStep (r : reply) (sid : N)      (* ClientResponse::PamAuthenticateStepResponse *)
| DError                           (* ClientResponse::Error(_) *)
| DPamStatus (s : option bool)     (* ClientResponse::PamStatus(_) *)
| DOther (k : N)                   (* Ok, SshKeys, NssAccounts, NssAccount, NssGroups, NssGroup, ProviderStatus *)
| DGarbage                         (* a frame that does not decode *)
| DEof.                            (* closed / half a frame / silence: call_and_wait returns Err *)
(* a script that has run out = the daemon went away = DEof *)

(* the requests the module sends *)
Inductive req :=
| QInit (acct : bytes)
| QAcct (acct : bytes)
| QPassword (cred : bytes) (sid : N)
| QDevice (sid : N)
| QMfaCode (cred : bytes) (sid : N)
| QMfaPoll (sid : N)
| QSetupPin (pin : bytes) (sid : N)
| QPin (cred : bytes) (sid : N)
| QOther.

(* everything observable of one run *)
Record run := mkrun {
  r_out : outcome;
  r_reqs : list req;       (* requests sent, in order *)
  r_conv : list N;         (* conversation calls made, in order *)
  r_read : list devent     (* replies obtained from the daemon, in order *)
}.
Definition stop (c : rc) : run := mkrun (ORet c) [] [] [].
Definition asked (k : N) (r : run) : run := mkrun (r_out r) (r_reqs r) (k :: r_conv r) (r_read r).

(* ------------------------------------------------------------------ sm_authenticate_connected *)
(* the SetupPin inner loop: New PIN / Confirm PIN until both agree; a mismatch shows a message *)
Fixpoint setup_pin (conv : list cev) : (rc * list N) + (bytes * list N * list cev) :=
  match conv with
  | [] => inl (PAM_CONV_ERR, [K_NEWPIN])
  | HErr e :: _ => inl (e, [K_NEWPIN])
  | HOk None :: _ => inl (PAM_CRED_INSUFFICIENT, [K_NEWPIN])
  | HOk (Some pin) :: c1 =>
      match c1 with
      | [] => inl (PAM_CONV_ERR, [K_NEWPIN; K_CONFIRMPIN])
      | HErr e :: _ => inl (e, [K_NEWPIN; K_CONFIRMPIN])
      | HOk None :: _ => inl (PAM_CRED_INSUFFICIENT, [K_NEWPIN; K_CONFIRMPIN])
      | HOk (Some confirm) :: c2 =>
          if beqb pin confirm then inr (pin, [K_NEWPIN; K_CONFIRMPIN], c2)
          else
            match c2 with
            | [] => inl (PAM_CONV_ERR, [K_NEWPIN; K_CONFIRMPIN; K_MESSAGE])
            | HErr e :: _ => inl (e, [K_NEWPIN; K_CONFIRMPIN; K_MESSAGE])
            | HOk _ :: c3 =>
                match setup_pin c3 with
                | inl (e, ks) => inl (e, K_NEWPIN :: K_CONFIRMPIN :: K_MESSAGE :: ks)
                | inr (p, ks, c4) => inr (p, K_NEWPIN :: K_CONFIRMPIN :: K_MESSAGE :: ks, c4)
                end
            end
      end
  end.

(* the body of `match client_response { ... }`: what the module asks the user ([list N]) and
   whether it returns ([Stop]) or goes round the loop again with a new request ([Next]).
   stacked : the stacked authtok not yet used
   tz      : the next call's timeout is Some(0) (a device grant with expires_in = 0) *)
Inductive stepres :=
| Stop (c : rc)
| Next (q : req) (tz : bool) (stacked : option bytes) (conv : list cev).

Definition on_reply (o : opts) (ev : devent) (stacked : option bytes) (conv : list cev)
  : list N * stepres :=
  match ev with
  | DStep RSuccess _ => ([], Stop PAM_SUCCESS)
  | DStep RDenied _ => ([], Stop PAM_AUTH_ERR)
  | DStep RUnknown _ => ([], Stop (if o_ignore_unknown o then PAM_IGNORE else PAM_USER_UNKNOWN))
  | DStep RPassword sid =>
      match stacked with
      | Some cred => ([], Next (QPassword cred sid) false None conv)
      | None =>
          match pop conv with
          | (HOk (Some cred), conv') => ([K_PASSWORD], Next (QPassword cred sid) false None conv')
          | (HOk None, _) => ([K_PASSWORD], Stop PAM_CRED_INSUFFICIENT)
          | (HErr e, _) => ([K_PASSWORD], Stop e)
          end
      end
  | DStep (RDevice exp) sid =>
      match pop conv with
      | (HErr e, _) => ([K_DEVICEMSG], Stop e)
      | (HOk _, conv') => ([K_DEVICEMSG], Next (QDevice sid) (exp =? 0) stacked conv')
      end
  | DStep RMfaCode sid =>
      match pop conv with
      | (HOk (Some cred), conv') => ([K_MFACODE], Next (QMfaCode cred sid) false stacked conv')
      | (HOk None, _) => ([K_MFACODE], Stop PAM_CRED_INSUFFICIENT)
      | (HErr e, _) => ([K_MFACODE], Stop e)
      end
  | DStep (RMfaPoll _) sid =>
      match pop conv with
      | (HErr e, _) => ([K_MESSAGE], Stop e)
      | (HOk _, conv') => ([K_MESSAGE], Next (QMfaPoll sid) false stacked conv')
      end
  | DStep RMfaPollWait sid => ([], Next (QMfaPoll sid) false stacked conv)
  | DStep RSetupPin sid =>
      match pop conv with
      | (HErr e, _) => ([K_MESSAGE], Stop e)
      | (HOk _, conv') =>
          match setup_pin conv' with
          | inl (e, ks) => (K_MESSAGE :: ks, Stop e)
          | inr (pin, ks, conv'') => (K_MESSAGE :: ks, Next (QSetupPin pin sid) false stacked conv'')
          end
      end
  | DStep RPin sid =>
      match stacked with
      | Some cred => ([], Next (QPin cred sid) false None conv)
      | None =>
          match pop conv with
          | (HOk (Some cred), conv') => ([K_PIN], Next (QPin cred sid) false None conv')
          | (HOk None, _) => ([K_PIN], Stop PAM_CRED_INSUFFICIENT)
          | (HErr e, _) => ([K_PIN], Stop e)
          end
      end
  | DError => ([], Stop PAM_AUTH_ERR)
  | DPamStatus _ | DOther _ => ([], Stop PAM_AUTH_ERR)   (* a reply of the wrong kind *)
  | DGarbage | DEof => ([], Stop PAM_AUTH_ERR)           (* call_and_wait returned Err *)
  end.

(* `loop { call_and_wait(req, timeout); match response ... }`
   q  : the request about to be sent
   tz : set_write_timeout(Some(ZERO)) fails: nothing is sent, the call is an error *)
Fixpoint auth_loop (o : opts) (script : list devent) (q : req) (tz : bool)
                   (stacked : option bytes) (conv : list cev) : run :=
  if tz then stop PAM_AUTH_ERR else
  match script with
  | [] => mkrun (ORet PAM_AUTH_ERR) [q] [] []            (* the daemon is gone *)
  | ev :: rest =>
      let '(ks, s) := on_reply o ev stacked conv in
      let r := match s with
               | Stop c => stop c
               | Next q' tz' stacked' conv' => auth_loop o rest q' tz' stacked' conv'
               end in
      mkrun (r_out r) (q :: r_reqs r) (ks ++ r_conv r) (ev :: r_read r)
  end.

Definition auth_connected (o : opts) (h : handler) (script : list devent) : run :=
  match h_service h with
  | HErr e => stop e
  | HOk _ =>
      match h_account h with
      | HErr e => stop e
      | HOk acct =>
          if o_first_pass o then
            match h_authtok h with
            | HErr e => stop e
            | HOk stacked => auth_loop o script (QInit acct) false stacked (h_conv h)
            end
          else auth_loop o script (QInit acct) false None (h_conv h)
      end
  end.

(* ------------------------------------------------------------------ /etc/shadow, CryptPw *)
(* the fields of an EtcShadow record the module reads; expiry in days since the epoch *)
Record sent := mkS { s_name : bytes; s_pw : bytes; s_expire : option Z }.

Inductive cryptpw := CSha256 | CSha512 | CYescrypt | CInvalid.
(* CryptPw::from_str: a prefix test, nothing else *)
Definition classify (f : bytes) : cryptpw :=
  match f with
  | 36 :: 54 :: 36 :: _ => CSha512       (* "$6$" *)
  | 36 :: 53 :: 36 :: _ => CSha256       (* "$5$" *)
  | 36 :: 121 :: 36 :: _ => CYescrypt    (* "$y$" *)
  | _ => CInvalid
  end.

(* true : the tree under check contains /repo 054a9cd (= /verif/fixes/C43.patch): check_pw first
          requires the last '$'-field of a "$5$" string to be 43 hash64 characters with a canonical
          last one (sha256_crypt_hash_field_is_valid = KV.C30.Model.sha256_field_ok) and answers
          false otherwise.
   false: the originally pinned tree, which called sha_crypt::sha256_check on every "$5$" field;
          sha-crypt 0.5.0 unwraps the decode of the hash field and PANICKED on anything else
          (kept as check_pw_gen false / auth_fallback_gen false). *)
Definition tree_fixed : bool := true.

(* yescrypt is not modelled: [ytab] lists the (hash string, password) pairs the harness produced
   with the yescrypt hasher; every other pair is taken not to verify *)
Definition ytab_t := list (bytes * bytes).
Definition yverify (yt : ytab_t) (f cred : bytes) : bool :=
  existsb (fun p => beqb (fst p) f && beqb (snd p) cred) yt.

(* CryptPw::check_pw *)
Inductive pwres := PwOk (b : bool) | PwPanic.
Definition check_pw_gen (fixed : bool) (yt : ytab_t) (f cred : bytes) : pwres :=
  match classify f with
  | CSha256 =>
      match KV.C30.Model.sha_check_gen fixed false cred f with
      | KV.C30.Model.VOk b => PwOk b
      | KV.C30.Model.VErr => PwOk false
      | KV.C30.Model.VPanic => PwPanic
      end
  | CSha512 =>
      match KV.C30.Model.sha_check_gen fixed true cred f with
      | KV.C30.Model.VOk b => PwOk b
      | KV.C30.Model.VErr => PwOk false
      | KV.C30.Model.VPanic => PwPanic
      end
  | CYescrypt => PwOk (yverify yt f cred)
  | CInvalid => PwOk false
  end.
Definition check_pw := check_pw_gen tree_fixed.

(* Vec::into_iter().find(|e| e.name == account_id) *)
Fixpoint find_shadow (name : bytes) (l : list sent) : option sent :=
  match l with
  | [] => None
  | e :: r => if beqb (s_name e) name then Some e else find_shadow name r
  end.
Definition user_known (name : bytes) (users : list bytes) : bool := existsb (fun u => beqb u name) users.

(* current_time >= expire, expire = UNIX_EPOCH + days; the current time is [ct] whole seconds
   (plus a fraction that cannot change the comparison with a whole number of seconds) *)
Definition expired (ct : Z) (e : sent) : bool :=
  match s_expire e with
  | Some d => (d * 86400 <=? ct)%Z
  | None => false
  end.

(* the files: None = unreadable or malformed = `unwrap_or_default()` = no records *)
Definition recs {A} (f : option (list A)) : list A := match f with Some l => l | None => [] end.

(* ------------------------------------------------------------------ sm_authenticate_fallback *)
Definition auth_fallback_gen (fixed : bool) (o : opts) (h : handler) (ct : Z) (users : list bytes)
                             (shadow : list sent) (yt : ytab_t) : run :=
  match h_account h with
  | HErr e => stop e
  | HOk acct =>
      match user_known acct users, find_shadow acct shadow with
      | true, Some ent =>
          if expired ct ent then stop PAM_ACCT_EXPIRED else
          let check (cred : bytes) : run :=
            match check_pw_gen fixed yt (s_pw ent) cred with
            | PwOk true => stop PAM_SUCCESS
            | PwOk false => stop PAM_AUTH_ERR
            | PwPanic => mkrun OPanic [] [] []
            end in
          let prompt : run :=
            match pop (h_conv h) with
            | (HOk (Some cred), _) => asked K_PASSWORD (check cred)
            | (HOk None, _) => asked K_PASSWORD (stop PAM_CRED_INSUFFICIENT)
            | (HErr e, _) => asked K_PASSWORD (stop e)
            end in
          if o_first_pass o then
            match h_authtok h with
            | HErr e => stop e
            | HOk (Some cred) => check cred
            | HOk None => prompt
            end
          else prompt
      | _, _ => stop (if o_ignore_unknown o then PAM_IGNORE else PAM_USER_UNKNOWN)
      end
  end.

Definition auth_fallback := auth_fallback_gen tree_fixed.

(* ------------------------------------------------------------------ connect_to_daemon + sm_authenticate *)
Inductive source :=
| SDaemon (script : list devent)                                         (* the socket could be opened *)
| SFallback (users : option (list bytes)) (shadow : option (list sent)).  (* it could not: system files *)

Definition authenticate (o : opts) (h : handler) (src : source) (ct : Z) (yt : ytab_t) : run :=
  match src with
  | SDaemon script => auth_connected o h script
  | SFallback users shadow => auth_fallback o h ct (recs users) (recs shadow) yt
  end.

(* ------------------------------------------------------------------ acct_mgmt *)
Definition acct_mgmt (o : opts) (h : handler) (src : source) (ct : Z) : run :=
  match h_service h with
  | HErr e => stop e
  | HOk _ =>
      match h_account h with
      | HErr e => stop e
      | HOk acct =>
          match src with
          | SDaemon script =>
              let q := QAcct acct in
              match script with
              | [] => mkrun (ORet PAM_IGNORE) [q] [] []
              | ev :: _ =>
                  mkrun (ORet match ev with
                              | DPamStatus (Some true) => PAM_SUCCESS
                              | DPamStatus (Some false) => PAM_AUTH_ERR
                              | DPamStatus None => if o_ignore_unknown o then PAM_IGNORE else PAM_USER_UNKNOWN
                              | _ => PAM_IGNORE          (* unexpected reply, or call_and_wait Err *)
                              end) [q] [] [ev]
              end
          | SFallback users shadow =>
              match user_known acct (recs users), find_shadow acct (recs shadow) with
              | true, Some ent => if expired ct ent then stop PAM_ACCT_EXPIRED else stop PAM_SUCCESS
              | _, _ => stop (if o_ignore_unknown o then PAM_IGNORE else PAM_USER_UNKNOWN)
              end
          end
      end
  end.

(* ================================================================== the property, stated on its own *)
(* the PAM library reports a failure with a code other than PAM_SUCCESS (module.rs builds every Err
   from `res != PAM_SUCCESS` or a constant error code) — the contract the property presupposes *)
Definition sane_res {A} (r : hres A) : bool := match r with HErr e => negb (e =? PAM_SUCCESS) | HOk _ => true end.
Definition handler_sane (h : handler) : bool :=
  sane_res (h_service h) && sane_res (h_account h) && sane_res (h_authtok h) && forallb sane_res (h_conv h).

(* a reply after which the module keeps talking to the daemon *)
Definition continuing (e : devent) : bool :=
  match e with
  | DStep (RPassword | RDevice _ | RMfaCode | RMfaPoll _ | RMfaPollWait | RSetupPin | RPin) _ => true
  | _ => false
  end.
Definition is_success (e : devent) : bool := match e with DStep RSuccess _ => true | _ => false end.
(* error, unknown user, refusal, wrong kind of reply, undecodable frame, disconnect *)
Definition is_fault (e : devent) : bool := negb (continuing e) && negb (is_success e).

(* "the resolver daemon explicitly reports success": of the script events the daemon served, the
   LAST is Success and all earlier ones are continuing replies *)
Fixpoint ends_in_success (served : list devent) : bool :=
  match served with
  | [] => false
  | [e] => is_success e
  | e :: r => continuing e && ends_in_success r
  end.

(* the password the user supplied: the stacked token when the module is told to use it and there
   is one, otherwise the answer to the (first) password prompt *)
Definition supplied_password (o : opts) (h : handler) : option bytes :=
  match (if o_first_pass o then h_authtok h else HOk None) with
  | HOk (Some cred) => Some cred
  | HOk None => match h_conv h with HOk (Some cred) :: _ => Some cred | _ => None end
  | HErr _ => None
  end.

(* the shadow entry in force for the account (first one of that name), provided /etc/passwd knows
   the account too *)
Definition local_entry (h : handler) (users : list bytes) (shadow : list sent) : option sent :=
  match h_account h with
  | HOk acct => if user_known acct users then find_shadow acct shadow else None
  | HErr _ => None
  end.

(* "holds a supported hash that verifies the password": the field is a sha256-crypt / sha512-crypt
   string whose rounds, salt and digest fields parse and whose digest IS the Drepper digest of the
   password (KV.C30.Prim.shacrypt_raw), or a yescrypt string verified by the oracle *)
Definition supported (f : bytes) : bool := match classify f with CInvalid => false | _ => true end.
Definition crypt_verifies (yt : ytab_t) (f cred : bytes) : bool :=
  match classify f with
  | CSha256 =>
      match KV.C30.Model.sha_prepare_gen false false f with
      | KV.C30.Model.SCCompare salt r d =>
          let out := shacrypt_raw sha256 cred salt (N.to_nat r) in
          beqb (map (fun t => nth t out 0) MAP_SHA256) (firstn 32 (d ++ repeat 0 32))
      | _ => false
      end
  | CSha512 =>
      match KV.C30.Model.sha_prepare_gen false true f with
      | KV.C30.Model.SCCompare salt r d =>
          let out := shacrypt_raw sha512 cred salt (N.to_nat r) in
          beqb (map (fun t => nth t out 0) MAP_SHA512) (firstn 64 (d ++ repeat 0 64))
      | _ => false
      end
  | CYescrypt => yverify yt f cred
  | CInvalid => false
  end.

(* the extra requirement of the fixed tree on "$5$" fields: a canonical 43-character hash field *)
Definition field_guard (f : bytes) : bool :=
  match classify f with CSha256 => KV.C30.Model.sha256_field_ok f | _ => true end.

Definition fallback_legit (o : opts) (h : handler) (ct : Z) (users : list bytes) (shadow : list sent)
                          (yt : ytab_t) : bool :=
  match local_entry h users shadow, supplied_password o h with
  | Some ent, Some cred => negb (expired ct ent) && supported (s_pw ent) && crypt_verifies yt (s_pw ent) cred
  | _, _ => false
  end.

Definition acct_legit (h : handler) (src : source) (ct : Z) (served : list devent) : bool :=
  match src with
  | SDaemon _ => match served with [DPamStatus (Some true)] => true | _ => false end
  | SFallback users shadow =>
      match local_entry h (recs users) (recs shadow) with
      | Some ent => negb (expired ct ent)
      | None => false
      end
  end.

(* ================================================================== correspondence *)
Inductive op := OpAuth | OpAcct.

Record case := mkcase {
  c_op : op; c_opts : opts; c_h : handler; c_src : source; c_ct : Z; c_ytab : ytab_t;
  (* observed on the implementation *)
  i_out : outcome;          (* PamResultCode returned, or panic *)
  i_reqs : list req;        (* requests the fake daemon received *)
  i_conv : list N;          (* conversation calls the module made *)
  i_served : N              (* script events the fake daemon served *)
}.

Definition model_run (c : case) : run :=
  match c_op c with
  | OpAuth => authenticate (c_opts c) (c_h c) (c_src c) (c_ct c) (c_ytab c)
  | OpAcct => acct_mgmt (c_opts c) (c_h c) (c_src c) (c_ct c)
  end.

Definition outcome_eqb (a b : outcome) : bool :=
  match a, b with ORet x, ORet y => x =? y | OPanic, OPanic => true | _, _ => false end.
Definition req_eqb (a b : req) : bool :=
  match a, b with
  | QInit x, QInit y => beqb x y
  | QAcct x, QAcct y => beqb x y
  | QPassword x s, QPassword y t => beqb x y && (s =? t)
  | QDevice s, QDevice t => s =? t
  | QMfaCode x s, QMfaCode y t => beqb x y && (s =? t)
  | QMfaPoll s, QMfaPoll t => s =? t
  | QSetupPin x s, QSetupPin y t => beqb x y && (s =? t)
  | QPin x s, QPin y t => beqb x y && (s =? t)
  | _, _ => false
  end.
Fixpoint list_eqb {A} (eq : A -> A -> bool) (a b : list A) : bool :=
  match a, b with
  | [], [] => true
  | x :: a', y :: b' => eq x y && list_eqb eq a' b'
  | _, _ => false
  end.

Definition script_of (s : source) : list devent := match s with SDaemon l => l | SFallback _ _ => [] end.
(* the daemon serves one script event per request it receives, as long as it has one *)
Definition served_count (r : run) (script : list devent) : N :=
  N.min (N.of_nat (length (r_reqs r))) (N.of_nat (length script)).

Definition agree (c : case) : bool :=
  let r := model_run c in
  outcome_eqb (r_out r) (i_out c) &&
  list_eqb req_eqb (r_reqs r) (i_reqs c) &&
  list_eqb N.eqb (r_conv r) (i_conv c) &&
  (served_count r (script_of (c_src c)) =? i_served c).

(* the property evaluated on what the IMPLEMENTATION did: success only when legitimate.
   Hash comparisons are evaluated lazily: only for runs that reported success. *)
Definition pcheck (c : case) : bool :=
  if negb (handler_sane (c_h c)) then true else
  match i_out c with
  | ORet 0 =>
      match c_op c, c_src c with
      | OpAuth, SDaemon script => ends_in_success (firstn (N.to_nat (i_served c)) script)
      | OpAuth, SFallback users shadow =>
          fallback_legit (c_opts c) (c_h c) (c_ct c) (recs users) (recs shadow) (c_ytab c)
      | OpAcct, src => acct_legit (c_h c) src (c_ct c) (firstn (N.to_nat (i_served c)) (script_of src))
      end
  | _ => true
  end.

Definition known (_ : case) : bool := false.
