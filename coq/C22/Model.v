(* KV.C22.Model — security principal names (executable definitions only).
   Transcribes:
     Entry::generate_spn                       server/lib/src/entry.rs
     Spn::modify_inner / Spn::post_modify_inner server/lib/src/plugins/spn.rs
     danger_domain_rename, reload_domain_info   server/lib/src/server/mod.rs
   and, as far as they decide success/failure of the operations used here:
     Value::new_iname / Value::validate_iname   (lower-casing, INAME_RE, DISALLOWED_NAMES)
     AttrUnique::enforce_unique on `name` and `spn` (live entries only)
     schema "must" of person / service account (name) vs group (name optional)
     delete (live -> recycled, attributes kept), revive_recycled (re-runs pre-modify plugins),
     internal_modify on a filter that matches nothing (Ok, no change),
     write transaction dropped instead of committed (nothing changes, d_info included). *)
From Coq Require Export Strings.String Strings.Ascii.   (* only for the literals of the case files *)
From Coq Require Import List NArith Bool.
Import ListNotations.
Open Scope N_scope.

Definition str := list N.                      (* UTF-8 bytes *)

Fixpoint str_eqb (a b : str) : bool :=
  match a, b with
  | [], [] => true
  | x :: a', y :: b' => (x =? y) && str_eqb a' b'
  | _, _ => false
  end.

(* the proto / index rendering of Value::Spn(n, d): format!("{n}@{d}") *)
Definition spn_str (n d : str) : str := n ++ 64 :: d.

(* ---- Value::new_iname + Value::validate_iname *)
Definition lower (c : N) : N := if (65 <=? c) && (c <=? 90) then c + 32 else c.
Definition lowers (s : str) : str := map lower s.
Definition is_lower (c : N) : bool := (97 <=? c) && (c <=? 122).
Definition is_tail (c : N) : bool :=
  is_lower c || ((48 <=? c) && (c <=? 57)) || (c =? 45) || (c =? 95) || (c =? 46).
Definition s_root : str := [114; 111; 111; 116].
(* INAME_RE = ^[a-z][a-z0-9-_\.]{0,63}$ ; DISALLOWED_NAMES = {root, dn=token} (the latter
   never passes the regex). UUID-shaped names (also refused) are never generated. *)
Definition iname_ok (s : str) : bool :=
  match s with
  | [] => false
  | c :: r => is_lower c && forallb is_tail r && (N.of_nat (length r) <=? 63) && negb (str_eqb s s_root)
  end.

(* ---- entries *)
Inductive kind := KPerson | KService | KGroup | KBuiltin.

Record ent := mkent {
  eid : N;                    (* interned uuid *)
  ekind : kind;
  ename : option str;         (* the single-valued iname `name` *)
  espn : list str;            (* the values of `spn`, each rendered n@d, sorted *)
  elive : bool                (* false = recycled *)
}.

Record st := mkst { dom : str; ents : list ent }.

(* what a caller may put into the `spn` attribute *)
Inductive spn_in :=
| SNone                       (* nothing / purge *)
| SSpn (n d : str)            (* a Value::Spn(n, d) *)
| SIname (n : str)            (* an iname value stashed into spn *)
| SUtf8 (s : str).            (* some other syntax *)

(* the `spn` value set as generate_spn sees it *)
Inductive spnattr := ANone | ASpn (vals : list str) | AIname (n : str) | AOther.

Definition attr_of_in (a : spn_in) : spnattr :=
  match a with
  | SNone => ANone
  | SSpn n d => ASpn [spn_str n d]
  | SIname n => AIname (lowers n)
  | SUtf8 _ => AOther
  end.

Definition attr_of_stored (v : list str) : spnattr :=
  match v with [] => ANone | _ => ASpn v end.

(* Entry::generate_spn *)
Definition generate_spn (name : option str) (a : spnattr) (d : str) : option (list str) :=
  match name with
  | Some n => Some [spn_str n d]
  | None =>
      match a with
      | ANone => None
      | ASpn vs => Some vs
      | AIname n => Some [spn_str n d]
      | AOther => None
      end
  end.

(* ---- AttrUnique on name and spn: only live entries other than `self` conflict *)
Definition name_taken (es : list ent) (self : N) (n : str) : bool :=
  existsb (fun e => elive e && negb (eid e =? self) &&
                    match ename e with Some m => str_eqb m n | None => false end) es.
Definition spn_taken (es : list ent) (self : N) (s : str) : bool :=
  existsb (fun e => elive e && negb (eid e =? self) && existsb (str_eqb s) (espn e)) es.
Definition unique_ok (es : list ent) (self : N) (name : option str) (spn : list str) : bool :=
  negb (match name with Some n => name_taken es self n | None => false end)
  && negb (existsb (spn_taken es self) spn).

Fixpoint find_ent (es : list ent) (id : N) : option ent :=
  match es with
  | [] => None
  | e :: r => if eid e =? id then Some e else find_ent r id
  end.

Definition replace (es : list ent) (e' : ent) : list ent :=
  map (fun e => if eid e =? eid e' then e' else e) es.

(* schema: person and service account MUST have a name, group MAY; the name must be a valid iname *)
Definition name_ok_for (k : kind) (name : option str) : bool :=
  match name with
  | Some n => iname_ok n
  | None => match k with KGroup => true | _ => false end
  end.

(* ---- operations *)
Inductive op :=
| OCreate (id : N) (k : kind) (name : option str) (s : spn_in)
| ORename (id : N) (new : str)            (* purge + set `name` *)
| OSetSpn (id : N) (s : spn_in)           (* replace (or purge) `spn` *)
| OPurgeName (id : N)
| ODelete (id : N)
| ORevive (id : N)
| ODomain (d : str).                      (* danger_domain_rename *)

(* create: Spn::modify_inner in pre_create_transform, then AttrUnique, then schema *)
Definition do_create (s : st) (id : N) (k : kind) (name : option str) (a : spn_in) : option st :=
  let name' := option_map lowers name in
  match generate_spn name' (attr_of_in a) (dom s) with
  | None => None
  | Some v =>
      if name_ok_for k name' && unique_ok (ents s) id name' v
      then Some (mkst (dom s) (ents s ++ [mkent id k name' v true]))
      else None
  end.

(* a modify of entry `id`: recycled or absent targets are not matched by the filter -> Ok, no change *)
Definition on_live (s : st) (id : N) (f : ent -> option ent) : option st :=
  match find_ent (ents s) id with
  | Some e =>
      if elive e then
        match f e with
        | Some e' => Some (mkst (dom s) (replace (ents s) e'))
        | None => None
        end
      else Some s
  | None => Some s
  end.

(* the pre-modify pipeline on a candidate with the given name and spn attribute *)
Definition regen (s : st) (e : ent) (name : option str) (a : spnattr) : option ent :=
  match generate_spn name a (dom s) with
  | None => None
  | Some v =>
      if name_ok_for (ekind e) name && unique_ok (ents s) (eid e) name v
      then Some (mkent (eid e) (ekind e) name v true)
      else None
  end.

(* ModifyList::validate checks the new name's syntax before any entry is looked up *)
Definition do_rename (s : st) (id : N) (new : str) : option st :=
  if negb (iname_ok (lowers new)) then None
  else on_live s id (fun e => regen s e (Some (lowers new)) (attr_of_stored (espn e))).

Definition do_setspn (s : st) (id : N) (a : spn_in) : option st :=
  on_live s id (fun e => regen s e (ename e) (attr_of_in a)).

Definition do_purgename (s : st) (id : N) : option st :=
  on_live s id (fun e => regen s e None (attr_of_stored (espn e))).

(* delete: only live entries match; the recycled entry keeps all its attributes *)
Definition do_delete (s : st) (id : N) : option st :=
  match find_ent (ents s) id with
  | Some e =>
      if elive e
      then Some (mkst (dom s) (replace (ents s) (mkent (eid e) (ekind e) (ename e) (espn e) false)))
      else None
  | None => None
  end.

(* revive: only recycled entries match (filter_rec); Plugins::run_pre_modify is re-run *)
Definition do_revive (s : st) (id : N) : option st :=
  match find_ent (ents s) id with
  | Some e =>
      if elive e then Some s
      else match regen s e (ename e) (attr_of_stored (espn e)) with
           | Some e' => Some (mkst (dom s) (replace (ents s) e'))
           | None => None
           end
  | None => Some s
  end.

(* Spn::post_modify_inner after a change of domain_name: reload_domain_info, then
   internal_modify(filter!(pres spn), purge spn) -- live entries only; the purge leaves
   generate_spn nothing but the name to work from *)
Fixpoint regen_all (d : str) (es : list ent) : option (list ent) :=
  match es with
  | [] => Some []
  | e :: r =>
      match (if elive e && negb (match espn e with [] => true | _ => false end)
             then match generate_spn (ename e) ANone d with
                  | Some v => Some (mkent (eid e) (ekind e) (ename e) v true)
                  | None => None
                  end
             else Some e) with
      | None => None
      | Some e' => match regen_all d r with Some r' => Some (e' :: r') | None => None end
      end
  end.

Definition do_domain (s : st) (d : str) : option st :=
  let d' := lowers d in
  if negb (iname_ok d') then None
  else if str_eqb d' (dom s) then Some s
  else match regen_all d' (ents s) with
       | Some es => Some (mkst d' es)
       | None => None
       end.

Definition step (s : st) (o : op) : option st :=
  match o with
  | OCreate id k name a => do_create s id k name a
  | ORename id new => do_rename s id new
  | OSetSpn id a => do_setspn s id a
  | OPurgeName id => do_purgename s id
  | ODelete id => do_delete s id
  | ORevive id => do_revive s id
  | ODomain d => do_domain s d
  end.

(* a write transaction: ops in order until the first failure; the per-op results are reported *)
Fixpoint run_ops (s : st) (ops : list op) : option st * list bool :=
  match ops with
  | [] => (Some s, [])
  | o :: r =>
      match step s o with
      | None => (None, [false])
      | Some s1 => let '(x, l) := run_ops s1 r in (x, true :: l)
      end
  end.

Record txn := mktxn { tops : list op; tcommit : bool }.

(* committed only if every op succeeded and the caller commits; otherwise dropped *)
Definition run_txn (s : st) (t : txn) : st :=
  match fst (run_ops s (tops t)) with
  | Some s1 => if tcommit t then s1 else s
  | None => s
  end.

Definition run_hist (s : st) (ts : list txn) : st := fold_left run_txn ts s.

(* the ops that can produce an account/group without a name *)
Definition nameless_op (o : op) : bool :=
  match o with
  | OCreate _ _ None _ => true
  | OPurgeName _ => true
  | _ => false
  end.
Definition nameless_free (ts : list txn) : bool :=
  forallb (fun t => negb (existsb nameless_op (tops t))) ts.

(* ------------------------------------------------------------------ correspondence *)
(* byte strings in the generated case files are written as Coq string literals (parsing long
   `list N` literals dominates the run time otherwise); `T` turns them into the byte list *)
Fixpoint T (x : string) : str :=
  match x with
  | EmptyString => []
  | String a r => N_of_ascii a :: T r
  end.

(* one dumped account/group entry as read back from the server *)
Inductive dent := DEnt (id : N) (live : bool) (name : option str) (spn : list str).

Inductive ostep :=
| OStep (ops : list op) (commit : bool)
        (res : list bool)                 (* Ok/Err of each attempted op *)
        (dom_mem dom_db : str)            (* get_domain_name(); domain_name of the domain-info entry *)
        (full : bool)                     (* dump holds all entries (true) or only harness-created ones *)
        (dump : list dent).

Inductive case := CHist (dom0 : str) (init : list dent) (steps : list ostep).

Definition is_user (id : N) : bool := 1000 <=? id.

Definition ent_of_dent (d : dent) : ent :=
  match d with DEnt id live name spn => mkent id KBuiltin name spn live end.
Definition dent_of_ent (e : ent) : dent := DEnt (eid e) (elive e) (ename e) (espn e).

Definition view (full : bool) (s : st) : list dent :=
  map dent_of_ent (filter (fun e => full || is_user (eid e)) (ents s)).

Definition bool_eqb (a b : bool) : bool := if a then b else negb b.
Fixpoint lbool_eqb (a b : list bool) : bool :=
  match a, b with
  | [], [] => true
  | x :: a', y :: b' => bool_eqb x y && lbool_eqb a' b'
  | _, _ => false
  end.
Fixpoint lstr_eqb (a b : list str) : bool :=
  match a, b with
  | [], [] => true
  | x :: a', y :: b' => str_eqb x y && lstr_eqb a' b'
  | _, _ => false
  end.
Definition ostr_eqb (a b : option str) : bool :=
  match a, b with
  | None, None => true
  | Some x, Some y => str_eqb x y
  | _, _ => false
  end.
Definition dent_eqb (a b : dent) : bool :=
  match a, b with
  | DEnt i1 l1 n1 s1, DEnt i2 l2 n2 s2 =>
      (i1 =? i2) && bool_eqb l1 l2 && ostr_eqb n1 n2 && lstr_eqb s1 s2
  end.
Fixpoint dump_eqb (a b : list dent) : bool :=
  match a, b with
  | [], [] => true
  | x :: a', y :: b' => dent_eqb x y && dump_eqb a' b'
  | _, _ => false
  end.

(* the property's executable predicate on ONE dumped entry, given the observed domain:
   a live account/group has a name, the name is a valid iname (so it contains no '@'),
   and its spn values are exactly [name ++ "@" ++ domain] *)
Definition dent_full_ok (d : str) (x : dent) : bool :=
  match x with
  | DEnt _ false _ _ => true
  | DEnt _ true (Some n) spn => iname_ok n && lstr_eqb spn [spn_str n d]
  | DEnt _ true None _ => false
  end.
(* the same, but silent on name-less entries *)
Definition dent_named_ok (d : str) (x : dent) : bool :=
  match x with
  | DEnt _ true (Some n) spn => iname_ok n && lstr_eqb spn [spn_str n d]
  | _ => true
  end.
Definition dent_has_name (x : dent) : bool :=
  match x with DEnt _ _ (Some _) _ => true | _ => false end.

Definition step_ok (ok : str -> dent -> bool) (o : ostep) : bool :=
  match o with
  | OStep _ _ _ dm dd _ dump => str_eqb dm dd && forallb (ok dm) dump
  end.

Definition steps_of (c : case) : list ostep := match c with CHist _ _ steps => steps end.

Definition pcheck_with (ok : str -> dent -> bool) (c : case) : bool :=
  match c with
  | CHist d0 init steps => forallb (ok d0) init && forallb (step_ok ok) steps
  end.

(* PROPERTY on the implementation's observations: at the start and after every transaction,
   memory and database agree on the domain name and every live account/group in the dump
   has exactly the one spn name@domain *)
Definition pcheck (c : case) : bool := pcheck_with dent_full_ok c.
Definition pcheck_named (c : case) : bool := pcheck_with dent_named_ok c.

(* model vs implementation, transaction by transaction *)
Fixpoint hist_agree (s : st) (steps : list ostep) : bool :=
  match steps with
  | [] => true
  | OStep ops commit res dm dd full dump :: r =>
      let s1 := run_txn s (mktxn ops commit) in
      lbool_eqb (snd (run_ops s ops)) res
      && str_eqb dm (dom s1) && str_eqb dd (dom s1)
      && dump_eqb (view full s1) dump
      && hist_agree s1 r
  end.

(* the model starts from the OBSERVED initial state; its precondition (every entry, live or
   recycled, has a name and the invariant holds initially) is checked on that observation *)
Definition agree (c : case) : bool :=
  match c with
  | CHist d0 init steps =>
      forallb (fun x => dent_has_name x && dent_full_ok d0 x) init
      && hist_agree (mkst d0 (map ent_of_dent init)) steps
  end.

(* Known-finding class: histories that use a name-less create or a name purge (the full
   statement is refuted there, see Props.C22_refuted) -- excused ONLY when everything the
   theorem C22_named_invariant promises still holds on the observations. *)
Definition uses_nameless (c : case) : bool :=
  existsb (fun o => match o with OStep ops _ _ _ _ _ _ => existsb nameless_op ops end) (steps_of c).
Definition known (c : case) : bool := uses_nameless c && pcheck_named c.
