(* KV.C22.Proofs *)
From Coq Require Import List NArith Bool Lia.
Import ListNotations.
Require Import KV.C22.Model.
Open Scope N_scope.
Arguments N.add : simpl never.
Arguments N.sub : simpl never.
Arguments N.ltb : simpl never.
Arguments N.leb : simpl never.
Arguments N.eqb : simpl never.
Arguments iname_ok : simpl never.
Arguments unique_ok : simpl never.

(* ------------------------------------------------------------------ the invariants *)

(* every live account/group that has a name has a valid name and exactly the spn name@domain *)
Definition NamedSpnInv (s : st) : Prop :=
  forall e, In e (ents s) -> elive e = true ->
  forall n, ename e = Some n -> iname_ok n = true /\ espn e = [spn_str n (dom s)].

(* every entry (live or recycled) has a name *)
Definition AllNamed (s : st) : Prop := forall e, In e (ents s) -> ename e <> None.

(* the property: every live account/group has a (valid) name and exactly the spn name@domain *)
Definition SpnInv (s : st) : Prop :=
  forall e, In e (ents s) -> elive e = true ->
  exists n, ename e = Some n /\ iname_ok n = true /\ espn e = [spn_str n (dom s)].

(* both invariants in one: strict = true adds AllNamed *)
Definition ent_ok (strict : bool) (d : str) (e : ent) : Prop :=
  (strict = true -> ename e <> None) /\
  (elive e = true -> forall n, ename e = Some n -> iname_ok n = true /\ espn e = [spn_str n d]).
Definition Inv (strict : bool) (s : st) : Prop := forall e, In e (ents s) -> ent_ok strict (dom s) e.
Definition allowed (strict : bool) (o : op) : Prop := strict = true -> nameless_op o = false.

Lemma Inv_false_iff s : Inv false s <-> NamedSpnInv s.
Proof.
  unfold Inv, NamedSpnInv, ent_ok. split.
  - intros H e Hin. exact (proj2 (H e Hin)).
  - intros H e Hin. split; [discriminate | exact (H e Hin)].
Qed.

Lemma Inv_true_iff s : Inv true s <-> AllNamed s /\ NamedSpnInv s.
Proof.
  unfold Inv, NamedSpnInv, AllNamed, ent_ok. split.
  - intros H. split; intros e Hin; [exact (proj1 (H e Hin) eq_refl) | exact (proj2 (H e Hin))].
  - intros [H1 H2] e Hin. split; [intros _; exact (H1 e Hin) | exact (H2 e Hin)].
Qed.

Lemma full_of_parts s : AllNamed s -> NamedSpnInv s -> SpnInv s.
Proof.
  intros Ha Hn e Hin Hl. destruct (ename e) as [n|] eqn:En.
  - exists n. destruct (Hn e Hin Hl n En) as [H1 H2]. auto.
  - exfalso. exact (Ha e Hin En).
Qed.

(* ------------------------------------------------------------------ boolean equalities *)
Lemma str_eqb_eq : forall a b, str_eqb a b = true <-> a = b.
Proof.
  induction a as [|x a IH]; destruct b as [|y b]; cbn; split; intros H; try discriminate; try reflexivity.
  - apply andb_true_iff in H. destruct H as [H1 H2]. apply N.eqb_eq in H1. apply IH in H2. subst. reflexivity.
  - inversion H; subst. apply andb_true_iff. split; [apply N.eqb_refl | apply IH; reflexivity].
Qed.

Lemma lstr_eqb_eq : forall a b, lstr_eqb a b = true <-> a = b.
Proof.
  induction a as [|x a IH]; destruct b as [|y b]; cbn; split; intros H; try discriminate; try reflexivity.
  - apply andb_true_iff in H. destruct H as [H1 H2]. apply str_eqb_eq in H1. apply IH in H2. subst. reflexivity.
  - inversion H; subst. apply andb_true_iff. split; [apply str_eqb_eq; reflexivity | apply IH; reflexivity].
Qed.

Lemma ostr_eqb_eq a b : ostr_eqb a b = true -> a = b.
Proof.
  destruct a, b; cbn; intros H; try discriminate; try reflexivity.
  apply str_eqb_eq in H. subst. reflexivity.
Qed.

Lemma bool_eqb_eq a b : bool_eqb a b = true -> a = b.
Proof. destruct a, b; cbn; intros H; try discriminate; reflexivity. Qed.

Lemma dent_eqb_eq a b : dent_eqb a b = true -> a = b.
Proof.
  destruct a as [i1 l1 n1 s1], b as [i2 l2 n2 s2]. cbn.
  rewrite !andb_true_iff. intros [[[H1 H2] H3] H4].
  apply N.eqb_eq in H1. apply bool_eqb_eq in H2. apply ostr_eqb_eq in H3. apply lstr_eqb_eq in H4.
  subst. reflexivity.
Qed.

Lemma dump_eqb_eq : forall a b, dump_eqb a b = true -> a = b.
Proof.
  induction a as [|x a IH]; destruct b as [|y b]; cbn; intros H; try discriminate; try reflexivity.
  apply andb_true_iff in H. destruct H as [H1 H2]. apply dent_eqb_eq in H1. apply IH in H2. subst. reflexivity.
Qed.

(* ------------------------------------------------------------------ names contain no '@' *)
Lemma is_tail_not_at c : is_tail c = true -> c <> 64.
Proof.
  unfold is_tail, is_lower. intros H ->. vm_compute in H. discriminate.
Qed.

Lemma iname_no_at n : iname_ok n = true -> ~ In 64 n.
Proof.
  unfold iname_ok. destruct n as [|c r]; [discriminate|].
  rewrite !andb_true_iff. intros [[[Hc Hr] _] _] [Hin|Hin].
  - subst c. vm_compute in Hc. discriminate.
  - rewrite forallb_forall in Hr. apply Hr in Hin. apply is_tail_not_at in Hin. apply Hin. reflexivity.
Qed.

Lemma spn_str_inj : forall n n' d d',
  ~ In 64 n -> ~ In 64 n' -> spn_str n d = spn_str n' d' -> n = n' /\ d = d'.
Proof.
  unfold spn_str. induction n as [|x n IH]; intros [|y n'] d d' H1 H2 H; cbn in H.
  - inversion H. auto.
  - inversion H; subst. exfalso. apply H2. left. reflexivity.
  - inversion H; subst. exfalso. apply H1. left. reflexivity.
  - inversion H; subst. destruct (IH n' d d') as [Ha Hb]; auto.
    + intros Hin. apply H1. right. exact Hin.
    + intros Hin. apply H2. right. exact Hin.
    + subst. auto.
Qed.

(* ------------------------------------------------------------------ list plumbing *)
Lemma find_ent_in : forall es id e, find_ent es id = Some e -> In e es.
Proof.
  induction es as [|x es IH]; cbn; intros id e H; [discriminate|].
  destruct (eid x =? id); [inversion H; subst; left; reflexivity | right; eapply IH; eassumption].
Qed.

Lemma in_replace es e' e : In e (replace es e') -> e = e' \/ In e es.
Proof.
  unfold replace. rewrite in_map_iff. intros [x [Hx Hin]].
  destruct (eid x =? eid e'); subst; auto.
Qed.

Lemma inv_replace strict s e' :
  Inv strict s -> ent_ok strict (dom s) e' -> Inv strict (mkst (dom s) (replace (ents s) e')).
Proof.
  intros HI He e Hin. cbn in *. apply in_replace in Hin. destruct Hin as [->|Hin]; [exact He | exact (HI e Hin)].
Qed.

(* ------------------------------------------------------------------ single operations *)
Lemma regen_ok strict s e name a e' :
  (strict = true -> name <> None) -> regen s e name a = Some e' -> ent_ok strict (dom s) e'.
Proof.
  unfold regen. intros Hs H.
  destruct (generate_spn name a (dom s)) as [v|] eqn:G; [|discriminate].
  destruct (name_ok_for (ekind e) name && unique_ok (ents s) (eid e) name v) eqn:C; [|discriminate].
  inversion H; subst e'; clear H. split; cbn.
  - exact Hs.
  - intros _ n Hn. subst name. cbn in G. inversion G; subst v.
    apply andb_true_iff in C. destruct C as [C _]. cbn in C. auto.
Qed.

Lemma on_live_inv strict s id f s1 :
  (forall e e', In e (ents s) -> f e = Some e' -> ent_ok strict (dom s) e') ->
  on_live s id f = Some s1 -> Inv strict s -> Inv strict s1.
Proof.
  unfold on_live. intros Hf H HI.
  destruct (find_ent (ents s) id) as [e|] eqn:F; [|inversion H; subst; exact HI].
  destruct (elive e); [|inversion H; subst; exact HI].
  destruct (f e) as [e'|] eqn:Fe; [|discriminate].
  inversion H; subst s1. apply inv_replace; [exact HI|].
  eapply Hf; [eapply find_ent_in; eassumption | exact Fe].
Qed.

Lemma regen_all_spec d : forall es es', regen_all d es = Some es' ->
  forall e', In e' es' ->
  exists e, In e es /\ ename e' = ename e /\
    ((e' = e /\ (elive e = false \/ espn e = [])) \/
     (elive e = true /\ generate_spn (ename e) ANone d = Some (espn e'))).
Proof.
  induction es as [|x es IH]; cbn [regen_all]; intros es' H e' Hin.
  - inversion H; subst. destruct Hin.
  - destruct (elive x && negb match espn x with [] => true | _ :: _ => false end) eqn:C.
    + destruct (generate_spn (ename x) ANone d) as [v|] eqn:G; [|discriminate].
      destruct (regen_all d es) as [r'|] eqn:R; [|discriminate].
      inversion H; subst es'; clear H. destruct Hin as [<-|Hin].
      * exists x. split; [left; reflexivity|]. split; [reflexivity|]. right.
        apply andb_true_iff in C. destruct C as [C _]. split; [exact C|]. cbn. exact G.
      * destruct (IH r' eq_refl e' Hin) as [e [H1 H2]]. exists e. split; [right; exact H1 | exact H2].
    + destruct (regen_all d es) as [r'|] eqn:R; [|discriminate].
      inversion H; subst es'; clear H. destruct Hin as [<-|Hin].
      * exists x. split; [left; reflexivity|]. split; [reflexivity|]. left. split; [reflexivity|].
        destruct (elive x); [|left; reflexivity]. right. cbn in C. destruct (espn x); [reflexivity | discriminate].
      * destruct (IH r' eq_refl e' Hin) as [e [H1 H2]]. exists e. split; [right; exact H1 | exact H2].
Qed.

Lemma gen_none_spec name d v :
  generate_spn name ANone d = Some v -> exists n, name = Some n /\ v = [spn_str n d].
Proof. destruct name as [n|]; cbn; intros H; [inversion H; eauto | discriminate]. Qed.

Lemma domain_inv strict s d s1 : do_domain s d = Some s1 -> Inv strict s -> Inv strict s1.
Proof.
  unfold do_domain. intros H HI.
  destruct (negb (iname_ok (lowers d))); [discriminate|].
  destruct (str_eqb (lowers d) (dom s)); [inversion H; subst; exact HI|].
  destruct (regen_all (lowers d) (ents s)) as [es|] eqn:R; [|discriminate].
  inversion H; subst s1; clear H. intros e' Hin. cbn in *.
  destruct (regen_all_spec _ _ _ R e' Hin) as [e [He [Hname Hc]]].
  destruct (HI e He) as [Hs Hn]. split.
  - rewrite Hname. exact Hs.
  - intros Hl n En. rewrite Hname in En. destruct Hc as [[-> [Hd|Hd]]|[Hle G]].
    + rewrite Hd in Hl. discriminate.
    + destruct (Hn Hl n En) as [_ Hspn]. rewrite Hd in Hspn. discriminate.
    + destruct (Hn Hle n En) as [Hok _]. split; [exact Hok|].
      rewrite En in G. cbn in G. inversion G. reflexivity.
Qed.

Lemma step_inv strict s o s1 : allowed strict o -> step s o = Some s1 -> Inv strict s -> Inv strict s1.
Proof.
  intros Ha H HI. destruct o as [id k name a|id new|id a|id|id|id|d]; cbn [step] in H.
  - (* create *)
    unfold do_create in H.
    destruct (generate_spn (option_map lowers name) (attr_of_in a) (dom s)) as [v|] eqn:G; [|discriminate].
    destruct (name_ok_for k (option_map lowers name) && unique_ok (ents s) id (option_map lowers name) v) eqn:C;
      [|discriminate].
    inversion H; subst s1; clear H. intros e Hin. cbn in *. apply in_app_or in Hin.
    destruct Hin as [Hin|[<-|[]]]; [exact (HI e Hin)|]. split; cbn.
    + intros Hs. specialize (Ha Hs). cbn in Ha. destruct name; [discriminate | discriminate].
    + intros _ n Hn. rewrite Hn in G, C. cbn in G. inversion G; subst v.
      apply andb_true_iff in C. destruct C as [C _]. cbn in C. auto.
  - (* rename *)
    unfold do_rename in H. destruct (negb (iname_ok (lowers new))); [discriminate|].
    eapply on_live_inv; [|exact H|exact HI]. intros e e' _ Hr. eapply regen_ok; [|exact Hr]. discriminate.
  - (* set spn *)
    unfold do_setspn in H. eapply on_live_inv; [|exact H|exact HI]. intros e e' Hin Hr.
    eapply regen_ok; [|exact Hr]. exact (proj1 (HI e Hin)).
  - (* purge name *)
    unfold do_purgename in H. eapply on_live_inv; [|exact H|exact HI]. intros e e' Hin Hr.
    eapply regen_ok; [|exact Hr]. intros Hs. specialize (Ha Hs). discriminate.
  - (* delete *)
    unfold do_delete in H. destruct (find_ent (ents s) id) as [e|] eqn:F; [|discriminate].
    destruct (elive e); [|discriminate]. inversion H; subst s1; clear H.
    apply inv_replace; [exact HI|]. apply find_ent_in in F. destruct (HI e F) as [Hs _].
    split; cbn; [exact Hs | discriminate].
  - (* revive *)
    unfold do_revive in H. destruct (find_ent (ents s) id) as [e|] eqn:F; [|inversion H; subst; exact HI].
    destruct (elive e); [inversion H; subst; exact HI|].
    destruct (regen s e (ename e) (attr_of_stored (espn e))) as [e'|] eqn:R; [|discriminate].
    inversion H; subst s1; clear H. apply inv_replace; [exact HI|].
    eapply regen_ok; [|exact R]. apply find_ent_in in F. exact (proj1 (HI e F)).
  - (* domain rename *)
    eapply domain_inv; eassumption.
Qed.

(* ------------------------------------------------------------------ transactions, histories *)
Definition ops_allowed (strict : bool) (ops : list op) : Prop :=
  strict = true -> existsb nameless_op ops = false.

Lemma run_ops_inv strict : forall ops s, ops_allowed strict ops -> Inv strict s ->
  match fst (run_ops s ops) with Some s1 => Inv strict s1 | None => True end.
Proof.
  induction ops as [|o r IH]; intros s Ha HI; cbn [run_ops].
  - exact HI.
  - destruct (step s o) as [s1|] eqn:S; [|exact I].
    assert (Ho : allowed strict o).
    { intros Hs. specialize (Ha Hs). cbn in Ha. apply orb_false_iff in Ha. tauto. }
    assert (Hr : ops_allowed strict r).
    { intros Hs. specialize (Ha Hs). cbn in Ha. apply orb_false_iff in Ha. tauto. }
    specialize (IH s1 Hr (step_inv _ _ _ _ Ho S HI)).
    destruct (run_ops s1 r) as [x l]. exact IH.
Qed.

Lemma run_txn_inv strict s t : ops_allowed strict (tops t) -> Inv strict s -> Inv strict (run_txn s t).
Proof.
  intros Ha HI. unfold run_txn. pose proof (run_ops_inv strict (tops t) s Ha HI) as H.
  destruct (fst (run_ops s (tops t))) as [s1|]; [|exact HI]. destruct (tcommit t); assumption.
Qed.

Lemma run_hist_inv strict : forall ts s,
  (strict = true -> nameless_free ts = true) -> Inv strict s -> Inv strict (run_hist s ts).
Proof.
  induction ts as [|t r IH]; intros s Ha HI; cbn; [exact HI|].
  apply IH.
  - intros Hs. specialize (Ha Hs). cbn in Ha. apply andb_true_iff in Ha. tauto.
  - apply run_txn_inv; [|exact HI]. intros Hs. specialize (Ha Hs). cbn in Ha.
    apply andb_true_iff in Ha. destruct Ha as [Ha _]. apply negb_true_iff in Ha. exact Ha.
Qed.

Lemma run_hist_app s a b : run_hist s (a ++ b) = run_hist (run_hist s a) b.
Proof. unfold run_hist. apply fold_left_app. Qed.

(* a dropped or failed transaction leaves no trace *)
Lemma dropped_txn s ops : run_txn s (mktxn ops false) = s.
Proof. unfold run_txn; cbn. destruct (fst (run_ops s ops)); reflexivity. Qed.

Lemma failed_txn s ops c : fst (run_ops s ops) = None -> run_txn s (mktxn ops c) = s.
Proof. unfold run_txn; cbn. intros ->. reflexivity. Qed.

(* ------------------------------------------------------------------ the finding, in the model *)
Lemma regen_all_nameless d : forall es e,
  In e es -> elive e = true -> ename e = None -> espn e <> [] -> regen_all d es = None.
Proof.
  induction es as [|x es IH]; intros e Hin Hl Hn Hs; [destruct Hin|].
  cbn [regen_all]. destruct Hin as [->|Hin].
  - rewrite Hl, Hn. destruct (espn e); [congruence|]. reflexivity.
  - rewrite (IH e Hin Hl Hn Hs).
    destruct (if elive x && negb match espn x with [] => true | _ :: _ => false end
              then match generate_spn (ename x) ANone d with
                   | Some v => Some (mkent (eid x) (ekind x) (ename x) v true) | None => None end
              else Some x); reflexivity.
Qed.

Lemma nameless_blocks s d e :
  In e (ents s) -> elive e = true -> ename e = None -> espn e <> [] ->
  lowers d <> dom s -> do_domain s d = None.
Proof.
  intros Hin Hl Hn Hs Hd. unfold do_domain.
  destruct (negb (iname_ok (lowers d))); [reflexivity|].
  destruct (str_eqb (lowers d) (dom s)) eqn:E; [apply str_eqb_eq in E; contradiction|].
  rewrite (regen_all_nameless _ _ e Hin Hl Hn Hs). reflexivity.
Qed.

(* ------------------------------------------------------------------ the run-time tie *)
Definition dent_okb (strict : bool) : str -> dent -> bool :=
  if strict then dent_full_ok else dent_named_ok.

Lemma view_ok strict s full : Inv strict s -> forallb (dent_okb strict (dom s)) (view full s) = true.
Proof.
  intros HI. apply forallb_forall. intros x Hx. unfold view in Hx.
  apply in_map_iff in Hx. destruct Hx as [e [<- He]]. apply filter_In in He. destruct He as [He _].
  destruct (HI e He) as [Hs Hn]. unfold dent_of_ent.
  destruct strict; cbn; destruct (elive e) eqn:L; try reflexivity;
    destruct (ename e) as [n|] eqn:En; try reflexivity.
  - destruct (Hn eq_refl n eq_refl) as [H1 H2]. rewrite H1, H2. cbn.
    apply andb_true_iff. split; [apply str_eqb_eq; reflexivity | reflexivity].
  - exfalso. apply (Hs eq_refl). reflexivity.
  - destruct (Hn eq_refl n eq_refl) as [H1 H2]. rewrite H1, H2. cbn.
    apply andb_true_iff. split; [apply str_eqb_eq; reflexivity | reflexivity].
Qed.

Definition step_uses_nameless (o : ostep) : bool :=
  match o with OStep ops _ _ _ _ _ _ => existsb nameless_op ops end.

Lemma hist_agree_ok strict : forall steps s,
  Inv strict s -> (strict = true -> existsb step_uses_nameless steps = false) ->
  hist_agree s steps = true -> forallb (step_ok (dent_okb strict)) steps = true.
Proof.
  induction steps as [|o r IH]; intros s HI Hn H; [reflexivity|].
  destruct o as [ops commit res dm dd full dump]. cbn [hist_agree] in H.
  rewrite !andb_true_iff in H. destruct H as [[[[_ Hdm] Hdd] Hdump] Hr].
  apply str_eqb_eq in Hdm. apply str_eqb_eq in Hdd. apply dump_eqb_eq in Hdump.
  assert (HI1 : Inv strict (run_txn s (mktxn ops commit))).
  { apply run_txn_inv; [|exact HI]. intros Hs. specialize (Hn Hs). cbn in Hn.
    apply orb_false_iff in Hn. tauto. }
  cbn [forallb step_ok]. apply andb_true_iff. split.
  - apply andb_true_iff. split; [apply str_eqb_eq; congruence|].
    rewrite <- Hdump, Hdm. apply view_ok. exact HI1.
  - eapply IH; [exact HI1| |exact Hr]. intros Hs. specialize (Hn Hs). cbn in Hn.
    apply orb_false_iff in Hn. tauto.
Qed.

Lemma init_inv strict d0 init :
  forallb (fun x => dent_has_name x && dent_full_ok d0 x) init = true ->
  Inv strict (mkst d0 (map ent_of_dent init)).
Proof.
  rewrite forallb_forall. intros H e Hin. cbn in *. apply in_map_iff in Hin.
  destruct Hin as [x [<- Hx]]. specialize (H x Hx). apply andb_true_iff in H. destruct H as [H1 H2].
  destruct x as [id live name spn]. cbn in *. destruct name as [n|]; [|discriminate]. split; cbn.
  - discriminate.
  - intros -> m Hm. inversion Hm; subst m. apply andb_true_iff in H2. destruct H2 as [H2 H3].
    split; [exact H2 | apply lstr_eqb_eq; exact H3].
Qed.

Lemma init_okb strict d0 init :
  forallb (fun x => dent_has_name x && dent_full_ok d0 x) init = true ->
  forallb (dent_okb strict d0) init = true.
Proof.
  rewrite !forallb_forall. intros H x Hx. specialize (H x Hx). apply andb_true_iff in H. destruct H as [H1 H2].
  destruct strict; cbn; [exact H2|].
  destruct x as [id live name spn]. cbn in *. destruct live; [|reflexivity].
  destruct name; [exact H2 | reflexivity].
Qed.

Lemma agree_ok strict c :
  (strict = true -> uses_nameless c = false) -> agree c = true -> pcheck_with (dent_okb strict) c = true.
Proof.
  destruct c as [d0 init steps]. unfold agree, pcheck_with, uses_nameless. cbn [steps_of].
  intros Hn H. apply andb_true_iff in H. destruct H as [Hi Hh]. apply andb_true_iff. split.
  - apply init_okb. exact Hi.
  - eapply hist_agree_ok; [apply init_inv; exact Hi | exact Hn | exact Hh].
Qed.
