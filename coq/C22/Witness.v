(* KV.C22.Witness — non-vacuity: concrete states / histories meeting the hypotheses of the
   implication theorems, and the refuting witness of the full statement. *)
From Coq Require Import List NArith Bool.
Import ListNotations.
Require Import KV.C22.Model KV.C22.Proofs.
Open Scope N_scope.

(* "ex" = [101;120], "d2" = [100;50]; names: al = [97;108], bob = [98;111;98], grp = [103;114;112] *)
Definition w_ex : str := [101; 120].
Definition w_d2 : str := [100; 50].
Definition w_al : str := [97; 108].
Definition w_bob : str := [98; 111; 98].
Definition w_grp : str := [103; 114; 112].

(* a starting state with a built-in, a live person and a RECYCLED group whose spn is stale *)
Definition w_s0 : st := mkst w_ex
  [ mkent 0 KBuiltin (Some w_grp) [spn_str w_grp w_ex] true;
    mkent 1000 KPerson (Some w_al) [spn_str w_al w_ex] true;
    mkent 1001 KGroup (Some w_bob) [[1; 2; 3]] false ].

(* hypotheses of C22_invariant_partial / C22_named_invariant hold of it *)
Example C22_witness_hyp_state : AllNamed w_s0 /\ NamedSpnInv w_s0.
Proof.
  split.
  - intros e [<-|[<-|[<-|[]]]]; discriminate.
  - intros e [<-|[<-|[<-|[]]]] Hl n Hn; try discriminate; inversion Hn; subst n; split; reflexivity.
Qed.

(* a name-less-free history with: a caller-supplied bogus spn on create, a rename, a DROPPED
   domain rename, a committed domain rename (upper case, lower-cased), a revive of the recycled
   group after the domain changed, a failing transaction (duplicate name) *)
Definition w_ts : list txn :=
  [ mktxn [OCreate 1002 KService (Some [83; 86; 67]) (SUtf8 [120; 64; 121])] true;
    mktxn [ORename 1000 [97; 108; 50]] true;
    mktxn [ODomain [122; 122]] false;
    mktxn [ODomain [68; 50]; OSetSpn 1002 (SSpn w_al [101; 118; 105; 108])] true;
    mktxn [ORevive 1001] true;
    mktxn [OCreate 1003 KGroup (Some w_bob) SNone] true ].

Example C22_witness_hyp_history : nameless_free w_ts = true.
Proof. vm_compute. reflexivity. Qed.

Example C22_witness_history_result :
  run_hist w_s0 w_ts = mkst w_d2
    [ mkent 0 KBuiltin (Some w_grp) [spn_str w_grp w_d2] true;
      mkent 1000 KPerson (Some [97; 108; 50]) [spn_str [97; 108; 50] w_d2] true;
      mkent 1001 KGroup (Some w_bob) [spn_str w_bob w_d2] true;
      mkent 1002 KService (Some [115; 118; 99]) [spn_str [115; 118; 99] w_d2] true ].
Proof. vm_compute. reflexivity. Qed.

(* C22_inv_step: a successful step from a state satisfying the invariant *)
Example C22_witness_step :
  step w_s0 (ODomain w_d2) = Some (mkst w_d2
    [ mkent 0 KBuiltin (Some w_grp) [spn_str w_grp w_d2] true;
      mkent 1000 KPerson (Some w_al) [spn_str w_al w_d2] true;
      mkent 1001 KGroup (Some w_bob) [[1; 2; 3]] false ]).
Proof. vm_compute. reflexivity. Qed.

(* C22_failed_txn_no_change: a transaction whose second op fails *)
Example C22_witness_failed_txn :
  fst (run_ops w_s0 [ODomain w_d2; OCreate 1005 KPerson (Some w_al) SNone]) = None.
Proof. vm_compute. reflexivity. Qed.

(* C22_spn_string_determines_name_and_domain *)
Example C22_witness_valid_names : iname_ok w_al = true /\ iname_ok w_bob = true.
Proof. vm_compute. split; reflexivity. Qed.

(* the refuting witness, in the model: a name-less group keeps the foreign spn ... *)
Definition w_nameless : txn := mktxn [OCreate 1004 KGroup None (SSpn w_al [101; 118; 105; 108])] true.
Example C22_witness_refuted_state :
  ents (run_hist (mkst w_ex []) [w_nameless])
  = [mkent 1004 KGroup None [spn_str w_al [101; 118; 105; 108]] true].
Proof. vm_compute. reflexivity. Qed.

(* ... the same through a name purge by a later transaction ... *)
Example C22_witness_refuted_purge :
  ents (run_hist (mkst w_ex []) [mktxn [OCreate 1004 KGroup (Some w_grp) SNone] true; mktxn [OPurgeName 1004] true])
  = [mkent 1004 KGroup None [spn_str w_grp w_ex] true].
Proof. vm_compute. reflexivity. Qed.

(* ... and the hypotheses of C22_nameless_blocks_domain_rename are met by that state: the
   rename of the domain then fails *)
Example C22_witness_blocked_rename :
  let s := run_hist w_s0 [w_nameless] in
  let e := mkent 1004 KGroup None [spn_str w_al [101; 118; 105; 108]] true in
  In e (ents s) /\ elive e = true /\ ename e = None /\ espn e <> [] /\ lowers w_d2 <> dom s
  /\ step s (ODomain w_d2) = None.
Proof.
  vm_compute. repeat split; try reflexivity; try discriminate.
  right. right. right. left. reflexivity.
Qed.

(* the run-time tie: an observed history (shape of a harness case) on which model and
   observation agree, which is outside the known class, and on which the property holds *)
Definition w_case : case :=
  CHist w_ex [DEnt 0 true (Some w_grp) [spn_str w_grp w_ex]]
    [ OStep [OCreate 1000 KPerson (Some [65; 108]) (SIname w_bob)] true [true] w_ex w_ex false
        [DEnt 1000 true (Some w_al) [spn_str w_al w_ex]];
      OStep [ODomain w_d2; ORename 1000 [57]] true [true; false] w_ex w_ex true
        [DEnt 0 true (Some w_grp) [spn_str w_grp w_ex]; DEnt 1000 true (Some w_al) [spn_str w_al w_ex]];
      OStep [ODomain w_d2] true [true] w_d2 w_d2 true
        [DEnt 0 true (Some w_grp) [spn_str w_grp w_d2]; DEnt 1000 true (Some w_al) [spn_str w_al w_d2]] ].
Example C22_witness_agree : agree w_case = true /\ uses_nameless w_case = false /\ pcheck w_case = true.
Proof. vm_compute. repeat split; reflexivity. Qed.

(* a case of the known class: agrees with the model, fails the full predicate, passes the named one *)
Definition w_case_known : case :=
  CHist w_ex []
    [ OStep [OCreate 1004 KGroup None (SSpn w_al [101; 118; 105; 108])] true [true] w_ex w_ex true
        [DEnt 1004 true None [spn_str w_al [101; 118; 105; 108]]];
      OStep [ODomain w_d2] true [false] w_ex w_ex true
        [DEnt 1004 true None [spn_str w_al [101; 118; 105; 108]]] ].
Example C22_witness_known_case :
  agree w_case_known = true /\ pcheck w_case_known = false /\ known w_case_known = true.
Proof. vm_compute. repeat split; reflexivity. Qed.
