(* KV.C22.Props — property theorems only.
   Model: KV.C22.Model (generate_spn, the SPN plugin on create / modify / revive, domain rename,
   attribute uniqueness, iname validation, transactions that commit or are dropped). *)
From Coq Require Import List NArith Bool.
Import ListNotations.
Require Import KV.C22.Model KV.C22.Proofs.
Open Scope N_scope.

(* THE PROPERTY AS STATED. From any state in which every account/group entry (live or recycled)
   has a name and every live one has exactly the spn name@domain, EVERY history of write
   transactions (creates, renames, writes to spn, name purges, deletes, revives, domain renames;
   committed, failed or dropped) leads to a state in which every live account/group has a valid
   name and exactly one spn, equal to name ++ "@" ++ current domain. *)
Definition C22_full_statement : Prop :=
  forall (s : st) (ts : list txn), AllNamed s -> NamedSpnInv s -> SpnInv (run_hist s ts).

(* It does NOT hold of the code as transcribed: `name` is optional for groups and generate_spn
   keeps a caller-supplied Spn value verbatim when there is no name. One committed create of a
   name-less group with spn alice@evil.org gives a live group without name@domain. (Confirmed on the
   real server by the harness; recorded as known-finding class `uses_nameless`.) *)
Theorem C22_refuted : ~ C22_full_statement.
Proof.
  intros H.
  pose (s0 := mkst [100] []).
  pose (t := mktxn [OCreate 1000 KGroup None (SSpn [97] [101])] true).
  assert (Ha : AllNamed s0) by (intros e []).
  assert (Hn : NamedSpnInv s0) by (intros e []).
  specialize (H s0 [t] Ha Hn).
  specialize (H (mkent 1000 KGroup None [[97; 64; 101]] true)).
  destruct H as [n [Hname _]].
  - vm_compute. left. reflexivity.
  - reflexivity.
  - discriminate.
Qed.

(* PROVED PART 1 (everything outside the known class): for every history that contains no
   name-less create and no name purge, the full statement holds -- after every transaction
   (every prefix of the history is itself such a history), for unboundedly many operations,
   including failed and dropped transactions, recycled entries that are revived after the
   domain changed, and callers writing arbitrary values into `spn`. *)
Theorem C22_invariant_partial : forall (s : st) (ts : list txn),
  nameless_free ts = true -> AllNamed s -> NamedSpnInv s ->
  AllNamed (run_hist s ts) /\ SpnInv (run_hist s ts).
Proof.
  intros s ts Hf Ha Hn.
  assert (HI : Inv true (run_hist s ts)).
  { apply run_hist_inv; [intros _; exact Hf | apply Inv_true_iff; auto]. }
  apply Inv_true_iff in HI. destruct HI as [H1 H2]. split; [exact H1 | apply full_of_parts; assumption].
Qed.

(* PROVED PART 2 (all histories, the known class included): whatever is done, every live
   account/group THAT HAS A NAME has a valid name and exactly the one spn name@current-domain. *)
Theorem C22_named_invariant : forall (s : st) (ts : list txn),
  NamedSpnInv s -> NamedSpnInv (run_hist s ts).
Proof.
  intros s ts Hn. apply Inv_false_iff. apply run_hist_inv; [discriminate | apply Inv_false_iff; exact Hn].
Qed.

(* One operation preserves the invariant (the inductive step, exposed). *)
Theorem C22_inv_step : forall (s s1 : st) (o : op),
  step s o = Some s1 -> NamedSpnInv s -> NamedSpnInv s1.
Proof.
  intros s s1 o H Hn. apply Inv_false_iff. eapply step_inv; [|exact H|apply Inv_false_iff; exact Hn].
  intros Hd. discriminate.
Qed.

(* Transactions that fail or are dropped change nothing -- in particular not the domain name. *)
Theorem C22_dropped_txn_no_change : forall s ops, run_txn s (mktxn ops false) = s.
Proof. exact dropped_txn. Qed.
Theorem C22_failed_txn_no_change : forall s ops c,
  fst (run_ops s ops) = None -> run_txn s (mktxn ops c) = s.
Proof. exact failed_txn. Qed.

(* "exactly one SPN equal to name@domain" is unambiguous: valid names contain no '@', so the
   rendered string determines both the name and the domain. *)
Theorem C22_spn_string_determines_name_and_domain : forall n n' d d',
  iname_ok n = true -> iname_ok n' = true -> spn_str n d = spn_str n' d' -> n = n' /\ d = d'.
Proof. intros n n' d d' H1 H2. apply spn_str_inj; apply iname_no_at; assumption. Qed.

(* The second half of the finding: while a live name-less entry with an spn exists, every
   domain rename to a different (valid or not) domain fails -- the purge in
   Spn::post_modify_inner leaves generate_spn nothing to regenerate from. *)
Theorem C22_nameless_blocks_domain_rename : forall s d e,
  In e (ents s) -> elive e = true -> ename e = None -> espn e <> [] ->
  lowers d <> dom s -> step s (ODomain d) = None.
Proof. intros. cbn [step]. eapply nameless_blocks; eassumption. Qed.

(* Soundness of the run-time tie. Whenever the implementation's observations agree with the
   model: (a) the property restricted to named entries holds on every observed dump; *)
Theorem C22_agree_implies_named : forall c : case, agree c = true -> pcheck_named c = true.
Proof. intros c H. apply (agree_ok false c); [discriminate | exact H]. Qed.

(* (b) outside the known class the full property holds on every observed dump. *)
Theorem C22_agree_implies_property : forall c : case,
  agree c = true -> uses_nameless c = false -> pcheck c = true.
Proof. intros c H Hn. apply (agree_ok true c); [intros _; exact Hn | exact H]. Qed.

(* (c) hence every case is either fine or inside the recorded known class. *)
Theorem C22_agree_implies_property_or_known : forall c : case,
  agree c = true -> pcheck c = true \/ known c = true.
Proof.
  intros c H. unfold known. destruct (uses_nameless c) eqn:U.
  - right. rewrite (C22_agree_implies_named c H). reflexivity.
  - left. apply C22_agree_implies_property; assumption.
Qed.
