(* KV.C40.Props — property theorems only.
   Vocabulary. `world` = the facts the gateway reads (unix-bind flag, name index, accounts with the
   secrets their credentials verify, applications, verifiable tokens, possible identities, entries).
   `do_op w cur o` = LdapServer::do_op with the connection's current token `cur`.
   `effective w s` = validate_ldap_session. `ldap_search` / `native` = KV.C23.Model searches.
   All statements hold for ANY world, ANY bind DN / secret bytes, ANY filters, ANY operation lists. *)
From Coq Require Import List NArith Bool.
Import ListNotations.
Require Import KV.Base.Filter KV.C23.Model KV.C23.Proofs KV.C40.Model KV.C40.Proofs.
Open Scope N_scope.

(* --- no write ---------------------------------------------------------------------------- *)

(* Whatever operations a connection performs (the five constructors of `op` are the five of
   ldap3_proto's ServerOps; the hook's exhaustive match stops compiling when one is added), the
   directory facts are the same afterwards: no operation yields a new directory. On the
   implementation side the harness fingerprints the whole database around every operation;
   C40_agree_no_write: a case only agrees when no fingerprint changed. *)
Theorem C40_no_write : forall ops w cur, fst (steps (w, cur) ops) = w.
Proof. intros ops w cur. exact (steps_world ops (w, cur)). Qed.
Theorem C40_agree_no_write : forall w cur0 os o,
  agree (CConn w cur0 os) = true -> In o os -> o_changed o = false.
Proof.
  intros w cur0 os o H Hin. unfold agree in H. apply andb_true_iff in H as [_ H].
  apply (proj1 (forallb_forall _ _) H) in Hin. apply negb_true_iff in Hin. exact Hin.
Qed.

(* --- a password bind is an anonymous reader ----------------------------------------------- *)

(* A bind that is not a token bind yields a UnixBind session ... *)
Theorem C40_pw_bind_session : forall w dn pw s,
  do_bind w dn pw = Ok (Some s) -> bind_target w dn pw <> Ok TToken -> exists u, s = SUnix u.
Proof.
  intros w dn pw s H Hn. unfold do_bind in H.
  destruct (bind_target w dn pw) as [[u| |an u]|e]; [| contradiction Hn; reflexivity | | discriminate].
  - destruct (auth_ldap_some w u pw s H) as [-> _]. exists u. reflexivity.
  - destruct (app_auth_some w an u pw s H) as [-> _]. exists u. reflexivity.
Qed.
(* ... and every operation of such a session runs as the ANONYMOUS entry with read-only scope,
   whoever bound: the identity does not depend on the account at all. *)
Theorem C40_pw_bind_is_anonymous : forall w u i acps,
  effective w (SUnix u) = Ok (i, acps) ->
  exists anon, assoc_n UUID_ANON (w_prin w) = Some (anon, acps) /\ i = mkI (OUser anon) ScRO.
Proof. exact effective_unix. Qed.
(* Hence a password session sees exactly what an anonymous bind sees, in every search and compare
   (the only difference it can make: the session dies when the bound account is gone or expired). *)
Theorem C40_pw_session_equals_anonymous : forall w u x b sc f req ava,
  effective w (SUnix u) = Ok x -> effective w (SUnix UUID_ANON) = Ok x ->
  do_search w (SUnix u) b sc f req = do_search w (SUnix UUID_ANON) b sc f req
  /\ do_compare w (SUnix u) b ava = do_compare w (SUnix UUID_ANON) b ava.
Proof.
  intros w u x b sc f req ava H1 H2. split;
    [apply (pw_session_search w u x) | apply (pw_session_compare w u x)]; assumption.
Qed.
Theorem C40_pw_session_identity_unique : forall w u x y,
  effective w (SUnix u) = Ok x -> effective w (SUnix UUID_ANON) = Ok y -> x = y.
Proof. exact pw_session_ident. Qed.
(* a password session is only usable while the account that bound is a valid account *)
Theorem C40_pw_session_needs_valid_account : forall w u x,
  effective w (SUnix u) = Ok x ->
  exists a, find_acct w u = Some a /\ ac_account a = true /\ ac_valid a = true.
Proof. exact effective_unix_valid. Qed.

(* --- POSIX password binds need the domain flag --------------------------------------------- *)

Theorem C40_unix_bind_needs_flag : forall w dn pw u,
  w_flag w = false -> bind_target w dn pw = Ok (TAccount u) -> u <> UUID_ANON ->
  do_bind w dn pw = Ok None.
Proof.
  intros w dn pw u Hf Ht Hu. unfold do_bind. rewrite Ht. apply flag_off_unix; assumption.
Qed.
(* and when one succeeds, the flag is on and the secret is the account's POSIX password (or, under
   the fallback policy and without a POSIX password, its primary password), the account is valid
   and not soft locked *)
Theorem C40_unix_bind_sound : forall w dn pw u s,
  bind_target w dn pw = Ok (TAccount u) -> do_bind w dn pw = Ok (Some s) ->
  s = SUnix u /\ (u = UUID_ANON \/ (w_flag w = true /\ unix_secret_ok w u pw = true)).
Proof.
  intros w dn pw u s Ht H. unfold do_bind in H. rewrite Ht in H. apply auth_ldap_some. exact H.
Qed.

(* --- application binds need the linked group ------------------------------------------------ *)

Theorem C40_app_bind_needs_group : forall w dn pw an u s,
  bind_target w dn pw = Ok (TApp an u) -> do_bind w dn pw = Ok (Some s) ->
  s = SUnix u /\ u <> UUID_ANON /\
  exists a ap, find_acct w u = Some a /\ ac_account a = true /\ ac_valid a = true
    /\ find_app w an = Some ap /\ memN (ap_group ap) (ac_mo a) = true
    /\ existsb (fun p => (fst p =? ap_id ap) && str_eqb (snd p) pw) (ac_apppw a) = true.
Proof.
  intros w dn pw an u s Ht H. unfold do_bind in H. rewrite Ht in H. apply app_auth_some. exact H.
Qed.

(* every successful bind presented a secret that proves the bound identity (the predicate the run
   evaluates on the implementation's answers) *)
Theorem C40_bind_proves_identity : forall w dn pw s,
  do_bind w dn pw = Ok (Some s) -> bind_ok w pw s = true.
Proof. exact do_bind_ok. Qed.

(* an operation on an unbound connection binds anonymously and nothing else *)
Theorem C40_implicit_bind_is_anonymous : forall w s, do_bind w [] [] = Ok (Some s) -> s = SUnix UUID_ANON.
Proof. exact implicit_bind. Qed.

(* --- LDAP search vs native search ------------------------------------------------------------ *)

(* The statement of the property: the gateway returns what the native search with the client's
   filter returns to the same identity, minus schema and access-control entries. *)
Definition C40_full_statement : Prop := search_full_statement.

(* It does NOT hold of the code: the gateway names `class` in the caller's filter (its exclusion
   term), so an entry whose `class` the identity may not read is hidden although the native search
   shows it (witness: a profile that lets anonymous read only `name` of an OAuth2 client). *)
Theorem C40_refuted : ~ C40_full_statement.
Proof. exact search_full_refuted. Qed.

(* What holds (missing for the full statement: entries with unreadable `class`): the gateway returns
   EXACTLY the native result restricted to entries that are no schema / profile entry AND whose
   `class` is readable, with exactly the same attributes per entry. *)
Theorem C40_search_eq_native_partial : forall i u acps f ext req es,
  reader i = Some u -> (forall e, In e es -> wf3 e) -> fattrs (nat_filter f ext) <> [] ->
  ldap_search i acps f ext req es
  = Some (map (spec_release u acps req)
       (filter (fun e => negb (schema_or_acp e) && may_read u acps e A_CLASS)
          (filter (spec_reveals u acps MHidden (nat_filter f ext)) es)))
  /\ native i acps f ext req es
  = Some (map (spec_release u acps req) (filter (spec_reveals u acps MHidden (nat_filter f ext)) es)).
Proof.
  intros i u acps f ext req es Hr Hwf Hne. split.
  - apply ldap_search_char; assumption.
  - apply native_char. assumption.
Qed.
(* so the full statement holds on every directory where `class` is readable on the entries the
   native search shows *)
Theorem C40_search_eq_native_when_class_readable : forall i u acps f ext req es,
  reader i = Some u -> (forall e, In e es -> wf3 e) -> fattrs (nat_filter f ext) <> [] ->
  (forall e, In e es -> spec_reveals u acps MHidden (nat_filter f ext) e = true ->
             schema_or_acp e = false -> may_read u acps e A_CLASS = true) ->
  ldap_search i acps f ext req es
  = Some (map (spec_release u acps req)
       (filter (fun e => negb (schema_or_acp e))
          (filter (spec_reveals u acps MHidden (nat_filter f ext)) es))).
Proof. exact search_full_when_class_readable. Qed.
(* the security direction, unconditionally: the gateway never shows an entry or attribute that the
   native search by the same identity does not show, and never a schema / profile entry *)
Theorem C40_ldap_never_shows_more : forall i u acps f ext req es l r,
  reader i = Some u -> (forall e, In e es -> wf3 e) -> fattrs (nat_filter f ext) <> [] ->
  ldap_search i acps f ext req es = Some l -> In r l ->
  exists n e, native i acps f ext req es = Some n /\ In r n
              /\ In e es /\ e_id e = fst r /\ schema_or_acp e = false.
Proof.
  intros i u acps f ext req es l r Hr Hwf Hne Hs Hin.
  rewrite (ldap_search_char i u acps f ext req es Hr Hwf Hne) in Hs. injection Hs as <-.
  apply in_map_iff in Hin as [e [<- Hin]]. apply filter_In in Hin as [Hin Hk].
  exists (map (spec_release u acps req) (filter (spec_reveals u acps MHidden (nat_filter f ext)) es)), e.
  split; [apply native_char; exact Hr|]. split; [apply in_map; exact Hin|].
  apply filter_In in Hin as [He _]. repeat split; try assumption.
  unfold ldap_keeps in Hk. apply andb_true_iff in Hk as [Hk _]. apply negb_true_iff in Hk. exact Hk.
Qed.

(* --- the run-time tie ------------------------------------------------------------------------ *)

(* Whenever the implementation's answers agree with the model on a connection (and the case data
   is coherent), every answer of the IMPLEMENTATION satisfies the property's executable predicate
   in its exact form (`obs_ok false`: binds proved their identity, nothing was written, implicit
   binds are anonymous, each search equals the native search by the prescribed identity minus
   schema / profile entries and entries with unreadable `class`, each compare answer is backed by
   the native existence check); i.e. the stated predicate `pcheck` can only fail inside the
   recorded class `known`. *)
Theorem C40_agree_implies_exact : forall c : case, agree c = true -> pcheck_exact c = true.
Proof. exact agree_exact. Qed.
Theorem C40_agree_implies_property : forall c : case,
  agree c = true -> pcheck c = true \/ known c = true.
Proof. exact agree_property. Qed.
(* and inside the recorded class nothing else is wrong: `known` includes the exact predicate *)
Theorem C40_known_is_exact : forall c : case, known c = true -> pcheck_exact c = true.
Proof. intros [w cur0 os] H. unfold known in H. apply andb_true_iff in H as [H _]. exact H. Qed.
